"""SMT back-end portfolio for queries the in-process z3 leaves open (DESIGN section 3.6).

The in-process solver (z3 5.1.0 Python API) takes every query first.  A query it answers
`unknown` is written out as SMT-LIB 2 and given to the CLI solvers; cvc5 is used for `unsat`
only (it can spin on satisfiable sequence queries), every process runs under a hard kill.
"""
from __future__ import annotations

import os
import subprocess
import tempfile

BACKENDS = [
    ("z3-4.8.12(cli)", ["/usr/bin/z3", "-smt2"], True),
    ("cvc5-1.0.3(cli)", ["/usr/bin/cvc5", "--strings-exp", "--lang=smt2"], False),
]


def _child_setup() -> None:
    """The solver dies with the checker (a killed check must not leave solvers behind) and cannot
    take more than 6 GiB."""
    import ctypes
    import resource
    import signal
    try:
        ctypes.CDLL("libc.so.6", use_errno=True).prctl(1, signal.SIGKILL)  # PR_SET_PDEATHSIG
    except Exception:  # noqa: BLE001
        pass
    try:
        resource.setrlimit(resource.RLIMIT_AS, (6 << 30, 6 << 30))
    except Exception:  # noqa: BLE001
        pass


def portfolio(smt2: str, timeout_s: float) -> tuple[str, str]:
    """Returns (verdict, backend) with verdict in unsat | sat | unknown."""
    text = smt2 if "(check-sat)" in smt2 else smt2 + "\n(check-sat)\n"
    fd, path = tempfile.mkstemp(suffix=".smt2", prefix="pyvc_")
    try:
        with os.fdopen(fd, "w") as f:
            f.write(text)
        for name, cmd, trust_sat in BACKENDS:
            try:
                p = subprocess.run(cmd + [path], capture_output=True, text=True,
                                   timeout=timeout_s, preexec_fn=_child_setup)
            except (subprocess.TimeoutExpired, OSError):
                continue
            out = p.stdout.strip().splitlines()
            head = out[0].strip() if out else ""
            if head == "unsat":
                return "unsat", name
            if head == "sat" and trust_sat:
                return "sat", name
        return "unknown", "portfolio"
    finally:
        try:
            os.unlink(path)
        except OSError:
            pass
