"""Loops: exact unrolling for concrete spines, Hoare rule with sidecar invariants, and
fold templates for loops over sequences of symbolic length (DESIGN section 3.4).

Nothing here unrolls a loop whose trip count is symbolic.
"""
from __future__ import annotations

import ast
from typing import Any, Callable

import z3

from .engine import (Frame, Interp, PathAbort, PyExc, _Break, _Continue, _Return)
from .values import (simp, NONE, IntSeq, Unsupported, V, VBool, VBound, VBytes, VConst, VDict, VFloat,
                     VInt, VList, VObj, VStr, VSuper, VTuple, wrap)


# --------------------------------------------------------------------------- quantifier helpers
def exists_fn(I: Interp, n: Any, pred: Callable[[Any], Any]) -> Any:
    """Bool e with: e => pred(sk) for a Skolem sk in range; not e => not pred(k) for every index
    term k in use (lambda axiom).  Both are consequences of  e <=> exists j<n. pred(j)."""
    e = z3.Bool(I.fresh_name("ex"))
    sk = z3.Int(I.fresh_name("ex_sk"))
    I.note_index(sk)

    def p(j: Any) -> Any:
        r = pred(j)
        return z3.BoolVal(r) if isinstance(r, bool) else r
    I.assume(z3.Implies(e, z3.And(sk >= 0, sk < n, p(sk))))
    I.lambda_axioms_add(lambda k: z3.Implies(z3.And(z3.Not(e), k >= 0, k < n), z3.Not(p(k))))
    return e


def forall_or_raise(I: Interp, n: Any, ok: Callable[[Any], Any],
                    mk_exc: Callable[[], VObj]) -> None:
    """Either some index violates ok (raise) or ok holds for all indices (lambda axiom)."""
    bad = exists_fn(I, n, lambda j: z3.Not(_b(ok(j))))
    if I.branch(bad):
        raise PyExc(mk_exc())


def _b(x: Any) -> Any:
    return z3.BoolVal(x) if isinstance(x, bool) else x


class Chunks:
    """Concatenation of elem(0) ++ … ++ elem(n-1) as a fresh (Seq Int) with its defining facts.

    Trusted sequence lemma (DESIGN 3.4): a sequence is the concatenation of chunks iff its length
    is the sum of the chunk lengths and the slice at every chunk offset equals that chunk.
    """

    def __init__(self, I: Interp, n: Any, width: int | None, elem: Callable[[Any], Any],
                 name: str = "chunks"):
        self.n = n
        self.width = width
        self.elem = elem
        self.seq = z3.Const(I.fresh_name(name), IntSeq)
        seq = self.seq
        if width is not None:
            I.assume(z3.Length(seq) == width * n)
            self.off = lambda j: width * j
            I.lambda_axioms_add(lambda j: z3.Implies(
                z3.And(j >= 0, j < n),
                z3.SubSeq(seq, width * j, z3.IntVal(width)) == elem(j)))
        else:
            off = z3.Function(I.fresh_name(name + "_off"), z3.IntSort(), z3.IntSort())
            self.off = off
            I.assume(off(0) == 0)
            I.assume(z3.Length(seq) == off(n))
            I.note_index(n)
            I.lambda_axioms_add(lambda j: z3.Implies(
                z3.And(j >= 0, j < n),
                z3.And(off(j + 1) == off(j) + z3.Length(elem(j)), off(j) >= 0,
                       z3.SubSeq(seq, off(j), z3.Length(elem(j))) == elem(j))))
            I.lambda_axioms_add(lambda j: z3.Implies(z3.And(j >= 0, j <= n),
                                                     z3.And(off(j) >= 0, off(j) <= off(n))))
        from . import models
        models.set_known_len(seq, width * n if width is not None else self.off(n))
        I.assume(z3.Implies(n == 0, seq == z3.Empty(IntSeq)))
        I.assume(z3.Implies(n == 1, seq == elem(z3.IntVal(0))))
        I.ghost.setdefault("chunks", {})[seq.decl().name()] = self


_PROBE = z3.Int("chunk!probe")


def get_chunks(I: Interp, n: Any, width: int | None, elem: Callable[[Any], Any],
               name: str = "chunks") -> "Chunks":
    """Chunks(n, width, elem), shared between evaluations of the same fold (same count, same
    element function) so that re-evaluating a property yields the identical term."""
    try:
        key = (simp(n).get_id() if z3.is_expr(n) else n, width, simp(elem(_PROBE)).get_id())
    except Exception:  # noqa: BLE001
        return Chunks(I, n, width, elem, name)
    cache = I.ghost.setdefault("chunk_cache", {})
    hit = cache.get(key)
    if hit is not None:
        return hit[0]
    c = Chunks(I, n, width, elem, name)
    cache[key] = (c, simp(n) if z3.is_expr(n) else n, simp(elem(_PROBE)))
    return c


# --------------------------------------------------------------------------- state cloning
def clone(v: Any, memo: dict[int, Any]) -> Any:
    if isinstance(v, (VInt, VBool, VBytes, VStr, VConst, VFloat)) or v is NONE:
        return v
    k = id(v)
    if k in memo:
        return memo[k]
    if isinstance(v, VTuple):
        r: Any = VTuple([clone(x, memo) for x in v.items])
    elif isinstance(v, VList):
        r = VList(None, v.n, v.get, v.kind)
        memo[k] = r
        r.items = [clone(x, memo) for x in v.items] if v.items is not None else None
        return r
    elif isinstance(v, VDict):
        r = VDict()
        memo[k] = r
        r.items = [(clone(a, memo), clone(b, memo)) for a, b in v.items]
        return r
    elif isinstance(v, VObj):
        r = VObj(v.cls, None, v.lazy, v.tag, v.ann)
        memo[k] = r
        r.fields = {n: clone(x, memo) for n, x in v.fields.items()}
        return r
    elif isinstance(v, VBound):
        r = VBound(v.func, clone(v.recv, memo), v.owner)
    elif isinstance(v, VSuper):
        r = VSuper(v.owner, clone(v.recv, memo))
    else:
        r = v
    memo[k] = r
    return r


def subst(v: Any, pairs: list[tuple[Any, Any]]) -> Any:
    """Substitute z3 constants inside a value."""
    if isinstance(v, VInt):
        return VInt(z3.substitute(v.t, *pairs), v.enum)
    if isinstance(v, VBool):
        return VBool(z3.substitute(v.t, *pairs))
    if isinstance(v, VBytes):
        return VBytes(z3.substitute(v.t, *pairs), v.mutable)
    if isinstance(v, VFloat):
        return VFloat(z3.substitute(v.t, *pairs))
    if isinstance(v, VTuple):
        return VTuple([subst(x, pairs) for x in v.items])
    if isinstance(v, VList) and v.items is not None:
        return VList([subst(x, pairs) for x in v.items], kind=v.kind)
    if isinstance(v, VObj):
        return VObj(v.cls, {k: subst(x, pairs) for k, x in v.fields.items()}, v.lazy, v.tag,
                    v.ann)
    if isinstance(v, (VStr, VConst)) or v is NONE:
        return v
    raise Unsupported(f"substitution in {v!r}")


def spawn(I: Interp, prefix: list[int]) -> tuple[Interp, dict[int, Any]]:
    """Child interpreter starting from a snapshot of the parent's state."""
    child = Interp(I.ex, prefix)
    child.pc = list(I.pc)
    child.pc_ids = set(I.pc_ids)
    child.solver_assertions = list(I.solver_assertions)
    child.pure_assertions = list(I.pure())
    child._pure_upto = len(child.solver_assertions)
    child.lambda_axioms = list(I.lambda_axioms)
    child.index_terms = list(I.index_terms)
    child.inputs = I.inputs
    child.fresh_no = I.fresh_no
    child.path_id = I.path_id
    memo: dict[int, Any] = {}
    child.ghost = clone_ghost(I.ghost, memo)
    for fr in I.frames:
        nf = Frame(fr.fn, fr.owner)
        nf.env = {k: clone(v, memo) for k, v in fr.env.items()}
        nf.loop_no = fr.loop_no
        nf.cur_exc = [clone(e, memo) for e in fr.cur_exc]
        child.frames.append(nf)
    return child, memo


def clone_ghost(g: dict[str, Any], memo: dict[int, Any]) -> dict[str, Any]:
    out: dict[str, Any] = {}
    for k, v in g.items():
        if isinstance(v, V):
            out[k] = clone(v, memo)
        elif isinstance(v, list):
            out[k] = list(v)
        elif isinstance(v, dict):
            out[k] = dict(v)
        elif isinstance(v, set):
            out[k] = set(v)
        else:
            out[k] = v
    return out


class BodyPath:
    def __init__(self, kind: str, delta: list[Any], interp: Interp, memo: dict[int, Any],
                 exc: VObj | None = None, value: V | None = None):
        self.kind = kind  # normal | raise | break | return
        self.delta = delta
        self.interp = interp
        self.memo = memo
        self.exc = exc
        self.value = value


def explore_body(I: Interp, run: Callable[[Interp, Frame], None]) -> list[BodyPath]:
    """All paths of one generic iteration, each from a snapshot of the current state."""
    out: list[BodyPath] = []
    stack: list[list[int]] = [[]]
    max_fresh = I.fresh_no
    n0 = len(I.pc)
    while stack:
        prefix = stack.pop()
        child, memo = spawn(I, prefix)
        fr = child.frames[-1]
        try:
            try:
                run(child, fr)
                out.append(BodyPath("normal", child.pc[n0:], child, memo))
            except _Continue:
                out.append(BodyPath("normal", child.pc[n0:], child, memo))
            except _Break:
                out.append(BodyPath("break", child.pc[n0:], child, memo))
            except _Return as r:
                out.append(BodyPath("return", child.pc[n0:], child, memo, value=r.value))
            except PyExc as pe:
                out.append(BodyPath("raise", child.pc[n0:], child, memo, exc=pe.exc))
        except PathAbort:
            pass
        max_fresh = max(max_fresh, child.fresh_no)
        stack.extend(child.alternatives)
        if len(out) > 64:
            raise Unsupported("too many paths through a loop body")
    I.fresh_no = max_fresh + 1
    return out


# --------------------------------------------------------------------------- for loops
_ORD: dict[int, dict[int, int]] = {}


def loop_key(fr: Frame, st: Any = None) -> tuple[str, int]:
    """(qualname, ordinal of the loop in source order) - stable under unrolling."""
    from .engine import function_ast
    node, _ = function_ast(fr.fn)
    m = _ORD.get(id(node))
    if m is None:
        m = {}

        class Vis(ast.NodeVisitor):
            def generic_visit(self, n: ast.AST) -> None:
                if isinstance(n, (ast.For, ast.AsyncFor, ast.While)):
                    m[id(n)] = len(m)
                super().generic_visit(n)
        Vis().visit(node)
        _ORD[id(node)] = m
    return (fr.qualname, m.get(id(st), -1))


def for_loop(I: Interp, st: Any, fr: Frame) -> None:
    key = loop_key(fr, st)
    it = I.eval(st.iter, fr)
    from .values import VSymMap
    if isinstance(it, VSymMap):
        it = it.keys_list()
    lc = I.ex.loop_contracts.get(key)
    if lc is not None:
        return invariant_for(I, st, fr, it, lc, key)
    seq: VList | None = None
    if isinstance(it, VList) and it.items is None:
        n = simp(it.n)
        if not z3.is_int_value(n) and I.concrete_value(n) is None and \
                not I.entails(z3.And(n >= 0, n <= 4)):
            seq = it
    if seq is None:
        items = I.iterate(it)
        for x in items:
            I.assign(st.target, x, fr)
            try:
                I.exec_block(st.body, fr)
            except _Break:
                return
            except _Continue:
                continue
        I.exec_block(st.orelse, fr)
        return
    template_for(I, st, fr, seq)
    I.exec_block(st.orelse, fr)


def carried_names(body: list[ast.stmt]) -> list[str]:
    names: list[str] = []
    for st in body:
        for n in ast.walk(st):
            if isinstance(n, ast.Name) and isinstance(n.ctx, ast.Store) and n.id not in names:
                names.append(n.id)
    return names


def template_for(I: Interp, st: Any, fr: Frame, seq: VList) -> None:
    """Summarise `for target in seq: body` for a sequence of symbolic length n.

    The body is executed once for a generic index j from a snapshot in which every loop-carried
    local is replaced by a placeholder.  Supported effects of the (unique) normal path:
      * none (check loops),
      * `L.append(e(j))` on lists            ->  L' = L ++ [e(0) … e(n-1)]   (map)
      * `acc = acc + g(j)` on byte strings   ->  acc' = acc ++ g(0) ++ … ++ g(n-1)   (Chunks)
      * `m = max(m, c(j))` on ints           ->  m' = max(m, c(0), …, c(n-1))
      * `k = k + d` with constant d          ->  k' = k + d*n
    Raising paths become `exists j. cond(j)` forks.  `break`/`return` in the body are refused.
    """
    if I.template_index is not None:
        raise Unsupported("nested loops over sequences of symbolic length")
    n = seq.n
    j = z3.Int(I.fresh_name("j"))
    tnames = [x.id for x in ast.walk(st.target) if isinstance(x, ast.Name)]
    carried = [x for x in carried_names(st.body) if x in fr.env and x not in tnames]
    # placeholders for carried variables
    place: dict[str, tuple[Any, V]] = {}
    for name in carried:
        old = fr.env[name]
        if isinstance(old, VBytes):
            ph = z3.Const(I.fresh_name("acc_" + name), IntSeq)
            place[name] = (ph, old)
        elif isinstance(old, VInt):
            ph = z3.Int(I.fresh_name("acc_" + name))
            place[name] = (ph, old)
        elif isinstance(old, VBool):
            ph = z3.Bool(I.fresh_name("acc_" + name))
            place[name] = (ph, old)
        # lists and objects are tracked through the clone memo instead
    lists_before: dict[int, tuple[VList, int | None, Any]] = {}

    def scan(v: Any, seen: set[int]) -> None:
        if id(v) in seen:
            return
        seen.add(id(v))
        if isinstance(v, VList):
            lists_before[id(v)] = (v, len(v.items) if v.items is not None else None, v.n)
            for x in (v.items or []):
                scan(x, seen)
        elif isinstance(v, VObj):
            for x in v.fields.values():
                scan(x, seen)
        elif isinstance(v, VTuple):
            for x in v.items:
                scan(x, seen)
    seen: set[int] = set()
    for f in I.frames:
        for x in f.env.values():
            scan(x, seen)
    for x in I.ghost.values():  # ghost logs (sequences appended to by contracts)
        if isinstance(x, V):
            scan(x, seen)

    def run(child: Interp, cfr: Frame) -> None:
        child.assume(z3.And(j >= 0, j < n))
        child.note_index(j)
        child.template_index = j
        for name, (ph, old) in place.items():
            cfr.env[name] = type(old)(ph) if not isinstance(old, VInt) else VInt(ph, old.enum)
            if isinstance(old, VBytes):
                pass
        child.assign(st.target, seq.at(j), cfr)
        child.exec_block(st.body, cfr)

    n_ax0 = len(I.lambda_axioms)
    paths = explore_body(I, run)
    normal = [p for p in paths if p.kind == "normal"]
    raising = [p for p in paths if p.kind == "raise"]
    returning = [p for p in paths if p.kind == "return"]
    if any(p.kind == "break" for p in paths):
        raise Unsupported(f"break in a loop over a symbolic-length sequence "
                          f"({fr.qualname}); needs a sidecar invariant")
    if returning:
        # search loop (`for x in xs: if P(x): return v(x)`): allowed when the body has no other
        # effect - no loop-carried local and no list/object mutated on the normal path
        def mutated(p: BodyPath) -> bool:
            for v, len0, n0 in lists_before.values():
                c = p.memo.get(id(v))
                if c is None or not isinstance(c, VList):
                    continue
                if (c.items is not None and len0 is not None and len(c.items) != len0) or \
                        (c.items is None) != (len0 is None) or \
                        (c.items is None and c.n is not n0):
                    return True
            return False
        if place or len(normal) != 1 or any(mutated(p) for p in normal + returning):
            raise Unsupported(f"return in a loop with loop-carried state ({fr.qualname}); needs "
                              f"a sidecar invariant")
    if len(normal) > 1:
        raise Unsupported(f"more than one normal path through a templated loop body "
                          f"({fr.qualname})")

    def delta_at(p: BodyPath, k: Any) -> Any:
        fs = [z3.substitute(f, (j, k)) for f in p.delta]
        return z3.And(*fs) if fs else z3.BoolVal(True)

    # fork: some iteration raises (first listed raising path wins the tie) or none does
    alts: list[Any] = []
    sks: list[Any] = []
    for p in raising:
        sk = z3.Int(I.fresh_name("jr"))
        sks.append(sk)
        alts.append(z3.And(sk >= 0, sk < n, delta_at(p, sk)))
    for p in returning:
        # the *first* iteration that returns: every earlier one takes the normal path
        sk = z3.Int(I.fresh_name("jr"))
        sks.append(sk)
        alts.append(z3.And(sk >= 0, sk < n, delta_at(p, sk)))
    if normal:
        alts.append(z3.BoolVal(True))
    if not alts:
        raise PathAbort()
    for sk in sks:
        I.note_index(sk)
    d = I.choose(alts) if len(alts) > 1 else 0
    if len(alts) == 1:
        I.assume(alts[0])
    if d < len(raising):
        p = raising[d]
        pairs = [(j, sks[d])]
        # placeholders stand for the state before that iteration: unconstrained (sound)
        raise PyExc(subst(p.exc, pairs))
    if d < len(raising) + len(returning):
        p = returning[d - len(raising)]
        sk = sks[d]
        nrm = normal[0] if normal else None
        if nrm is not None:
            I.lambda_axioms_add(lambda k, nrm=nrm, sk=sk: z3.Implies(
                z3.And(k >= 0, k < sk), delta_at(nrm, k)))
        raise _Return(subst(p.value, [(j, sk)]) if p.value is not None else NONE)
    p = normal[0]
    # every iteration takes the normal path
    I.lambda_axioms_add(lambda k, p=p: z3.Implies(z3.And(k >= 0, k < n), delta_at(p, k)))
    _adopt_child_axioms(I, p.interp, n_ax0, j)
    cfr = p.interp.frames[-1]
    # 1. carried scalars / byte strings
    for name, (ph, old) in place.items():
        new = cfr.env.get(name)
        if new is None:
            raise Unsupported("carried variable deleted in loop body")
        if isinstance(old, VBytes):
            assert isinstance(new, VBytes)
            rest = strip_prefix(new.t, ph)
            if rest is None:
                if new.t.eq(ph):
                    continue
                raise Unsupported(f"loop-carried bytes '{name}' not of the form acc + g(j) "
                                  f"in {fr.qualname}")
            if contains_const(rest, ph):
                raise Unsupported("accumulator used inside its own increment")
            from . import models
            w = models.seq_len(rest)
            width = w.as_long() if z3.is_int_value(w) else None
            ch = get_chunks(I, n, width, lambda k, rest=rest: z3.substitute(rest, (j, k)),
                            "fold_" + name)
            fr.env[name] = VBytes(z3.Concat(old.t, ch.seq), old.mutable)
        elif isinstance(old, VInt):
            assert isinstance(new, VInt)
            t = simp(new.t)
            if t.eq(ph):
                continue
            mx = match_max(t, ph)
            if mx is not None:
                c = mx
                out = z3.Int(I.fresh_name("max_" + name))
                sk = z3.Int(I.fresh_name("max_sk"))
                I.note_index(sk)
                I.assume(out >= old.t)
                I.lambda_axioms_add(lambda k, c=c, out=out: z3.Implies(
                    z3.And(k >= 0, k < n), out >= z3.substitute(c, (j, k))))
                I.assume(z3.Or(out == old.t, z3.And(sk >= 0, sk < n,
                                                    out == z3.substitute(c, (j, sk)))))
                fr.env[name] = VInt(out)
                continue
            d_ = simp(t - ph)
            if z3.is_int_value(d_):
                fr.env[name] = VInt(old.t + d_.as_long() * n)
                continue
            raise Unsupported(f"loop-carried int '{name}' with unsupported update in "
                              f"{fr.qualname}: {t}")
        else:
            assert isinstance(new, VBool) and isinstance(old, VBool)
            if not simp(new.t).eq(ph):
                raise Unsupported("loop-carried bool update")
    # 2. locals first assigned in the body stay bound to the last iteration's value: refuse use
    for name in carried_names(st.body) + tnames:
        if name not in place and not isinstance(fr.env.get(name), (VList, VObj, VDict)):
            fr.env.pop(name, None)
            fr.poison.add(name)  # value of the last iteration: any later read is refused
    # 3. list appends
    for oid, (lst, n_items, n_sym) in lists_before.items():
        cl = p.memo.get(oid)
        if cl is None:
            continue
        if n_items is not None:
            if cl.items is None:
                raise Unsupported("list changed representation in loop body")
            if len(cl.items) == n_items:
                if any(a is not b and not _same(a, b) for a, b in zip(cl.items, lst.items)):
                    pass
                continue
            added = cl.items[n_items:]
            k_ = len(added)
            old_items = list(lst.items)
            m = len(old_items)

            def get(i: Any, added=added, k_=k_, old_items=old_items, m=m) -> V:
                ic = simp(i) if z3.is_expr(i) else z3.IntVal(i)
                if z3.is_int_value(ic) and ic.as_long() < m:
                    return old_items[ic.as_long()]
                if k_ == 1:
                    return subst(added[0], [(j, simp(ic - m))])
                raise Unsupported("several appends per iteration to one list")
            if m != 0 and k_ != 1:
                raise Unsupported("several appends per iteration")
            if m != 0:
                raise Unsupported("append to a non-empty list in a templated loop")
            lst.items = None
            lst.n = simp(n * k_) if k_ == 1 else None
            if k_ != 1:
                raise Unsupported("several appends per iteration to one list")
            lst.get = get
        else:
            if cl.n is not None and not simp(cl.n - n_sym).eq(z3.IntVal(0)):
                raise Unsupported("append to a functional list in a templated loop")


def _adopt_child_axioms(I: Interp, child: Interp, n_ax0: int, j: Any) -> None:
    """Lambda axioms created inside the generic iteration (they mention j) hold for every
    iteration: instantiate them over (iteration index, element index) pairs of terms in use."""
    for ax in child.lambda_axioms[n_ax0:]:
        def gen(k: Any, ax: Any = ax) -> Any:
            fs = [z3.substitute(ax(i), (j, k)) for i in I.index_terms]
            return z3.And(*fs) if fs else z3.BoolVal(True)
        I.lambda_axioms_add(gen)


def _same(a: Any, b: Any) -> bool:
    return a is b


def strip_prefix(t: Any, ph: Any) -> Any | None:
    """t == Concat(ph, rest…)  ->  rest."""
    t = flatten_concat(t)
    if t and t[0].eq(ph) and len(t) > 1:
        rest = t[1:]
        return rest[0] if len(rest) == 1 else z3.Concat(*rest)
    return None


def flatten_concat(t: Any) -> list[Any]:
    if z3.is_app(t) and t.decl().kind() == z3.Z3_OP_SEQ_CONCAT:
        out: list[Any] = []
        for c in t.children():
            out.extend(flatten_concat(c))
        return out
    return [t]


def contains_const(t: Any, c: Any) -> bool:
    if t.eq(c):
        return True
    return any(contains_const(x, c) for x in t.children())


def match_max(t: Any, ph: Any) -> Any | None:
    """t == If(a > b, a, b) / If(b > a, b, a) … with ph one of the operands -> the other."""
    if z3.is_app(t) and t.decl().kind() == z3.Z3_OP_ITE:
        c, x, y = t.children()
        if x.eq(ph) and not contains_const(y, ph):
            other = y
            want = [ph > other, z3.Not(ph <= other), other < ph, z3.Not(other >= ph),
                    ph >= other, z3.Not(ph < other), other <= ph, z3.Not(other > ph)]
        elif y.eq(ph) and not contains_const(x, ph):
            other = x
            want = [other > ph, z3.Not(other <= ph), ph < other, z3.Not(ph >= other),
                    other >= ph, z3.Not(other < ph), ph <= other, z3.Not(ph > other)]
        else:
            return None
        s = z3.Solver()
        s.set("timeout", 2000)
        s.add(z3.Not(t == z3.If(ph > other, ph, other)))
        if s.check() == z3.unsat:
            return other
    return None


# --------------------------------------------------------------------------- invariants
class LoopContract:
    """Sidecar loop contract.

    havoc(I, fr)            -> replace every loop-modified variable/field by a fresh symbol
    invariant(I, fr)        -> list of (name, z3 Bool) over the current state
    variant(I, fr)          -> z3 Int (optional): must decrease and stay >= 0
    """

    def __init__(self, havoc: Callable, invariant: Callable, variant: Callable | None = None,
                 progress: Callable | None = None):
        self.havoc = havoc
        self.invariant = invariant
        self.variant = variant
        # progress(I, fr, None) -> snapshot at the loop head; progress(I, fr, snapshot) ->
        # z3 Bool stating that a well-founded (e.g. lexicographic) measure went down
        self.progress = progress


def _check_inv(I: Interp, lc: LoopContract, fr: Frame, key: tuple[str, int], phase: str) -> None:
    I.ghost["__loop_phase"] = phase
    for name, f in lc.invariant(I, fr):
        I.prove(f"{key[0]}/loop{key[1]}/inv:{name}/{phase}", f)


def list_accumulator(fr: Frame) -> str:
    """Name of the local that is initialised with `[]` and appended to inside a loop of the
    function being executed (contracts refer to it by role, not by the name the code uses)."""
    from .engine import function_ast
    node, _ = function_ast(fr.fn)
    inits = {t.id for st in ast.walk(node) if isinstance(st, (ast.Assign, ast.AnnAssign))
             and isinstance(st.value, ast.List) and not st.value.elts
             for t in ([st.target] if isinstance(st, ast.AnnAssign) else st.targets)
             if isinstance(t, ast.Name)}
    used = {c.func.value.id for lp in ast.walk(node) if isinstance(lp, (ast.While, ast.For))
            for c in ast.walk(lp) if isinstance(c, ast.Call) and isinstance(c.func, ast.Attribute)
            and c.func.attr == "append" and isinstance(c.func.value, ast.Name)}
    cands = sorted(inits & used)
    if len(cands) != 1:
        raise Unsupported(f"no unique list accumulator in {fr.qualname}: {cands}")
    return cands[0]


def assigned_names(st: Any) -> set[str]:
    """Names (re)bound somewhere in the body of a loop statement (incl. the loop target)."""
    out: set[str] = set()
    for n in ast.walk(st):
        if isinstance(n, ast.Name) and isinstance(n.ctx, (ast.Store, ast.Del)):
            out.add(n.id)
        elif isinstance(n, ast.ExceptHandler) and n.name:
            out.add(n.name)
    return out


def _havoc_with(I: Interp, lc: LoopContract, fr: Frame, st: Any) -> None:
    """The contract's havoc, then the rest of the Hoare rule: a local that is bound before the
    loop, re-bound somewhere in its body and *not* replaced by the contract's havoc is
    loop-carried state the contract does not know about (e.g. a flag added later) - after an
    arbitrary number of iterations it holds an arbitrary value of its kind."""
    names = assigned_names(st)
    before = {n: fr.env.get(n) for n in names if n in fr.env}
    lc.havoc(I, fr)
    for n, v in before.items():
        if n.startswith("__") or fr.env.get(n) is not v or n in fr.poison:
            continue
        if isinstance(v, VBool):
            fr.env[n] = I.fresh_bool(n + "_carried")
        elif isinstance(v, VInt):
            fr.env[n] = VInt(I.fresh_int(n + "_carried").t, v.enum)
        elif v is NONE or isinstance(v, (VFloat, VBytes)):
            fr.env.pop(n, None)
            fr.poison.add(n)
        # containers / objects keep their identity: contracts speak about them explicitly


def while_loop(I: Interp, st: ast.While, fr: Frame) -> None:
    key = loop_key(fr, st)
    lc = I.ex.loop_contracts.get(key)
    if lc is None:
        # no contract: only loops whose trip count is concrete under the path condition
        for _ in range(512):
            if not I.branch(I.eval(st.test, fr)):
                I.exec_block(st.orelse, fr)
                return
            try:
                I.exec_block(st.body, fr)
            except _Break:
                return
            except _Continue:
                continue
        raise Unsupported(f"while loop without invariant in {fr.qualname} does not terminate "
                          f"within 512 concrete iterations")
    _check_inv(I, lc, fr, key, "init")
    I.ghost["__loop_assigned"] = assigned_names(st)
    _havoc_with(I, lc, fr, st)
    I.ghost["__loop_phase"] = "assume"
    for name, f in lc.invariant(I, fr):
        I.assume(f)
    v0 = lc.variant(I, fr) if lc.variant else None
    snap = lc.progress(I, fr, None) if lc.progress else None
    if I.branch(I.eval(st.test, fr)):
        try:
            I.exec_block(st.body, fr)
        except _Break:
            return
        except _Continue:
            pass
        _check_inv(I, lc, fr, key, "preserved")
        if v0 is not None:
            v1 = lc.variant(I, fr)
            I.prove(f"{key[0]}/loop{key[1]}/variant-decreases", z3.And(v1 < v0, v0 >= 0))
        if lc.progress:
            I.prove(f"{key[0]}/loop{key[1]}/measure-decreases", lc.progress(I, fr, snap))
        raise PathAbort()
    on_exit = getattr(lc, "on_exit", None)
    if on_exit is not None:
        # obligations about the state in which the loop is *left* (invariant and negated guard)
        for name, f in on_exit(I, fr):
            I.prove(f"{key[0]}/loop{key[1]}/exit:{name}", f)
    I.exec_block(st.orelse, fr)


def _range_step(seq: VList) -> int | None:
    # a range, or a concrete list of ints in arithmetic progression (`list(range(1, 0x80))`)
    if seq.kind not in ("range", "list") or not seq.items or len(seq.items) < 2:
        return None
    if not all(isinstance(x, VInt) for x in seq.items):
        return None
    vals = [x.concrete() if isinstance(x, VInt) else None for x in seq.items]
    if any(v is None for v in vals):
        return None
    step = vals[1] - vals[0]
    return step if all(b - a == step for a, b in zip(vals, vals[1:])) else None


def invariant_for(I: Interp, st: Any, fr: Frame, it: V, lc: LoopContract,
                  key: tuple[str, int]) -> None:
    """`for x in seq` with a sidecar invariant over the hidden position `__k` (ghost local)."""
    if isinstance(it, VList):
        seq = it
    else:
        seq = VList(I.iterate(it))
    n = seq.length()
    hook = I.ghost.get("__iter_hook")
    if hook is not None:
        hook(key, it)  # contracts may state *which* sequence a loop walks
    kname = f"__k{key[1]}"
    fr.env[kname] = VInt(0)
    I.ghost["__loop_len"] = n  # number of elements the loop is going to visit
    _check_inv(I, lc, fr, key, "init")
    I.ghost["__loop_assigned"] = assigned_names(st)
    _havoc_with(I, lc, fr, st)
    k = I.fresh_int("k")
    fr.env[kname] = k
    I.assume(z3.And(k.t >= 0, k.t <= n))
    I.ghost["__loop_phase"] = "assume"
    for name, f in lc.invariant(I, fr):
        I.assume(f)
    if I.branch(k.t < n):
        rng_step = _range_step(seq)
        if rng_step is not None:
            # a concrete range: the k-th element is start + k*step, no case split needed
            x = VInt(seq.items[0].t + k.t * rng_step)  # type: ignore[index]
        elif seq.items is not None:
            idx = I.choose([k.t == q for q in range(len(seq.items))])
            x = seq.items[idx]
        else:
            I.note_index(k.t)
            x = seq.at(k.t)
        I.assign(st.target, x, fr)
        try:
            I.exec_block(st.body, fr)
        except _Break:
            fr.env.pop(kname, None)
            return
        except _Continue:
            pass
        fr.env[kname] = VInt(k.t + 1)
        _check_inv(I, lc, fr, key, "preserved")
        raise PathAbort()
    fr.env.pop(kname, None)
    I.exec_block(st.orelse, fr)


# --------------------------------------------------------------------------- comprehensions
def comprehension(I: Interp, e: Any, fr: Frame, kind: str) -> V:
    gens = e.generators
    if len(gens) == 1 and not gens[0].ifs and kind in ("list", "gen"):
        src = I.eval(gens[0].iter, fr)
        from .values import VSymMap
        if isinstance(src, VSymMap):
            src = src.keys_list()
        if isinstance(src, VList) and src.items is None and \
                not z3.is_int_value(simp(src.n)):
            return functional_map(I, e, fr, src, gens[0])
        return concrete_comp(I, e, fr, kind, [src])
    return concrete_comp(I, e, fr, kind, None)


def functional_map(I: Interp, e: Any, fr: Frame, src: VList, gen: Any) -> V:
    """[elt for target in seq] over a symbolic-length sequence as a functional list.
    The element expression must be total (no raising path) and pure; this is checked on a
    generic index."""
    if I.template_index is not None:
        raise Unsupported("nested comprehension over a sequence of symbolic length")
    j = z3.Int(I.fresh_name("cj"))
    n = src.n

    def run(child: Interp, cfr: Frame) -> None:
        child.assume(z3.And(j >= 0, j < n))
        child.note_index(j)
        child.template_index = j
        child.assign(gen.target, src.at(j), cfr)
        cfr.env["__elt"] = child.eval(e.elt, cfr)

    paths = explore_body(I, run)
    normal = [p for p in paths if p.kind == "normal"]
    raising = [p for p in paths if p.kind == "raise"]
    if not normal and raising:
        # the element expression raises for every element (e.g. a type error): the
        # comprehension raises at its first element if there is one, and is empty otherwise
        if I.branch(n > 0):
            zero = z3.IntVal(0)
            conds = [z3.And(*[z3.substitute(f, (j, zero)) for f in p.delta]) if p.delta
                     else z3.BoolVal(True) for p in raising]
            d0 = I.choose(conds) if len(conds) > 1 else 0
            if len(conds) == 1:
                I.assume(conds[0])
            raise PyExc(subst(raising[d0].exc, [(j, zero)]))
        return VList([])
    if len(normal) != 1:
        raise Unsupported("comprehension element with several/no normal paths")
    alts = []
    sks = []
    for p in raising:
        sk = z3.Int(I.fresh_name("cjr"))
        sks.append(sk)
        fs = [z3.substitute(f, (j, sk)) for f in p.delta]
        alts.append(z3.And(sk >= 0, sk < n, *fs))
        I.note_index(sk)
    if alts:
        alts.append(z3.BoolVal(True))
        d = I.choose(alts)
        if d < len(raising):
            raise PyExc(subst(raising[d].exc, [(j, sks[d])]))
    p = normal[0]
    fs0 = p.delta
    I.lambda_axioms_add(lambda k: z3.Implies(
        z3.And(k >= 0, k < n),
        z3.And(*[z3.substitute(f, (j, k)) for f in fs0]) if fs0 else z3.BoolVal(True)))
    elt = p.interp.frames[-1].env["__elt"]
    return VList(None, n, lambda k: subst(elt, [(j, k if z3.is_expr(k) else z3.IntVal(k))]))


def concrete_comp(I: Interp, e: Any, fr: Frame, kind: str, first: list[V] | None) -> V:
    from . import models
    out_list: list[V] = []
    out_dict = VDict()
    saved = dict(fr.env)

    def rec(gi: int) -> None:
        if gi == len(e.generators):
            if kind == "dict":
                models.dict_set(I, out_dict, I.eval(e.key, fr), I.eval(e.value, fr))
            elif kind == "set":
                models.set_add(I, _setv, I.eval(e.elt, fr))
            else:
                out_list.append(I.eval(e.elt, fr))
            return
        g = e.generators[gi]
        src = first[0] if (gi == 0 and first) else I.eval(g.iter, fr)
        for x in I.iterate(src):
            I.assign(g.target, x, fr)
            if all(I.branch(I.eval(c, fr)) for c in g.ifs):
                rec(gi + 1)

    _setv = VList([], kind="set")
    rec(0)
    # comprehension variables do not leak
    for k in list(fr.env):
        if k not in saved:
            del fr.env[k]
    for k, v in saved.items():
        fr.env[k] = v
    if kind == "dict":
        return out_dict
    if kind == "set":
        return _setv
    return VList(out_list)
