"""CPython cross-check of the engine (thorough tier): the same real function is run natively and
by the symbolic executor on *concrete* arguments; results (returned bytes / class / exception
class) must agree.  A disagreement is a checker error (exit 3) - the engine, not the repository,
is wrong - and the property's verdicts of that run are not to be believed.

The units built here carry obligations named X-engine-agrees-with-CPython(...): an obligation that
fails is reported by the unit as `Unsupported` (=> CHECKER-ERROR), never as a violation.
"""
from __future__ import annotations

import random
from typing import Any, Callable

import z3

from .engine import Explorer, Interp, PyExc
from .values import NONE, Unsupported, V, VBytes, VObj, wrap


def _describe(v: Any) -> str:
    if isinstance(v, bytes):
        return "bytes:" + v.hex()
    return repr(v)


def _entailed(I: Interp, f: Any) -> bool:
    """A result that went through an abstracting callee contract (uninterpreted widths) is a set
    of values: CPython's result must be one of them (consistency; entailment where the solver
    can show it)."""
    s = z3.Solver()
    s.set("timeout", 20000)
    for p in I.pc:
        s.add(p)
    for a in I.instantiated_axioms():
        s.add(a)
    s.add(f)
    return s.check() != z3.unsat


def run_both(I: Interp, fn: Any, args: list[Any], post: Callable[[Any], Any],
             vpost: Callable[[Interp, V], Any]) -> tuple[str, str]:
    """Returns (native outcome, engine outcome) as comparable strings."""
    nat_val: Any = None
    try:
        nat_val = post(fn(*args))
        nat = "ok:" + _describe(nat_val)
    except Exception as e:  # noqa: BLE001
        nat = "raise:" + type(e).__name__
    ex = Explorer("crosscheck", max_paths=64)
    ex.contracts = dict(I.ex.contracts)
    ex.stubs = dict(I.ex.stubs)
    outs: list[str] = []

    def harness(I2: Interp) -> None:
        try:
            r = I2.call(fn, *[wrap(a) for a in args])
            got = vpost(I2, r)
            # a result that went through a callee *contract* is a term, not a literal: it has to
            # be entailed equal to what CPython computed
            def lit(x: Any, want: Any) -> Any:
                if isinstance(x, VBytes):
                    c = x.concrete()
                    if c is None and isinstance(want, bytes):
                        from . import models
                        from .values import bytes_const
                        return want if _entailed(I2, models.bytes_eq(
                            I2, x.t, bytes_const(want))) else "<CPython result excluded by the engine term>"
                    return c
                return x
            if isinstance(got, tuple):
                want_t = nat_val if isinstance(nat_val, tuple) else (None,) * len(got)
                got = tuple(lit(g, w) for g, w in zip(got, want_t))
            else:
                got = lit(got, nat_val)
            outs.append("ok:" + _describe(got))
        except PyExc as e:
            outs.append("raise:" + e.exc.cls.__name__)
    ex.run(harness)
    # feasibility is over-approximated (uninterpreted width functions): concrete arguments may
    # leave more than one path; CPython's outcome has to be one of them
    if nat in outs:
        return nat, nat
    if len(set(outs)) != 1:
        return nat, f"{len(outs)} paths for concrete arguments, none with CPython's outcome: " \
                    f"{sorted(set(outs))[:3]}"
    return nat, outs[0]


def codec_unit(kind: str, service_module: Callable[[], Any], classes: Callable[[], dict],
               param_alternatives: Callable[[type], list], random_arg: Callable[..., Any],
               n_cases: int, seed: int, setup: Callable[[Explorer], None] | None = None):
    """kind = 'encode-requests' | 'encode-responses' | 'parse-requests' | 'parse-responses'."""
    def harness(I: Interp) -> None:
        if setup:
            setup(I.ex)
        S = service_module()
        rnd = random.Random(seed * 1009 + hash(kind) % 997)
        n = 0
        agree = 0
        skipped = 0
        first_bad = ""
        cls_items = sorted(classes().items())
        while n < n_cases:
            n += 1
            try:
                if kind.startswith("encode"):
                    cname, cls = rnd.choice(cls_items)
                    params = param_alternatives(cls)
                    pyargs = [random_arg(rnd, rnd.choice(kinds)) for _, kinds, _ in params]

                    def build(*a: Any, cls: type = cls) -> Any:
                        return cls(*a)
                    nat, eng = run_both(
                        I, cls, pyargs, lambda o: o.pdu,
                        lambda I2, r: I2.getattr_v(r, "pdu"))
                    what = f"{cname}{tuple(pyargs)!r}.pdu"
                else:
                    base = S.UDSRequest if kind == "parse-requests" else S.UDSResponse
                    ln = rnd.choice([1, 2, 3, 3, 4, 5, 6, 8, 11])
                    raw = bytes(rnd.randrange(256) for _ in range(ln))
                    if rnd.random() < 0.7:
                        sids = sorted(int(k) for k in S.UDSService._SERVICES if k is not None)
                        sid = rnd.choice(sids) + (0x40 if kind == "parse-responses" else 0)
                        raw = bytes([sid]) + raw[1:]
                    fn = base.parse_dynamic
                    nat, eng = run_both(
                        I, fn, [raw], lambda o: (type(o).__name__, o.pdu),
                        lambda I2, r: (r.cls.__name__, I2.getattr_v(r, "pdu"))
                        if isinstance(r, VObj) else repr(r))
                    what = f"{base.__name__}.parse_dynamic({raw.hex()})"
            except Unsupported:
                skipped += 1
                continue
            if nat == eng:
                agree += 1
            elif not first_bad:
                first_bad = f"{what}: CPython {nat}, engine {eng}"
        I.ex.extra.update({"evaluations": n, "distinct_nontrivial": agree, "samples": [first_bad]
                           if first_bad else [f"{agree} of {n - skipped} cases agree"],
                           "rule": "engine vs CPython on random concrete arguments"})
        if first_bad:
            raise Unsupported("engine disagrees with CPython: " + first_bad)
        I.prove(f"X-engine-agrees-with-CPython({kind})", z3.BoolVal(agree == n - skipped),
                f"{agree}/{n} ({skipped} outside the subset)")
        I.prove(f"X-crosscheck-not-vacuous({kind})", z3.BoolVal(agree >= max(1, n // 2)))
    return harness
