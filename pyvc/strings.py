"""Models of str/bytes methods and of hexlify/unhexlify/int(str) (trusted base, DESIGN 4.3)."""
from __future__ import annotations

from typing import Any

import z3

from .engine import Interp
from .values import (NONE, IntSeq, Unsupported, V, VBool, VBytes, VInt, VList, VStr, VTuple,
                     wrap)

HEX = z3.Function("HEX", IntSeq, z3.StringSort())  # hexlify(b).decode()
UNHEX = z3.Function("UNHEX", z3.StringSort(), IntSeq)  # unhexlify(s)
ISHEX = z3.Function("ISHEX", z3.StringSort(), z3.BoolSort())  # even length, only [0-9a-fA-F]


def hexlify(I: Interp, b: V) -> V:
    """binascii.hexlify(b): bytes object of 2*len(b) lowercase hex digits.  Represented as a str
    tagged 'ascii bytes' (VStr with .t) - decode()/encode() are the identity on it."""
    if not isinstance(b, VBytes):
        I.raise_py(TypeError, "a bytes-like object is required")
    c = b.concrete()
    if c is not None:
        return VBytes(c.hex().encode())
    return AsciiBytes(hex_term(I, b.t))


def hex_term(I: Interp, t: Any) -> Any:
    h = HEX(t)
    I.assume(z3.Length(h) == 2 * z3.Length(t))
    I.assume(ISHEX(h))
    I.assume(UNHEX(h) == t)
    I.assume(z3.Not(z3.Contains(h, z3.StringVal("\n"))))
    I.assume(z3.Not(z3.Contains(h, z3.StringVal(" "))))
    return h


class AsciiBytes(VBytes):
    """A bytes object known to hold ASCII text, kept as a z3 String (C19 line framing)."""

    __slots__ = ("s",)

    def __init__(self, s: Any):
        self.s = s
        self.t = None
        self.mutable = False

    def concrete(self) -> bytes | None:
        return None

    def __repr__(self) -> str:
        return f"AsciiBytes({self.s})"


def unhexlify(I: Interp, v: V) -> V:
    if isinstance(v, VBytes) and not isinstance(v, AsciiBytes):
        c = v.concrete()
        if c is not None:
            import binascii
            try:
                return VBytes(binascii.unhexlify(c))
            except binascii.Error as e:
                I.raise_py(binascii.Error, str(e))
        raise Unsupported("unhexlify of symbolic raw bytes")
    if isinstance(v, VStr) and v.s is not None:
        import binascii
        try:
            return VBytes(binascii.unhexlify(v.s))
        except (binascii.Error, ValueError) as e:
            I.raise_py(binascii.Error, str(e))
    s = v.s if isinstance(v, AsciiBytes) else (v.t if isinstance(v, VStr) else None)
    if s is None:
        raise Unsupported("unhexlify argument")
    if not I.branch(ISHEX(s)):
        import binascii
        I.raise_py(binascii.Error, "Non-hexadecimal digit found / Odd-length string")
    out = UNHEX(s)
    I.assume(2 * z3.Length(out) == z3.Length(s))
    return VBytes(out)


def int_of_str(I: Interp, v: VStr, base: V | None) -> V:
    b = 10
    if base is not None and base is not NONE:
        assert isinstance(base, VInt)
        bc = base.concrete()
        if bc is None:
            raise Unsupported("int() with symbolic base")
        b = bc
    if v.s is not None:
        try:
            return VInt(int(v.s, b))
        except ValueError as e:
            I.raise_py(ValueError, str(e))
    raise Unsupported("int() of symbolic str")


def bytes_method(I: Interp, recv: VBytes, name: str, args: list[V], kwargs: dict[str, V]) -> V:
    if isinstance(recv, AsciiBytes):
        if name == "decode":
            return VStr(t=recv.s)
        if name == "hex":
            return VStr()
        raise Unsupported(f"ascii-bytes method {name}")
    c0 = recv.concrete()
    if c0 is not None and name in ("startswith", "endswith", "index", "find", "split", "strip",
                                   "rstrip", "lstrip", "count", "rfind", "upper", "lower"):
        # concrete receiver and arguments: CPython itself is the contract
        from . import models as _m
        pyargs = [_m._concrete_py(a) for a in args]
        if _m._NOCONC not in pyargs:
            try:
                return wrap(getattr(c0, name)(*pyargs))
            except ValueError as e:
                I.raise_py(ValueError, str(e))
    if name == "hex":
        c = recv.concrete()
        if c is not None and not args:
            return VStr(c.hex())
        return VStr(t=hex_term(I, recv.t))
    if name == "join":
        from . import models
        items = models.iterate(I, args[0])
        sep = recv.t
        parts: list[Any] = []
        for i, x in enumerate(items):
            if not isinstance(x, VBytes):
                I.raise_py(TypeError, "sequence item: expected a bytes-like object")
            if i:
                parts.append(sep)
            parts.append(x.t)
        if not parts:
            return VBytes(b"", recv.mutable)
        return VBytes(z3.simplify(z3.Concat(*parts)) if len(parts) > 1 else parts[0],
                      recv.mutable)
    if name == "startswith":
        p = args[0]
        assert isinstance(p, VBytes)
        return VBool(z3.PrefixOf(p.t, recv.t))
    if name == "endswith":
        p = args[0]
        assert isinstance(p, VBytes)
        return VBool(z3.SuffixOf(p.t, recv.t))
    if name == "decode":
        c = recv.concrete()
        if c is not None:
            try:
                return VStr(c.decode())
            except UnicodeDecodeError as e:
                I.raise_py(UnicodeDecodeError, "utf-8", b"", 0, 1, str(e))
        raise Unsupported("decode of symbolic bytes")
    raise Unsupported(f"bytes method {name}")


def str_method(I: Interp, recv: VStr, name: str, args: list[V], kwargs: dict[str, V]) -> V:
    if recv.s is not None:
        pyargs = []
        ok = True
        for a in args:
            if isinstance(a, VStr) and a.s is not None:
                pyargs.append(a.s)
            elif isinstance(a, VInt) and a.concrete() is not None:
                pyargs.append(a.concrete())
            elif isinstance(a, VTuple) and all(isinstance(x, VStr) and x.s is not None
                                               for x in a.items):
                pyargs.append(tuple(x.s for x in a.items))  # type: ignore[attr-defined]
            elif name == "join":
                ok = False
            else:
                ok = False
        if ok and name in ("lower", "upper", "strip", "lstrip", "rstrip", "split", "rsplit",
                           "startswith", "endswith", "replace", "find", "rfind", "isdigit",
                           "isspace", "removeprefix", "removesuffix", "partition",
                           "rpartition", "encode", "title", "capitalize", "splitlines",
                           "zfill", "ljust", "rjust", "count", "index", "isalnum", "isalpha",
                           "format"):
            try:
                r = getattr(recv.s, name)(*pyargs)
            except ValueError as e:
                I.raise_py(ValueError, str(e))
            return wrap(r)
        if name == "join":
            from . import models
            items = models.iterate(I, args[0])
            if all(isinstance(x, VStr) and x.s is not None for x in items):
                return VStr(recv.s.join(x.s for x in items))  # type: ignore[attr-defined]
            if items and all(isinstance(x, VStr) and (x.s is not None or x.t is not None)
                             for x in items):
                ts: list[Any] = []
                for i, x in enumerate(items):
                    if i:
                        ts.append(z3.StringVal(recv.s))
                    ts.append(models.str_term(x))  # type: ignore[arg-type]
                return VStr(t=ts[0] if len(ts) == 1 else z3.Concat(*ts))
            return VStr()
    if recv.t is not None:
        if name == "encode":
            return AsciiBytes(recv.t)
        if name == "strip" and not args:
            return VStr(t=strip_term(I, recv.t))
        if name in ("strip", "lstrip", "rstrip") and len(args) <= 1 and (
                not args or (isinstance(args[0], VStr) and args[0].s is not None)):
            chars = args[0].s if args else None  # type: ignore[union-attr]
            return VStr(t=strip_chars_term(recv.t, name, chars))
        if name == "replace" and len(args) == 2 and all(
                isinstance(a, VStr) and a.s is not None for a in args) \
                and len(args[0].s) == 1:  # type: ignore[union-attr]
            old, new = args[0].s, args[1].s  # type: ignore[union-attr]
            t = z3.simplify(recv.t)
            parts = list(t.children()) if z3.is_app(t) and \
                t.decl().kind() == z3.Z3_OP_SEQ_CONCAT else [t]
            out = []
            for p in parts:
                if z3.is_string_value(p):
                    out.append(z3.StringVal(p.as_string().replace(old, new)))
                elif z3.is_app(p) and p.decl().eq(HEX) and old not in _HEXDIGITS:
                    out.append(p)  # a hex payload holds no such character
                else:
                    out.append(REPLACE1(p, z3.StringVal(old), z3.StringVal(new)))
            return VStr(t=out[0] if len(out) == 1 else z3.Concat(*out))
    if name in ("format", "join", "lower", "upper", "strip", "replace", "title", "ljust",
                "rjust", "zfill", "capitalize", "removeprefix", "removesuffix", "lstrip",
                "rstrip", "expandtabs", "center"):
        return VStr()
    raise Unsupported(f"str method {name} on symbolic str")


STRIP = z3.Function("STRIP", z3.StringSort(), z3.StringSort())
STRIPC = z3.Function("STRIPC", z3.StringSort(), z3.StringSort(), z3.StringSort(),
                     z3.StringSort())  # (text, side, chars): a strip that may eat payload
_HEXDIGITS = set("0123456789abcdef")
REPLACE1 = z3.Function("REPLACE1", z3.StringSort(), z3.StringSort(), z3.StringSort(),
                       z3.StringSort())


def strip_chars_term(t: Any, side: str, chars: str | None) -> Any:
    """str.strip/lstrip/rstrip([chars]) on hex ++ literal terms: a *character set* is removed
    from the end(s).  Literal pieces are stripped exactly; a hex payload stops the stripping
    when the set holds no hex digit; when it does (e.g. lstrip("0x")) the payload itself may be
    eaten - the result is then an uninterpreted term (nothing is known about it)."""
    t = z3.simplify(t)
    parts = list(t.children()) if z3.is_app(t) and t.decl().kind() == z3.Z3_OP_SEQ_CONCAT \
        else [t]
    cs = set(chars) if chars is not None else set(" \t\n\r\x0b\x0c")

    def one_side(ps: list[Any], left: bool) -> list[Any] | None:
        ps = list(ps)
        while ps:
            p = ps[0] if left else ps[-1]
            if z3.is_string_value(p):
                lit = p.as_string()
                new = lit.lstrip("".join(cs)) if left else lit.rstrip("".join(cs))
                if new:
                    ps[0 if left else -1] = z3.StringVal(new)
                    return ps
                ps.pop(0 if left else -1)
                continue
            if z3.is_app(p) and p.decl().eq(HEX):
                return ps if not (cs & _HEXDIGITS) else None
            return None
        return ps
    res: list[Any] | None = parts
    if side in ("strip", "lstrip"):
        res = one_side(res, True)
    if res is not None and side in ("strip", "rstrip"):
        res = one_side(res, False)
    if res is None:
        return STRIPC(t, z3.StringVal(side), z3.StringVal(chars if chars is not None else " "))
    if not res:
        return z3.StringVal("")
    return res[0] if len(res) == 1 else z3.Concat(*res)


def strip_term(I: Interp, t: Any) -> Any:
    """str.strip(): defined here only by the fact C19 needs (DESIGN C19):
    strip(h ++ ws) == h when h is a hex string (no whitespace) and ws is whitespace-only."""
    t = z3.simplify(t)
    if z3.is_app(t) and t.decl().kind() == z3.Z3_OP_SEQ_CONCAT and t.num_args() == 2:
        h, ws = t.arg(0), t.arg(1)
        if z3.is_string_value(ws) and ws.as_string().strip() == "" and z3.is_app(h) \
                and h.decl().eq(HEX):
            return h
    if z3.is_string_value(t):
        return z3.StringVal(t.as_string().strip())
    return STRIP(t)
