"""Contracts (models) of Python builtins and stdlib functions used by the code under contract.

Every model here is part of the trusted base (DESIGN section 4.3): it states, as executable
specification over symbolic values, what CPython does.  `crosscheck.py` samples them against
CPython in the thorough tier.
"""
from __future__ import annotations

import ast
import binascii
import enum
import inspect
import logging
import math
import pathlib
import re
import struct
import types
from typing import Any, Callable

import z3

from .engine import Interp, PathAbort, PyExc, VCoro, Frame
from .values import (VSymMap, simp, NONE, IntSeq, Unsupported, V, VBool, VBound, VBytes, VConst, VDict, VFloat,
                     VInt, VList, VObj, VStr, VSuper, VTuple, wrap)

# --------------------------------------------------------------------------- spec functions
FB = z3.Function("FB", IntSeq, z3.IntSort())  # big-endian value of a byte string
BE = z3.Function("BE", z3.IntSort(), z3.IntSort(), IntSeq)  # n-byte big-endian form of x
BL = z3.Function("BL", z3.IntSort(), z3.IntSort())  # int.bit_length
P256BIG = z3.Function("P256BIG", z3.IntSort(), z3.IntSort())
P2BIG = z3.Function("P2BIG", z3.IntSort(), z3.IntSort())


POW_TABLE = False  # set by harnesses that need numerals for 256**n with symbolic n


def pow256(n: Any, table: bool = False) -> Any:
    """256**n.  For a symbolic exponent this is the uninterpreted P256(n): code and spec meet at
    the same application, no arithmetic on it is needed (the minimal-width lemma, which does
    need numerals, passes table=True)."""
    if isinstance(n, int):
        n = z3.IntVal(n)
    n = simp(n)
    if z3.is_int_value(n):
        if n.as_long() > 64:
            return P256BIG(n)  # astronomically large: never compared with a numeral
        return z3.IntVal(256 ** max(0, n.as_long()))
    t = P256BIG(n)
    if table or POW_TABLE:
        for k in range(16, -1, -1):
            t = z3.If(n == k, z3.IntVal(256 ** k), t)
    return t


def pow2(n: Any) -> Any:
    if isinstance(n, int):
        return z3.IntVal(2 ** n)
    n = simp(n)
    if z3.is_int_value(n):
        return z3.IntVal(2 ** max(0, n.as_long()))
    t = P2BIG(n)
    for k in range(128, -1, -1):
        t = z3.If(n == k, z3.IntVal(2 ** k), t)
    return t


def seq_len_concrete(t: Any) -> int | None:
    n = simp(z3.Length(t))
    return n.as_long() if z3.is_int_value(n) else None


def units(t: Any, n: int) -> list[Any]:
    return [t[i] for i in range(n)]


# ---- structural view of byte strings: flatten concatenations, known part lengths -------------
_KNOWN_LEN: dict[int, tuple[Any, Any]] = {}  # ast id -> (term kept alive, length term)


def set_known_len(t: Any, n: Any) -> None:
    _KNOWN_LEN[t.get_id()] = (t, n if z3.is_expr(n) else z3.IntVal(n))


def flatten(t: Any) -> list[Any]:
    if z3.is_app(t) and t.decl().kind() == z3.Z3_OP_SEQ_CONCAT:
        out: list[Any] = []
        for c in t.children():
            out.extend(flatten(c))
        return out
    if z3.is_app(t) and t.decl().kind() == z3.Z3_OP_SEQ_EMPTY:
        return []
    return [t]


def part_len(p: Any) -> Any:
    k = p.decl().kind() if z3.is_app(p) else None
    if k == z3.Z3_OP_SEQ_UNIT:
        return z3.IntVal(1)
    if z3.is_app(p) and p.decl().eq(BE):
        return p.arg(1)  # Length(BE(x, n)) == n
    hit = _KNOWN_LEN.get(p.get_id())
    if hit is not None:
        return hit[1]
    return z3.Length(p)


def seq_len(t: Any) -> Any:
    """Length of a byte-string term as simplified arithmetic over its parts."""
    ps = flatten(t)
    if not ps:
        return z3.IntVal(0)
    return simp(z3.Sum(*[part_len(p) for p in ps])) if len(ps) > 1 else \
        simp(part_len(ps[0]))


def seq_cat(ps: list[Any]) -> Any:
    if not ps:
        return z3.Empty(IntSeq)
    return ps[0] if len(ps) == 1 else z3.Concat(*ps)


def _is_zero(t: Any) -> bool:
    t = simp(t)
    return z3.is_int_value(t) and t.as_long() == 0


def linear_decompose(t: Any, w: int) -> tuple[Any, int] | None:
    """t == w*q + r with 0 <= r < w for a linear term t whose non-constant coefficients are all
    multiples of w.  Returns (q, r)."""
    t = simp(t)
    terms: list[tuple[int, Any]] = []
    const = 0

    def walk(u: Any, c: int) -> bool:
        nonlocal const
        if z3.is_int_value(u):
            const += c * u.as_long()
            return True
        if z3.is_add(u):
            return all(walk(x, c) for x in u.children())
        if z3.is_mul(u) and u.num_args() == 2 and z3.is_int_value(u.arg(0)):
            return walk(u.arg(1), c * u.arg(0).as_long())
        if z3.is_mul(u) and u.num_args() == 2 and z3.is_int_value(u.arg(1)):
            return walk(u.arg(0), c * u.arg(1).as_long())
        if z3.is_app(u) and u.decl().kind() == z3.Z3_OP_UMINUS:
            return walk(u.arg(0), -c)
        if z3.is_sub(u):
            ch = u.children()
            return walk(ch[0], c) and all(walk(x, -c) for x in ch[1:])
        terms.append((c, u))
        return True
    if not walk(t, 1):
        return None
    if any(c % w for c, _ in terms):
        return None
    r = const % w
    q: Any = z3.IntVal(const // w)
    for c, u in terms:
        q = q + (c // w) * u
    return simp(q), r


def _chunk_of(I: Any, p: Any) -> Any:
    if I is None or not z3.is_const(p):
        return None
    return (I.ghost.get("chunks") or {}).get(p.decl().name())


def chunk_slice(I: Any, ch: Any, rel_a: Any, length: Any) -> Any | None:
    """Slice [rel_a, rel_a+length) of a constant-width fold result that stays inside one
    chunk: elem(q)[r : r+length]."""
    if ch.width is None:
        return None
    ln = simp(length)
    if not z3.is_int_value(ln):
        return None
    d = linear_decompose(rel_a, ch.width)
    if d is None:
        return None
    q, r = d
    if r + ln.as_long() > ch.width or ln.as_long() < 0:
        return None
    if not I.entails(z3.And(q >= 0, q < ch.n)):
        return None
    I.note_index(q)
    el = ch.elem(q)
    if r == 0 and ln.as_long() == ch.width:
        return el
    inner = structural_slice(el, z3.IntVal(r), z3.IntVal(r + ln.as_long()), I)
    return inner if inner is not None else z3.SubSeq(el, z3.IntVal(r), ln)


def structural_slice(t: Any, a: Any, b: Any, I: Any = None) -> Any | None:
    """t[a:b] for bounds that coincide with part boundaries of the flattened concatenation
    (syntactically after simplification, else entailed by the arithmetic part of the path
    condition); None when they do not."""
    ps = flatten(t)
    offs = [z3.IntVal(0)]
    for p in ps:
        offs.append(simp(offs[-1] + part_len(p)))

    def find(x: Any) -> int | None:
        r = next((i for i, o in enumerate(offs) if _is_zero(x - o)), None)
        if r is None and I is not None:
            r = next((i for i, o in enumerate(offs) if I.entails(x == o)), None)
        return r
    ia = find(a)
    ib = find(b)
    if I is not None and (ia is None or ib is None):
        # inside a single fold result (Chunks part)?
        for i, p in enumerate(ps):
            ch = _chunk_of(I, p)
            if ch is not None:
                r = chunk_slice(I, ch, simp(a - offs[i]), simp(b - a))
                if r is not None:
                    return r
    if ia is not None and ib is not None:
        return seq_cat(ps[ia:ib]) if ib >= ia else z3.Empty(IntSeq)
    if ia is not None:
        rest = seq_cat(ps[ia:])
        return z3.SubSeq(rest, z3.IntVal(0), simp(b - a))
    if ib is not None:
        return z3.SubSeq(seq_cat(ps[:ib]), a, simp(b - a))
    return None


def structural_index(t: Any, i: Any, I: Any = None) -> Any | None:
    ps = flatten(t)
    off: Any = z3.IntVal(0)
    for p in ps:
        ch = _chunk_of(I, p)
        if ch is not None:
            r = chunk_slice(I, ch, simp(i - off), z3.IntVal(1))
            if r is not None:
                r = simp(r)
                if z3.is_app(r) and r.decl().kind() == z3.Z3_OP_SEQ_UNIT:
                    return r.arg(0)
                return r[0]
        if z3.is_app(p) and p.decl().kind() == z3.Z3_OP_SEQ_UNIT and (
                _is_zero(i - off) or (I is not None and I.entails(i == off))):
            return p.arg(0)
        d = simp(i - off)
        pl = simp(part_len(p))
        if z3.is_int_value(d) and z3.is_int_value(pl) and 0 <= d.as_long() < pl.as_long():
            return p[d] if pl.as_long() > 1 or p.decl().kind() != z3.Z3_OP_SEQ_UNIT else p.arg(0)
        off = simp(off + pl)
    return None


# widths up to this many bytes are spelled out with div/mod; wider integers stay behind the
# uninterpreted BE/FB pair (their round trip is structural, no div/mod reasoning is needed)
EXPLICIT_WIDTH = 2


def mk_fb(I: Interp, s: Any) -> Any:
    """from_bytes(s, 'big') as an Int term, with the defining facts added to the path."""
    n = seq_len(s)
    if z3.is_int_value(n) and n.as_long() <= EXPLICIT_WIDTH:
        acc: Any = z3.IntVal(0)
        for i in range(n.as_long()):
            el = structural_index(s, z3.IntVal(i))
            if el is None:
                el = s[i]
            acc = acc * 256 + el
            I.assume(z3.And(el >= 0, el <= 255))
        return simp(acc)
    # BE(x, n) round trip is structural
    if z3.is_app(s) and s.decl().eq(BE):
        return s.arg(0)
    t = FB(s)
    ln = n
    I.assume(t >= 0)
    I.assume(t < pow256(ln))
    I.assume(BE(t, ln) == s)
    if not I.feasible(ln > 4):
        I.assume(z3.Implies(ln == 0, t == 0))
        acc = z3.IntVal(0)
        for k in range(1, 5):
            acc = acc * 256 + s[k - 1]
            I.assume(z3.Implies(ln >= k, z3.And(s[k - 1] >= 0, s[k - 1] <= 255)))
            I.assume(z3.Implies(ln == k, t == acc))
    return t


def mk_be(I: Interp, x: Any, n: Any) -> Any:
    """x.to_bytes(n, 'big') for 0 <= x < 256**n, n >= 0 (callers check the range)."""
    nc = simp(n) if not isinstance(n, int) else z3.IntVal(n)
    if z3.is_int_value(nc) and nc.as_long() <= EXPLICIT_WIDTH:
        k = nc.as_long()
        if k == 0:
            return z3.Empty(IntSeq)
        # callers guarantee 0 <= x < 256**k, so the most significant byte needs no reduction
        parts = [z3.Unit(simp(x / z3.IntVal(256 ** (k - 1)) if k > 1 else x))]
        parts += [z3.Unit(simp((x / z3.IntVal(256 ** (k - 1 - i))) % 256))
                  for i in range(1, k)]
        return parts[0] if k == 1 else z3.Concat(*parts)
    x = simp(x)
    # to_bytes(from_bytes(s), len(s)) == s is structural
    if z3.is_app(x) and x.decl().eq(FB) and _is_zero(seq_len(x.arg(0)) - nc):
        return x.arg(0)
    t = BE(x, nc)
    set_known_len(t, nc)
    I.assume(z3.Length(t) == nc)
    I.assume(FB(t) == x)
    # (element ranges 0..255 are assumed where an element is actually read: getitem/mk_fb)
    return t


# --------------------------------------------------------------------------- helpers
class StarList(V):
    """*functional_list in a call."""

    def __init__(self, lst: VList):
        self.lst = lst


def as_int(I: Interp, v: V, what: str = "int") -> Any:
    if isinstance(v, VInt):
        return v.t
    if isinstance(v, VBool):
        return z3.If(v.t, 1, 0)
    raise Unsupported(f"{what}: expected int, got {v!r}")


def is_intlike(v: V) -> bool:
    return isinstance(v, (VInt, VBool))


def type_name(v: V) -> str:
    if isinstance(v, VObj):
        return v.cls.__name__
    return {VInt: "int", VBool: "bool", VBytes: "bytes", VStr: "str", VList: "list",
            VTuple: "tuple", VDict: "dict", VFloat: "float"}.get(type(v), "NoneType"
                                                                 if v is NONE else "object")


def py_isinstance(I: Interp, v: V, cls: Any) -> bool:
    import collections.abc as cabc
    if isinstance(cls, tuple):
        return any(py_isinstance(I, v, c) for c in cls)
    if isinstance(cls, types.UnionType):
        return any(py_isinstance(I, v, c) for c in cls.__args__)
    if cls is object:
        return True
    if isinstance(v, VObj):
        return issubclass(v.cls, cls)
    if isinstance(v, VBool):
        return cls in (bool, int)
    if isinstance(v, VInt):
        if v.enum is not None:
            return issubclass(v.enum, cls)
        return cls is int
    if isinstance(v, VFloat):
        return cls is float
    if v is NONE:
        return cls is type(None)
    if isinstance(v, VBytes):
        if v.mutable:
            return cls in (bytearray, cabc.Sequence, cabc.MutableSequence, cabc.Iterable,
                           cabc.Sized, cabc.Collection, cabc.Container, cabc.Reversible)
        return cls in (bytes, cabc.Sequence, cabc.Iterable, cabc.Sized, cabc.Collection,
                       cabc.Container, cabc.Reversible, cabc.Hashable)
    if isinstance(v, VStr):
        return cls in (str, cabc.Sequence, cabc.Iterable, cabc.Sized, cabc.Collection,
                       cabc.Container, cabc.Hashable)
    if isinstance(v, VList):
        if v.kind == "set":
            return cls in (set, cabc.Set, cabc.Iterable, cabc.Sized, cabc.Collection)
        if v.kind == "range":
            return cls in (range, cabc.Sequence, cabc.Iterable, cabc.Sized, cabc.Collection)
        return cls in (list, cabc.Sequence, cabc.MutableSequence, cabc.Iterable, cabc.Sized,
                       cabc.Collection, cabc.Container, cabc.Reversible)
    if isinstance(v, VTuple):
        return cls in (tuple, cabc.Sequence, cabc.Iterable, cabc.Sized, cabc.Collection,
                       cabc.Container, cabc.Hashable, cabc.Reversible)
    if isinstance(v, VDict):
        return cls in (dict, cabc.Mapping, cabc.MutableMapping, cabc.Iterable, cabc.Sized,
                       cabc.Collection, cabc.Container)
    if isinstance(v, VConst):
        return isinstance(v.py, cls)
    if isinstance(v, (VBound,)):
        return cls in (types.MethodType, cabc.Callable)
    raise Unsupported(f"isinstance({v!r}, {cls})")


def iterate(I: Interp, v: V) -> list[V]:
    if isinstance(v, (VTuple,)):
        return list(v.items)
    if isinstance(v, VList):
        if v.items is not None:
            return list(v.items)
        n = simp(v.n)
        if z3.is_int_value(n):
            return [v.get(z3.IntVal(j)) for j in range(n.as_long())]
        k = I.concrete_value(n)
        if k is not None and 0 <= k <= 4096:
            return [v.get(z3.IntVal(j)) for j in range(k)]
        if I.entails(z3.And(n >= 0, n <= 4)):
            # a length the path condition bounds by a small constant: case split (exact)
            k = I.choose([n == i for i in range(5)])
            return [v.get(z3.IntVal(j)) for j in range(k)]
        raise Unsupported("iteration over a sequence of symbolic length (needs a loop template)")
    if isinstance(v, VDict):
        return [k for k, _ in v.items]
    if isinstance(v, VBytes):
        n = seq_len_concrete(v.t)
        if n is None:
            raise Unsupported("iteration over bytes of symbolic length")
        return [VInt(simp(v.t[i])) for i in range(n)]
    if isinstance(v, VStr) and v.s is not None:
        return [VStr(c) for c in v.s]
    if isinstance(v, VConst):
        py = v.py
        if isinstance(py, type) and issubclass(py, enum.Enum):
            return [wrap(m) for m in py]
        if isinstance(py, (range, list, tuple, set, frozenset, dict, types.MappingProxyType)) \
                or type(py).__name__ in ("dict_values", "dict_keys", "dict_items", "zip",
                                         "enumerate", "reversed", "map", "filter", "generator"):
            return [wrap(x) for x in py]
    raise Unsupported(f"iteration over {v!r}")


# --------------------------------------------------------------------------- equality / compare
def mk_eq(I: Interp, a: V, b: V) -> Any:
    """a == b as z3 Bool or python bool."""
    if a is NONE or b is NONE:
        return a is b
    if is_intlike(a) and is_intlike(b):
        if isinstance(a, VBool) and isinstance(b, VBool):
            return a.t == b.t
        return as_int(I, a) == as_int(I, b)
    if isinstance(a, VFloat) or isinstance(b, VFloat):
        return to_real(a) == to_real(b)
    if isinstance(a, VBytes) and isinstance(b, VBytes):
        return bytes_eq(I, a.t, b.t)
    if isinstance(a, VStr) and isinstance(b, VStr):
        if a.s is not None and b.s is not None:
            return a.s == b.s
        if a.t is not None or b.t is not None:
            return str_term(a) == str_term(b)
        if a is b:
            return True
        raise Unsupported("equality of opaque strings")
    if isinstance(a, VTuple) and isinstance(b, VTuple):
        if len(a.items) != len(b.items):
            return False
        return conj([mk_eq(I, x, y) for x, y in zip(a.items, b.items)])
    if isinstance(a, VList) and isinstance(b, VList):
        if a.kind != b.kind and "set" in (a.kind, b.kind):
            return False
        if a.items is not None and b.items is not None:
            if a.kind == "set":
                raise Unsupported("set equality")
            if len(a.items) != len(b.items):
                return False
            return conj([mk_eq(I, x, y) for x, y in zip(a.items, b.items)])
        return seq_eq(I, a, b)
    if isinstance(a, VDict) and isinstance(b, VDict):
        if len(a.items) == 0 and len(b.items) == 0:
            return True
        ka = [_concrete_py(k) for k, _ in a.items]
        kb = [_concrete_py(k) for k, _ in b.items]
        if _NOCONC not in ka and _NOCONC not in kb:
            if sorted(map(repr, ka)) != sorted(map(repr, kb)):
                return False
            bm = {repr(k): v for k, (_, v) in zip(kb, b.items)}
            return conj([mk_eq(I, v, bm[repr(k)]) for k, (_, v) in zip(ka, a.items)])
        raise Unsupported("dict equality with symbolic keys")
    if isinstance(a, VConst) and isinstance(b, VConst):
        return a.py == b.py
    if isinstance(a, VObj) and isinstance(b, VObj):
        found = I.class_lookup(a.cls, "__eq__")
        if found and found[0] is not object and isinstance(found[1], types.FunctionType):
            return I.truth(I.call_py(found[1], [a, b], {}, found[0]))
        return a is b
    # different kinds
    kinds = (VBytes, VStr, VTuple, VList, VDict)
    if isinstance(a, kinds + (VInt, VBool, VFloat)) and isinstance(b, kinds + (VInt, VBool,
                                                                              VFloat)):
        return False
    if isinstance(a, VObj) or isinstance(b, VObj):
        if isinstance(a, VObj) and I.class_lookup(a.cls, "__eq__")[0] is not object:
            raise Unsupported("custom __eq__ against foreign value")
        return False
    if isinstance(a, VConst) or isinstance(b, VConst):
        return False
    raise Unsupported(f"equality {a!r} == {b!r}")


def bytes_eq(I: Interp, at: Any, bt: Any) -> Any:
    """Equality of byte strings, aware of fold results (loops.Chunks).

    If both sides are  s_0 ++ C ++ s_1  with C, C' concatenations of n resp. n' chunks, the
    chunk lemma gives:  at == bt  <=  s_0 == s'_0 and n == n' and elem(j) == elem'(j) for all j
    and s_1 == s'_1.  The returned Bool e satisfies  e => at == bt  and
    not e => one of those conjuncts fails (with a Skolem chunk index)."""
    from . import loops
    if at is None or bt is None:
        raise Unsupported("comparison of ascii-bytes with raw bytes")
    for whole, other in ((at, bt), (bt, at)):
        if len(flatten(whole)) == 1 and len(flatten(other)) > 1:
            f = partition_formula(I, whole, other)
            if f is not None:
                # slice partition lemma: consecutive slices (and single elements) of a byte
                # string that cover it completely concatenate to that byte string
                I.assume(z3.Implies(f, at == bt))
                I.ex.assumptions.add("slice partition lemma (sequence fact)")
    chunks = I.ghost.get("chunks")
    if not chunks:
        return at == bt
    pa, pb = loops.flatten_concat(at), loops.flatten_concat(bt)

    def is_chunk(t: Any) -> bool:
        return z3.is_const(t) and t.decl().name() in chunks
    ia = [i for i, t in enumerate(pa) if is_chunk(t)]
    ib = [i for i, t in enumerate(pb) if is_chunk(t)]
    if len(ia) != 1 or len(ib) != 1:
        return at == bt
    ca, cb = chunks[pa[ia[0]].decl().name()], chunks[pb[ib[0]].decl().name()]
    if ca is cb:
        return at == bt
    if (ca.width is None) != (cb.width is None) or (ca.width is not None
                                                    and ca.width != cb.width):
        return at == bt

    def seg(ps: list[Any]) -> Any:
        if not ps:
            return z3.Empty(IntSeq)
        return ps[0] if len(ps) == 1 else z3.Concat(*ps)
    sk = z3.Int(I.fresh_name("chunk_sk"))
    I.note_index(sk)
    conds = [seg(pa[:ia[0]]) == seg(pb[:ib[0]]), ca.n == cb.n,
             z3.Implies(z3.And(sk >= 0, sk < ca.n), ca.elem(sk) == cb.elem(sk)),
             seg(pa[ia[0] + 1:]) == seg(pb[ib[0] + 1:])]
    e = z3.Bool(I.fresh_name("bytes_eq"))
    I.assume(z3.Implies(z3.Not(e), z3.Not(z3.And(*conds))))
    I.assume(z3.Implies(e, at == bt))
    I.ex.assumptions.add("chunk lemma: equal chunk count and pointwise equal chunks imply equal "
                         "concatenations (sequence fact, cross-checked on CPython)")
    return e


def partition_formula(I: Interp, whole: Any, other: Any) -> Any | None:
    off: Any = z3.IntVal(0)
    conds = []
    n = seq_len(whole)
    for p in flatten(other):
        k = p.decl().kind() if z3.is_app(p) else None
        if k == z3.Z3_OP_SEQ_UNIT:
            conds.append(p.arg(0) == whole[off])
            off = simp(off + 1)
        elif k == z3.Z3_OP_SEQ_EXTRACT and p.arg(0).eq(whole):
            conds.append(z3.And(p.arg(1) == off, p.arg(2) >= 0, p.arg(1) + p.arg(2) <= n))
            off = simp(off + p.arg(2))
        else:
            return None
    conds.append(off == n)
    return z3.And(*conds)


def seq_eq(I: Interp, a: VList, b: VList) -> Any:
    """Equality of (possibly functional) lists as a deferred-definition Bool.

    The fresh Bool e satisfies only *consequences* of the real definition
    (e => same length and equal at every index term in use; not e => a Skolem index differs),
    so every `unsat` stays sound; `sat` answers are replayed on the real code anyway.
    """
    e = z3.Bool(I.fresh_name("seq_eq"))
    la, lb = a.length(), b.length()
    sk = z3.Int(I.fresh_name("sk"))
    I.note_index(sk)

    def elem_eq(j: Any) -> Any:
        r = mk_eq(I, a.at(j), b.at(j))
        return z3.BoolVal(r) if isinstance(r, bool) else r
    I.assume(z3.Implies(z3.Not(e), z3.Or(la != lb, z3.And(sk >= 0, sk < la,
                                                         z3.Not(elem_eq(sk))))))
    I.assume(z3.Implies(e, la == lb))
    if a.items is not None or b.items is not None:
        items = a.items if a.items is not None else b.items
        for j in range(len(items)):
            I.assume(z3.Implies(e, elem_eq(z3.IntVal(j))))
    else:
        I.lambda_axioms_add(lambda j: z3.Implies(z3.And(e, j >= 0, j < la), elem_eq(j)))
    return e


def conj(xs: list[Any]) -> Any:
    out = []
    for x in xs:
        if isinstance(x, bool):
            if not x:
                return False
            continue
        out.append(x)
    if not out:
        return True
    return z3.And(*out) if len(out) > 1 else out[0]


def disj(xs: list[Any]) -> Any:
    out = []
    for x in xs:
        if isinstance(x, bool):
            if x:
                return True
            continue
        out.append(x)
    if not out:
        return False
    return z3.Or(*out) if len(out) > 1 else out[0]


def neg(x: Any) -> Any:
    return (not x) if isinstance(x, bool) else z3.Not(x)


def to_real(v: V) -> Any:
    if isinstance(v, VFloat):
        return v.t
    if isinstance(v, VInt):
        return z3.ToReal(v.t)
    if isinstance(v, VBool):
        return z3.ToReal(z3.If(v.t, 1, 0))
    raise Unsupported(f"float arithmetic on {v!r}")


def str_term(v: VStr) -> Any:
    if v.t is not None:
        return v.t
    if v.s is not None:
        return z3.StringVal(v.s)
    raise Unsupported("opaque str in string term")


def compare(I: Interp, op: ast.cmpop, a: V, b: V) -> V:
    if isinstance(op, ast.Eq):
        return VBool(mk_eq(I, a, b))
    if isinstance(op, ast.NotEq):
        return VBool(neg(mk_eq(I, a, b)))
    if isinstance(op, ast.Is):
        return VBool(identical(a, b))
    if isinstance(op, ast.IsNot):
        return VBool(neg(identical(a, b)))
    if isinstance(op, (ast.In, ast.NotIn)):
        r = contains(I, b, a)
        return VBool(r if isinstance(op, ast.In) else neg(r))
    if isinstance(a, VFloat) or isinstance(b, VFloat):
        x, y = to_real(a), to_real(b)
    elif is_intlike(a) and is_intlike(b):
        x, y = as_int(I, a), as_int(I, b)
    elif a is NONE or b is NONE:
        I.raise_py(TypeError, f"'<' not supported between instances of '{type_name(a)}' and "
                              f"'{type_name(b)}'")
    else:
        raise Unsupported(f"ordering comparison {a!r} vs {b!r}")
    if isinstance(op, ast.Lt):
        return VBool(x < y)
    if isinstance(op, ast.LtE):
        return VBool(x <= y)
    if isinstance(op, ast.Gt):
        return VBool(x > y)
    if isinstance(op, ast.GtE):
        return VBool(x >= y)
    raise Unsupported(f"comparison {type(op).__name__}")


def identical(a: V, b: V) -> Any:
    if a is NONE or b is NONE:
        return a is b
    if isinstance(a, VConst) and isinstance(b, VConst):
        return a.py is b.py
    if isinstance(a, VBool) and isinstance(b, VBool):
        return a.t == b.t
    if isinstance(a, VInt) and isinstance(b, VInt) and a.enum is not None and a.enum is b.enum:
        return a.t == b.t
    if isinstance(a, (VObj, VList, VDict)) or isinstance(b, (VObj, VList, VDict)):
        return a is b
    if type(a) is not type(b):
        return False
    raise Unsupported(f"identity {a!r} is {b!r}")


def contains(I: Interp, container: V, x: V) -> Any:
    if isinstance(container, VSymMap):
        return container.has(x)
    if isinstance(container, VList) and container.member is not None:
        return container.member(x)
    if isinstance(container, (VTuple, VList)) and getattr(container, "items", None) is not None:
        return disj([mk_eq(I, x, y) for y in container.items])
    if isinstance(container, VList):
        j = z3.Int(I.fresh_name("in_sk"))
        e = z3.Bool(I.fresh_name("in"))
        I.note_index(j)
        n = container.length()
        def el(k: Any) -> Any:
            r = mk_eq(I, x, container.at(k))
            return z3.BoolVal(r) if isinstance(r, bool) else r
        I.assume(z3.Implies(e, z3.And(j >= 0, j < n, el(j))))
        I.lambda_axioms_add(lambda k: z3.Implies(z3.And(z3.Not(e), k >= 0, k < n),
                                                 z3.Not(el(k))))
        return e
    if isinstance(container, VDict):
        return disj([mk_eq(I, x, k) for k, _ in container.items])
    if isinstance(container, VStr) and isinstance(x, VStr):
        if container.s is not None and x.s is not None:
            return x.s in container.s
        return z3.Contains(str_term(container), str_term(x))
    if isinstance(container, VBytes) and is_intlike(x):
        n = seq_len_concrete(container.t)
        if n is not None:
            return disj([container.t[i] == as_int(I, x) for i in range(n)])
        return z3.Contains(container.t, z3.Unit(as_int(I, x)))
    if isinstance(container, VBytes) and isinstance(x, VBytes):
        return z3.Contains(container.t, x.t)
    if isinstance(container, VConst):
        py = container.py
        if isinstance(py, type) and issubclass(py, enum.Enum):
            return disj([mk_eq(I, x, wrap(m)) for m in py])
        try:
            return disj([mk_eq(I, x, wrap(y)) for y in py])
        except TypeError:
            pass
    raise Unsupported(f"membership in {container!r}")


# --------------------------------------------------------------------------- arithmetic
def binop(I: Interp, op: ast.operator, a: V, b: V) -> V:
    if isinstance(op, ast.BitOr) and isinstance(a, VConst) and isinstance(b, VConst) \
            and isinstance(a.py, (type, types.UnionType)) \
            and isinstance(b.py, (type, types.UnionType)):
        return VConst(a.py | b.py)  # X | Y on classes: a union type (isinstance argument)
    if isinstance(op, ast.BitOr) and isinstance(a, VDict):
        # dict | mapping: right operand wins; an external mapping (os.environ) contributes
        # unknown keys, which never shadow what the code adds afterwards by item assignment
        out = VDict(list(a.items))
        if isinstance(b, VDict):
            for k_, v_ in b.items:
                dict_set(I, out, k_, v_)
            return out
        if isinstance(b, VConst) and hasattr(b.py, "keys"):
            return out
    if isinstance(a, VBytes) and isinstance(b, VBytes) and isinstance(op, ast.Add):
        from . import strings
        if isinstance(a, strings.AsciiBytes) or isinstance(b, strings.AsciiBytes):
            def st(x: VBytes) -> Any:
                if isinstance(x, strings.AsciiBytes):
                    return x.s
                c = x.concrete()
                if c is None or any(ch > 127 for ch in c):
                    raise Unsupported("ascii-bytes + symbolic raw bytes")
                return z3.StringVal(c.decode("ascii"))
            return strings.AsciiBytes(z3.Concat(st(a), st(b)))
        return VBytes(z3.Concat(a.t, b.t), a.mutable)
    if isinstance(a, VBytes) and isinstance(op, ast.Mod) and a.concrete() is not None:
        # bytes formatting with %b / %s placeholders only: literal pieces and the arguments
        fmt = a.concrete()
        pieces = re.split(rb"%[bs]", fmt)
        args_ = list(b.items) if isinstance(b, VTuple) else [b]
        if b"%" not in b"".join(pieces) and len(pieces) == len(args_) + 1 and all(
                isinstance(x, VBytes) for x in args_):
            out: V = VBytes(pieces[0])
            for x, lit in zip(args_, pieces[1:]):
                out = binop(I, ast.Add(), out, x)
                if lit:
                    out = binop(I, ast.Add(), out, VBytes(lit))
            return out
    if isinstance(a, VBytes) and is_intlike(b) and isinstance(op, ast.Mult):
        n = VInt(as_int(I, b)).concrete()
        ac = a.concrete()
        if n is not None and ac is not None:
            return VBytes(ac * n)
        raise Unsupported("bytes * symbolic int")
    if isinstance(a, VStr) and isinstance(b, VStr) and isinstance(op, ast.Add):
        if a.s is not None and b.s is not None:
            return VStr(a.s + b.s)
        opaque = lambda x: x.s is None and x.t is None  # noqa: E731
        if (a.t is not None or b.t is not None) and not opaque(a) and not opaque(b):
            return VStr(t=z3.Concat(str_term(a), str_term(b)))
        return VStr(parts=(a.parts or [a.s]) + (b.parts or [b.s]))
    if isinstance(a, VStr) and isinstance(op, ast.Mod):
        return VStr()
    if isinstance(a, VList) and isinstance(b, VList) and isinstance(op, ast.Add):
        if a.items is not None and b.items is not None:
            return VList(a.items + b.items)
        la, lb = a.length(), b.length()
        return VList(None, la + lb, lambda j: _ite_v(I, j < la, lambda: a.at(j),
                                                    lambda: b.at(j - la)))
    if isinstance(a, VList) and is_intlike(b) and isinstance(op, ast.Mult) and a.items is not None:
        n = VInt(as_int(I, b)).concrete()
        if n is not None:
            return VList(a.items * n)
    if isinstance(a, VTuple) and isinstance(b, VTuple) and isinstance(op, ast.Add):
        return VTuple(a.items + b.items)
    if isinstance(a, VFloat) or isinstance(b, VFloat) or isinstance(op, ast.Div):
        if not (isinstance(a, (VFloat, VInt, VBool)) and isinstance(b, (VFloat, VInt, VBool))):
            I.raise_py(TypeError, f"unsupported operand type(s): '{type_name(a)}' and "
                                  f"'{type_name(b)}'")
        x, y = to_real(a), to_real(b)
        if isinstance(op, ast.Add):
            return VFloat(x + y)
        if isinstance(op, ast.Sub):
            return VFloat(x - y)
        if isinstance(op, ast.Mult):
            return VFloat(x * y)
        if isinstance(op, ast.Div):
            if I.branch(y == 0):
                I.raise_py(ZeroDivisionError, "division by zero")
            return VFloat(x / y)
        if isinstance(op, ast.Pow):
            bc = b.concrete() if isinstance(b, (VInt, VFloat)) else None
            ac = a.concrete() if isinstance(a, (VInt, VFloat)) else None
            if ac is not None and bc is not None:
                return wrap(ac ** bc)
        raise Unsupported(f"float op {type(op).__name__}")
    if not (is_intlike(a) and is_intlike(b)):
        # a Python TypeError is modelled only where CPython certainly raises one (None as an
        # operand of an arithmetic operator); every other unmodelled combination - bytes % x,
        # str % tuple, objects with operator methods ... - is outside the subset, never an
        # exception of the program
        def kind(v: V) -> str:
            if v is NONE:
                return "none"
            if isinstance(v, VBytes):
                return "bytes"
            if isinstance(v, VStr):
                return "str"
            if isinstance(v, (VInt, VBool)):
                return "int"
            if isinstance(v, VFloat):
                return "float"
            if isinstance(v, VList):
                return "list"
            if isinstance(v, VTuple):
                return "tuple"
            return "other"
        ka, kb = kind(a), kind(b)
        undefined = False
        if "other" not in (ka, kb):
            if "none" in (ka, kb):
                undefined = True
            elif isinstance(op, (ast.Add, ast.Sub)):
                undefined = ka != kb and {ka, kb} not in ({"int", "float"},)
            elif isinstance(op, ast.Mult):
                undefined = "int" not in (ka, kb) and {ka, kb} != {"float"}
        if undefined:
            I.raise_py(TypeError, f"unsupported operand type(s) for {type(op).__name__}: "
                                  f"'{type_name(a)}' and '{type_name(b)}'")
        raise Unsupported(f"binop {type(op).__name__} on {a!r}, {b!r}")
    x, y = as_int(I, a), as_int(I, b)
    xc, yc = VInt(x).concrete(), VInt(y).concrete()
    if isinstance(op, ast.Add):
        return VInt(x + y)
    if isinstance(op, ast.Sub):
        return VInt(x - y)
    if isinstance(op, ast.Mult):
        return VInt(x * y)
    if isinstance(op, (ast.FloorDiv, ast.Mod)):
        if yc is None:
            if I.branch(y == 0):
                I.raise_py(ZeroDivisionError, "integer division or modulo by zero")
            # python floor semantics for any sign of y: q = floor(x / y)
            q = z3.If(y > 0, x / y, (-x) / (-y))
            return VInt(q) if isinstance(op, ast.FloorDiv) else VInt(x - q * y)
        if yc == 0:
            I.raise_py(ZeroDivisionError, "integer division or modulo by zero")
        if yc > 0:
            # z3 div/mod are Euclidean: for positive divisors they coincide with Python's
            return VInt(x / y) if isinstance(op, ast.FloorDiv) else VInt(x % y)
        q = (-x) / (-y)
        return VInt(q) if isinstance(op, ast.FloorDiv) else VInt(x - q * y)
    if isinstance(op, ast.Pow):
        if xc is not None and yc is not None and yc >= 0:
            return VInt(xc ** yc)
        if xc == 2 and yc is None:
            if I.branch(y < 0):
                raise Unsupported("negative exponent")
            I.assume(pow2(y) >= 1)
            return VInt(pow2(y))
        raise Unsupported("symbolic power")
    if isinstance(op, ast.LShift):
        if yc is None:
            raise Unsupported("shift by symbolic amount")
        if yc < 0:
            I.raise_py(ValueError, "negative shift count")
        return VInt(x * (2 ** yc))
    if isinstance(op, ast.RShift):
        if yc is None:
            raise Unsupported("shift by symbolic amount")
        if yc < 0:
            I.raise_py(ValueError, "negative shift count")
        xs = simp(x)
        if z3.is_mul(xs) and xs.num_args() == 2 and z3.is_int_value(xs.arg(0)) \
                and xs.arg(0).as_long() == 2 ** yc:
            return VInt(xs.arg(1))  # (t * 2^k) >> k == t
        return VInt(x / (2 ** yc))  # floor division by a positive constant == arithmetic shift
    if isinstance(op, (ast.BitAnd, ast.BitOr, ast.BitXor)):
        if xc is not None and yc is not None:
            r = {ast.BitAnd: xc & yc, ast.BitOr: xc | yc, ast.BitXor: xc ^ yc}[type(op)]
            return VInt(r)
        return VInt(bitop(I, op, x, y, xc, yc))
    raise Unsupported(f"binop {type(op).__name__}")


def _mask_shape(c: int) -> tuple[int, int] | None:
    """c == ((1<<w)-1) << s  ->  (s, w)."""
    if c <= 0:
        return None
    s = (c & -c).bit_length() - 1
    m = c >> s
    if m & (m + 1) == 0:
        return s, m.bit_length()
    return None


def bitop(I: Interp, op: ast.operator, x: Any, y: Any, xc: int | None, yc: int | None) -> Any:
    """Bit operations as exact integer arithmetic (two's complement semantics of Python ints)."""
    if isinstance(op, ast.BitAnd):
        if xc is not None:
            x, y, xc, yc = y, x, yc, xc
        if yc is not None:
            if yc == 0:
                return z3.IntVal(0)
            sh = _mask_shape(yc)
            if sh is not None:
                s, w = sh
                # (x & (mask<<s)) == ((x div 2^s) mod 2^w) * 2^s ; exact for all ints x
                return ((x / (2 ** s)) % (2 ** w)) * (2 ** s)
            if yc < 0:
                sh = _mask_shape(~yc)
                if sh is not None:
                    s, w = sh
                    # x & ~m == x - (x & m)   (two's complement, any int x)
                    return x - ((x / (2 ** s)) % (2 ** w)) * (2 ** s)
        if xc is None and yc is None and I.entails(z3.And(x >= 0, y >= 0)):
            # two symbolic non-negative ints: abstracted by the bounds 0 <= x & y <= min(x, y)
            r = z3.Int(I.fresh_name("band"))
            I.assume(z3.And(r >= 0, r <= x, r <= y))
            I.ex.assumptions.add("x & y of two symbolic non-negative ints is abstracted by "
                                 "0 <= x & y <= min(x, y)")
            return r
        raise Unsupported("x & y with non-mask operand")
    if isinstance(op, ast.BitOr):
        # a | b == a + b when the operands have no common set bit: proved as a side obligation
        bound = _disjoint_bits(I, x, y, xc, yc)
        if bound:
            return x + y
        raise Unsupported("x | y without provably disjoint bits")
    if isinstance(op, ast.BitXor):
        if xc is not None:
            x, y, xc, yc = y, x, yc, xc
        if yc is not None and yc >= 0 and (yc & (yc + 1)) == 0:
            # x ^ (2^w - 1) == (x - x mod 2^w) + (2^w - 1 - x mod 2^w)
            w = yc + 1
            return x - (x % w) + (yc - (x % w))
        raise Unsupported("x ^ y with non-mask operand")
    raise Unsupported("bitop")


def _disjoint_bits(I: Interp, x: Any, y: Any, xc: int | None, yc: int | None) -> bool:
    """True iff the path condition entails: x = a*2^k (a >= 0) and 0 <= y < 2^k for some k."""
    for (a, b) in ((x, y), (y, x)):
        for k in (4, 8, 1, 2, 3, 5, 6, 7, 16):
            f = z3.And(a >= 0, a % (2 ** k) == 0, b >= 0, b < 2 ** k)
            if I.entails(f):
                return True
    return False


def unaryop(I: Interp, op: ast.unaryop, v: V) -> V:
    if isinstance(v, VFloat):
        if isinstance(op, ast.USub):
            return VFloat(-v.t)
        if isinstance(op, ast.UAdd):
            return v
    if is_intlike(v):
        x = as_int(I, v)
        if isinstance(op, ast.USub):
            return VInt(-x)
        if isinstance(op, ast.UAdd):
            return VInt(x)
        if isinstance(op, ast.Invert):
            return VInt(-x - 1)
    raise Unsupported(f"unary {type(op).__name__} on {v!r}")


def _ite_v(I: Interp, c: Any, a: Callable[[], V], b: Callable[[], V]) -> V:
    c = simp(c) if z3.is_expr(c) else c
    if c is True or (z3.is_expr(c) and z3.is_true(c)):
        return a()
    if c is False or (z3.is_expr(c) and z3.is_false(c)):
        return b()
    x, y = a(), b()
    return ite_values(c, x, y)


from .values import ite_values  # noqa: E402


# --------------------------------------------------------------------------- indexing
def norm_index(I: Interp, i: Any, n: Any, what: str) -> Any:
    """Python index normalisation with the IndexError fork.  Returns the non-negative index."""
    ic = simp(i)
    if z3.is_int_value(ic):
        k = ic.as_long()
        if k >= 0:
            if not I.branch(n > k):
                I.raise_py(IndexError, f"{what} index out of range")
            return ic
        if not I.branch(n >= -k):
            I.raise_py(IndexError, f"{what} index out of range")
        return n + k
    if not I.branch(z3.And(i >= -n, i < n)):
        I.raise_py(IndexError, f"{what} index out of range")
    if I.branch(i >= 0):
        return i
    return n + i


def getitem(I: Interp, base: V, idx: V) -> V:
    if isinstance(base, VBytes):
        if not is_intlike(idx):
            I.raise_py(TypeError, "byte indices must be integers")
        j = norm_index(I, as_int(I, idx), seq_len(base.t), "bytes")
        el = structural_index(base.t, j, I)
        if el is None:
            el = base.t[j]
        I.assume(z3.And(el >= 0, el <= 255))
        return VInt(simp(el))
    if isinstance(base, (VTuple, VList)) and getattr(base, "items", None) is not None:
        if not is_intlike(idx):
            I.raise_py(TypeError, "indices must be integers")
        items = base.items
        ic = VInt(as_int(I, idx)).concrete()
        if ic is None:
            j = norm_index(I, as_int(I, idx), z3.IntVal(len(items)), "list")
            k = I.choose([j == q for q in range(len(items))])
            return items[k]
        if not -len(items) <= ic < len(items):
            I.raise_py(IndexError, "index out of range")
        return items[ic]
    if isinstance(base, VList):
        j = norm_index(I, as_int(I, idx), base.length(), "list")
        I.note_index(j)
        return base.at(j)
    if isinstance(base, VDict):
        return dict_get(I, base, idx, raise_key=True)
    if isinstance(base, VSymMap):
        if not I.branch(base.has(idx)):
            I.raise_py(KeyError, "key")
        return base.get(idx)
    if isinstance(base, VConst):
        py = base.py
        if isinstance(py, (dict, types.MappingProxyType)):
            return getitem(I, VDict([(wrap(k), wrap(v)) for k, v in py.items()]), idx)
        if isinstance(py, type) and issubclass(py, enum.Enum) and isinstance(idx, VStr) \
                and idx.s is not None:
            try:
                return wrap(py[idx.s])
            except KeyError:
                I.raise_py(KeyError, idx.s)
        if isinstance(py, type):
            return base  # generic alias such as list[int]
        if isinstance(py, (range, list, tuple)):
            return getitem(I, wrap(list(py)), idx)
    if isinstance(base, VStr) and base.s is not None and is_intlike(idx):
        ic = VInt(as_int(I, idx)).concrete()
        if ic is not None:
            if not -len(base.s) <= ic < len(base.s):
                I.raise_py(IndexError, "string index out of range")
            return VStr(base.s[ic])
    if base is NONE:
        I.raise_py(TypeError, "'NoneType' object is not subscriptable")
    raise Unsupported(f"subscript of {base!r}")


def _clamp(I: Interp, v: V | None, n: Any, default: Any) -> Any:
    """Python slice bound normalisation (step 1) as a term in [0, n].  When the path condition
    already decides the clamping (one entailment query), the plain bound is returned."""
    if v is None or v is NONE:
        return default
    i = as_int(I, v)
    ic = simp(i)
    if z3.is_int_value(ic):
        k = ic.as_long()
        if k >= 0:
            if k == 0 or I.entails(n >= k) or not I.feasible(n < k):
                return ic
            return z3.If(n < k, n, ic)
        if I.entails(n + k >= 0) or not I.feasible(n + k < 0):
            return n + k
        return z3.If(n + k < 0, z3.IntVal(0), n + k)
    if I.entails(z3.And(i >= 0, i <= n)) or not I.feasible(z3.Or(i < 0, i > n)):
        return i
    return z3.If(i < 0, z3.If(n + i < 0, z3.IntVal(0), n + i), z3.If(i > n, n, i))


def getslice(I: Interp, base: V, lo: V | None, hi: V | None, step: V | None) -> V:
    if step is not None and step is not NONE:
        sc = VInt(as_int(I, step)).concrete()
        if sc != 1:
            if sc == -1 and lo is None and hi is None and isinstance(base, (VList, VTuple)) \
                    and base.items is not None:
                return type(base)(list(reversed(base.items)))
            raise Unsupported("slice with step")
    if isinstance(base, VBytes):
        n = z3.Length(base.t)
        n = seq_len(base.t)
        a = _clamp(I, lo, n, z3.IntVal(0))
        b = _clamp(I, hi, n, n)
        ln = simp(b - a)
        if not (z3.is_int_value(ln) and ln.as_long() >= 0) and not I.entails(b - a >= 0) \
                and I.feasible(b - a < 0):
            ln = z3.If(b - a < 0, z3.IntVal(0), b - a)
        else:
            # a, b are clamped into [0, n] and b - a >= 0 here: the slice has exactly b - a bytes
            st = structural_slice(base.t, simp(a), simp(b), I)
            res = simp(st) if st is not None else simp(z3.SubSeq(base.t, a, ln))
            if not flatten(res) or len(flatten(res)) == 1:
                set_known_len(res, simp(ln))
            return VBytes(res, base.mutable)
        return VBytes(simp(z3.SubSeq(base.t, a, ln)), base.mutable)
    if isinstance(base, (VTuple, VList)) and getattr(base, "items", None) is not None:
        loc = None if lo in (None, NONE) else VInt(as_int(I, lo)).concrete()
        hic = None if hi in (None, NONE) else VInt(as_int(I, hi)).concrete()
        if (lo not in (None, NONE) and loc is None) or (hi not in (None, NONE) and hic is None):
            raise Unsupported("symbolic slice of concrete-spine sequence")
        out = base.items[slice(loc, hic)]
        return VTuple(out) if isinstance(base, VTuple) else VList(out, kind=base.kind)
    if isinstance(base, VList):
        n = base.length()
        a = _clamp(I, lo, n, z3.IntVal(0))
        b = _clamp(I, hi, n, n)
        ln = z3.If(b - a < 0, z3.IntVal(0), b - a)
        return VList(None, ln, lambda j: base.at(a + j))
    if isinstance(base, VStr):
        loc = None if lo in (None, NONE) else VInt(as_int(I, lo)).concrete()
        hic = None if hi in (None, NONE) else VInt(as_int(I, hi)).concrete()
        if base.s is not None and (lo in (None, NONE) or loc is not None) and \
                (hi in (None, NONE) or hic is not None):
            return VStr(base.s[slice(loc, hic)])
        t = str_term(base)
        n = z3.Length(t)
        a = _clamp(I, lo, n, z3.IntVal(0))
        b = _clamp(I, hi, n, n)
        ln = z3.If(b - a < 0, z3.IntVal(0), b - a)
        return VStr(t=z3.SubString(t, a, ln))
    raise Unsupported(f"slice of {base!r}")


def setitem(I: Interp, base: V, idx: V, val: V) -> None:
    if isinstance(base, VSymMap):
        # m[k] = v on a symbolic map: pointwise update of its observers
        has0, get0, k0 = base.has, base.get, idx

        def has(k: V) -> Any:
            e = mk_eq(I, k, k0)
            e = z3.BoolVal(e) if isinstance(e, bool) else e
            h = has0(k)
            return z3.Or(e, z3.BoolVal(h) if isinstance(h, bool) else h)

        def get(k: V) -> V:
            e = mk_eq(I, k, k0)
            if e is True:
                return val
            if e is False:
                return get0(k)
            return val if I.branch(e) else get0(k)
        base.has, base.get = has, get
        base.n = z3.Int(I.fresh_name("map_n"))
        I.ghost.setdefault("map_writes", []).append((base, idx, val))
        return
    if isinstance(base, VDict):
        dict_set(I, base, idx, val)
        return
    if isinstance(base, VList) and base.items is not None and is_intlike(idx):
        ic = VInt(as_int(I, idx)).concrete()
        if ic is None:
            raise Unsupported("list store at symbolic index")
        if not -len(base.items) <= ic < len(base.items):
            I.raise_py(IndexError, "list assignment index out of range")
        base.items[ic] = val
        return
    raise Unsupported(f"item store on {base!r}")


def delitem(I: Interp, base: V, idx: V) -> None:
    if isinstance(base, VList) and is_intlike(idx):
        ic = VInt(as_int(I, idx)).concrete()
        if base.items is not None and ic is not None:
            if not -len(base.items) <= ic < len(base.items):
                I.raise_py(IndexError, "list assignment index out of range")
            del base.items[ic]
            return
        if base.items is None and ic == -1:
            if I.branch(base.n <= 0):
                I.raise_py(IndexError, "list assignment index out of range")
            base.n = simp(base.n - 1)
            return
    if isinstance(base, VDict):
        for i, (k, _) in enumerate(base.items):
            if I.branch(mk_eq(I, k, idx)):
                del base.items[i]
                return
        I.raise_py(KeyError, "key")
    raise Unsupported(f"del item on {base!r}")


def dict_set(I: Interp, d: VDict, k: V, v: V) -> None:
    for i, (kk, _) in enumerate(d.items):
        if I.branch(mk_eq(I, kk, k)):
            d.items[i] = (kk, v)
            return
    d.items.append((k, v))


def dict_get(I: Interp, d: VDict, k: V, raise_key: bool = False, default: V = NONE) -> V:
    conds = []
    for kk, _ in d.items:
        e = mk_eq(I, kk, k)
        conds.append(e)
    # first matching key wins; keys of a well-formed dict are pairwise distinct
    sym = [(i, c) for i, c in enumerate(conds) if not isinstance(c, bool)]
    for i, c in enumerate(conds):
        if c is True:
            return d.items[i][1]
    if sym:
        alts = [c for _, c in sym] + [z3.Not(z3.Or(*[c for _, c in sym])) if len(sym) > 1
                                      else z3.Not(sym[0][1])]
        r = I.choose(alts)
        if r < len(sym):
            return d.items[sym[r][0]][1]
    if raise_key:
        I.raise_py(KeyError, "key")
    return default


# --------------------------------------------------------------------------- strings
def joined_str(I: Interp, e: ast.JoinedStr, fr: Frame) -> V:
    """f-strings: concrete when every interpolated value is concrete and simply formatted;
    otherwise an opaque template that remembers `len(...)`-style int parts (pack formats)."""
    parts: list[Any] = []
    concrete = True
    for p in e.values:
        if isinstance(p, ast.Constant):
            parts.append(p.value)
            continue
        assert isinstance(p, ast.FormattedValue)
        try:
            v = I.eval(p.value, fr)
        except Unsupported:
            v = VStr()
        spec = None
        if p.format_spec is not None:
            sp = joined_str(I, p.format_spec, fr)
            spec = sp.s if isinstance(sp, VStr) else None
            if spec is None:
                concrete = False
        py = _concrete_py(v)
        if py is _NOCONC or p.conversion not in (-1, 114, 115):
            concrete = False
            parts.append(v)
        else:
            if p.conversion == 114:
                py = repr(py)
            elif p.conversion == 115:
                py = str(py)
            try:
                parts.append(format(py, spec or ""))
            except Exception:
                concrete = False
                parts.append(v)
    if concrete:
        return VStr("".join(parts))
    # symbolic strings (C19/C20): plain interpolation of str terms and non-negative ints
    if any(isinstance(x, VStr) and x.t is not None for x in parts) and \
            all(isinstance(x, str) or (isinstance(x, VStr) and (x.t is not None
                                                                  or x.s is not None))
                or isinstance(x, VInt) for x in parts) and \
            all(p.format_spec is None and p.conversion == -1
                for p in e.values if isinstance(p, ast.FormattedValue)):
        ts = []
        for x in parts:
            if isinstance(x, str):
                ts.append(z3.StringVal(x))
            elif isinstance(x, VStr):
                ts.append(str_term(x))
            else:
                if not I.entails(x.t >= 0):
                    return VStr(parts=parts)
                ts.append(z3.IntToStr(x.t))
        return VStr(t=ts[0] if len(ts) == 1 else z3.Concat(*ts))
    return VStr(parts=parts)


_NOCONC = object()


def _concrete_py(v: V) -> Any:
    if isinstance(v, VInt):
        c = v.concrete()
        if c is None:
            return _NOCONC
        return v.enum(c) if v.enum is not None else c
    if isinstance(v, VBool):
        c = v.concrete()
        return _NOCONC if c is None else c
    if isinstance(v, VStr):
        return v.s if v.s is not None else _NOCONC
    if isinstance(v, VBytes):
        c = v.concrete()
        return _NOCONC if c is None else c
    if v is NONE:
        return None
    if isinstance(v, VConst) and isinstance(v.py, (type, enum.Enum, pathlib.PurePath)):
        return v.py
    return _NOCONC


# --------------------------------------------------------------------------- enum
def enum_call(I: Interp, cls: type, args: list[V]) -> V:
    if len(args) != 1:
        raise Unsupported("functional Enum API")
    v = args[0]
    members = list(cls)
    if issubclass(cls, int) and is_intlike(v):
        x = as_int(I, v)
        xc = VInt(x).concrete()
        values = sorted({int(m) for m in members})
        if xc is not None:
            if xc in values:
                return VInt(xc, cls)
        else:
            is_member = z3.Or(*[x == k for k in values])
            if I.branch(is_member):
                return VInt(x, cls)
        missing = I.class_lookup(cls, "_missing_")
        if missing and missing[0] not in (enum.Enum, enum.IntEnum, enum.IntFlag, enum.Flag):
            r = I.call_py(missing[1].__func__, [VConst(cls), v], {}, missing[0])
            if r is not NONE:
                return r
        I.raise_py(ValueError, f"{VInt(x).concrete() if xc is not None else 'value'} is not a "
                               f"valid {cls.__name__}")
    py = _concrete_py(v)
    if py is _NOCONC:
        raise Unsupported(f"Enum call {cls.__name__} on symbolic non-int")
    try:
        return wrap(cls(py))
    except ValueError as e:
        I.raise_py(ValueError, str(e))
    raise AssertionError


# --------------------------------------------------------------------------- struct
_FMT_WIDTH = {"B": 1, "H": 2, "I": 4, "L": 4, "Q": 8, "b": 1, "h": 2, "i": 4, "l": 4, "q": 8}


def parse_fmt(fmt: str) -> list[tuple[str, int]]:
    i = 0
    if fmt and fmt[0] in "!<>=@":
        i = 1
    out: list[tuple[str, int]] = []
    num = ""
    while i < len(fmt):
        c = fmt[i]
        if c.isdigit():
            num += c
        elif c.isspace():
            pass
        else:
            n = int(num) if num else 1
            num = ""
            if c == "s":
                out.append(("s", n))
            elif c == "x":
                out.extend([("x", 1)] * n)
            elif c in _FMT_WIDTH:
                out.extend([(c, _FMT_WIDTH[c])] * n)
            else:
                raise Unsupported(f"struct format char {c!r}")
        i += 1
    return out


def model_pack(I: Interp, args: list[V], kwargs: dict[str, V]) -> V:
    fmt = args[0]
    if not isinstance(fmt, VStr):
        raise Unsupported("pack format")
    vals = args[1:]
    if fmt.s is None:
        return _pack_repeat(I, fmt, vals)
    if fmt.s[:1] in "<" or (fmt.s[:1] in "@=" and any(w > 1 for _, w in parse_fmt(fmt.s))):
        raise Unsupported("little-endian/native multi-byte pack")
    items = parse_fmt(fmt.s)
    need = sum(1 for c, _ in items if c != "x")
    if any(isinstance(v, StarList) for v in vals):
        raise Unsupported("pack with star-list and constant format")
    if need != len(vals):
        I.raise_py(struct.error, f"pack expected {need} items for packing (got {len(vals)})")
    parts: list[Any] = []
    vi = 0
    for c, w in items:
        if c == "x":
            parts.append(z3.Unit(z3.IntVal(0)))
            continue
        v = vals[vi]
        vi += 1
        if c == "s":
            if not isinstance(v, VBytes):
                I.raise_py(struct.error, "argument for 's' must be a bytes object")
            n = z3.Length(v.t)
            # truncate / pad with zeros to exactly w bytes
            k = seq_len_concrete(v.t)
            if k is None:
                raise Unsupported("pack 's' with symbolic-length bytes")
            b = [v.t[i] for i in range(min(k, w))] + [z3.IntVal(0)] * max(0, w - k)
            parts.extend(z3.Unit(x) for x in b)
            continue
        if not is_intlike(v):
            I.raise_py(struct.error, "required argument is not an integer")
        x = as_int(I, v)
        signed = c.islower()
        lo, hi = (-(256 ** w) // 2, 256 ** w // 2 - 1) if signed else (0, 256 ** w - 1)
        if not I.branch(z3.And(x >= lo, x <= hi)):
            I.raise_py(struct.error, f"'{c}' format requires {lo} <= number <= {hi}")
        if signed:
            x = z3.If(x < 0, x + 256 ** w, x)
        parts.append(mk_be(I, x, w))
    if not parts:
        return VBytes(b"")
    return VBytes(simp(z3.Concat(*parts)) if len(parts) > 1 else parts[0])


def _pack_repeat(I: Interp, fmt: VStr, vals: list[V]) -> V:
    """pack(f"!B{n}H", sid, *ids): the one computed format in the code base."""
    from . import loops
    p = fmt.parts or []
    if len(p) == 3 and p[0] == "!B" and p[2] == "H" and isinstance(p[1], VInt) \
            and len(vals) == 2 and isinstance(vals[1], StarList):
        lst = vals[1].lst
        n = p[1].t
        if not I.branch(n == lst.length()):
            I.raise_py(struct.error, "pack expected n items")
        head = model_pack(I, [VStr("!B"), vals[0]], {})
        body = loops.forall_or_raise(
            I, lst.length(),
            lambda j: z3.And(as_int(I, lst.at(j)) >= 0, as_int(I, lst.at(j)) <= 0xFFFF),
            lambda: I.make_exc(struct.error, "'H' format requires 0 <= number <= 65535"))
        chunks = loops.get_chunks(I, lst.length(), 2,
                              lambda j: mk_be(I, as_int(I, lst.at(j)), 2), "packH")
        return VBytes(z3.Concat(head.t, chunks.seq))
    raise Unsupported("computed struct format")


def model_unpack(I: Interp, args: list[V], kwargs: dict[str, V]) -> V:
    fmt, data = args[0], args[1]
    if not isinstance(fmt, VStr) or fmt.s is None or not isinstance(data, VBytes):
        raise Unsupported("unpack arguments")
    if fmt.s[:1] in "<" or (fmt.s[:1] in "@=" and any(w > 1 for _, w in parse_fmt(fmt.s))):
        raise Unsupported("little-endian/native multi-byte unpack")
    items = parse_fmt(fmt.s)
    total = sum(w for _, w in items)
    if not I.branch(z3.Length(data.t) == total):
        I.raise_py(struct.error, f"unpack requires a buffer of {total} bytes")
    out: list[V] = []
    off = 0
    for c, w in items:
        if c == "x":
            off += w
            continue
        chunk = z3.SubSeq(data.t, z3.IntVal(off), z3.IntVal(w))
        if c == "s":
            out.append(VBytes(simp(chunk)))
        elif w > EXPLICIT_WIDTH and not c.islower():
            sl = getslice(I, data, VInt(off), VInt(off + w), None)
            out.append(VInt(mk_fb(I, sl.t)))
        else:
            acc: Any = z3.IntVal(0)
            for i in range(w):
                el = data.t[off + i]
                I.assume(z3.And(el >= 0, el <= 255))
                acc = acc * 256 + el
            if c.islower():
                acc = z3.If(acc >= 256 ** w // 2, acc - 256 ** w, acc)
            out.append(VInt(simp(acc)))
        off += w
    return VTuple(out)


# --------------------------------------------------------------------------- builtins
MODELS: dict[Any, Callable] = {}
CLASS_MODELS: dict[type, Callable] = {}
LAZY_ATTR_HOOKS: list[Callable] = []


def register(py: Any) -> Callable:
    def deco(f: Callable) -> Callable:
        MODELS[py] = f
        return f
    return deco


def lookup(py: Any) -> Callable | None:
    try:
        m = MODELS.get(py)
    except TypeError:
        m = None
    if m is not None:
        return m
    if isinstance(py, types.MethodType) and isinstance(py.__self__, logging.Logger):
        return _noop
    if isinstance(py, types.MethodType) and type(py.__self__).__module__ == "reprlib":
        return lambda I, a, k: VStr()  # reprlib.Repr().repr (gallia's g_repr): some display text
    if isinstance(py, types.BuiltinMethodType) and isinstance(getattr(py, "__self__", None),
                                                               logging.Logger):
        return _noop
    return None


def class_model(cls: type) -> Callable | None:
    for k in cls.__mro__:
        if k in CLASS_MODELS:
            return CLASS_MODELS[k]
    return None


def _noop(I: Interp, args: list[V], kwargs: dict[str, V]) -> V:
    return NONE


def lazy_attr(I: Interp, obj: VObj, name: str) -> V:
    stubs = getattr(I.ex, "stubs", {})
    if (obj.tag, name) in stubs:
        return VBound("stub:" + name, obj)
    mk = getattr(I.ex, "stub_attrs", {}).get((obj.tag, name))
    if mk is not None:
        v = mk(I, obj)
        obj.fields[name] = v
        return v
    for h in LAZY_ATTR_HOOKS:
        r = h(I, obj, name)
        if r is not None:
            obj.fields[name] = r
            return r
    raise Unsupported(f"lazy attribute {obj.cls.__name__}.{name} without a declared sort")


@register(len)
def _len(I: Interp, args: list[V], kwargs: dict[str, V]) -> V:
    v = args[0]
    if isinstance(v, VBytes):
        return VInt(seq_len(v.t))
    if isinstance(v, VList):
        return VInt(v.length())
    if isinstance(v, VTuple):
        return VInt(len(v.items))
    if isinstance(v, VDict):
        return VInt(len(v.items))
    if isinstance(v, VSymMap):
        return VInt(v.n)
    if isinstance(v, VStr):
        if v.s is not None:
            return VInt(len(v.s))
        if v.t is not None:
            return VInt(z3.Length(v.t))
    if isinstance(v, VObj):
        f = I.class_lookup(v.cls, "__len__")
        if f:
            return I.call_py(f[1], [v], {}, f[0])
    if isinstance(v, VConst):
        try:
            return VInt(len(v.py))
        except TypeError:
            pass
    if v is NONE or is_intlike(v):
        I.raise_py(TypeError, f"object of type '{type_name(v)}' has no len()")
    raise Unsupported(f"len of {v!r}")


@register(isinstance)
def _isinstance(I: Interp, args: list[V], kwargs: dict[str, V]) -> V:
    c = args[1]
    if isinstance(c, VTuple):
        cls: Any = tuple(x.py for x in c.items)  # type: ignore[attr-defined]
    elif isinstance(c, VConst):
        cls = c.py
    else:
        raise Unsupported("isinstance class argument")
    return VBool(py_isinstance(I, args[0], cls))


@register(issubclass)
def _issubclass(I: Interp, args: list[V], kwargs: dict[str, V]) -> V:
    a, b = args
    if isinstance(a, VConst) and isinstance(b, VConst):
        return VBool(issubclass(a.py, b.py))
    if isinstance(a, VConst) and isinstance(b, VTuple):
        return VBool(issubclass(a.py, tuple(x.py for x in b.items)))  # type: ignore
    raise Unsupported("issubclass on symbolic class")


@register(inspect.isclass)
def _isclass(I: Interp, args: list[V], kwargs: dict[str, V]) -> V:
    return VBool(isinstance(args[0], VConst) and isinstance(args[0].py, type))


@register(type)
def _type(I: Interp, args: list[V], kwargs: dict[str, V]) -> V:
    v = args[0]
    if len(args) != 1:
        raise Unsupported("type() with 3 args")
    if isinstance(v, VObj):
        return VConst(v.cls)
    if isinstance(v, VInt):
        return VConst(v.enum or int)
    tmap = {VBool: bool, VBytes: bytes, VStr: str, VList: list, VTuple: tuple, VDict: dict,
            VFloat: float}
    if type(v) in tmap:
        return VConst(tmap[type(v)])
    if v is NONE:
        return VConst(type(None))
    if isinstance(v, VConst):
        return VConst(type(v.py))
    raise Unsupported("type()")


@register(int)
def _int(I: Interp, args: list[V], kwargs: dict[str, V]) -> V:
    if not args:
        return VInt(0)
    v = args[0]
    if isinstance(v, VInt):
        return VInt(v.t)
    if isinstance(v, VBool):
        return VInt(z3.If(v.t, 1, 0))
    if isinstance(v, VFloat):
        c = v.concrete()
        if c is not None:
            return VInt(int(c))
        # truncation toward zero
        return VInt(z3.If(v.t >= 0, z3.ToInt(v.t), -z3.ToInt(-v.t)))
    if isinstance(v, VStr):
        from . import strings
        return strings.int_of_str(I, v, args[1] if len(args) > 1 else kwargs.get("base"))
    if isinstance(v, VBytes):
        c = v.concrete()
        if c is not None:
            try:
                return VInt(int(c))
            except ValueError as e:
                I.raise_py(ValueError, str(e))
        raise Unsupported("int() of symbolic bytes")
    if v is NONE:
        I.raise_py(TypeError, "int() argument must be a string, a bytes-like object or a real "
                              "number, not 'NoneType'")
    raise Unsupported(f"int({v!r})")


@register(bool)
def _bool(I: Interp, args: list[V], kwargs: dict[str, V]) -> V:
    if not args:
        return VBool(False)
    return VBool(I.truth(args[0]))


@register(float)
def _float(I: Interp, args: list[V], kwargs: dict[str, V]) -> V:
    v = args[0]
    if isinstance(v, VFloat):
        return v
    if is_intlike(v):
        return VFloat(z3.ToReal(as_int(I, v)))
    if isinstance(v, VStr) and v.s is not None:
        try:
            return VFloat(float(v.s))
        except ValueError as e:
            I.raise_py(ValueError, str(e))
    raise Unsupported("float()")


@register(bytes)
def _bytes(I: Interp, args: list[V], kwargs: dict[str, V]) -> V:
    if not args:
        return VBytes(b"")
    v = args[0]
    if isinstance(v, VBytes):
        return VBytes(v.t)
    if is_intlike(v):
        n = as_int(I, v)
        if I.branch(n < 0):
            I.raise_py(ValueError, "negative count")
        nc = VInt(n).concrete()
        if nc is not None and nc <= 64:
            return VBytes(bytes(nc))
        z = z3.Const(I.fresh_name("zeros"), IntSeq)
        I.assume(z3.Length(z) == n)
        I.lambda_axioms_add(lambda j: z3.Implies(z3.And(j >= 0, j < n), z[j] == 0))
        return VBytes(z)
    if isinstance(v, (VList, VTuple)):
        items = iterate(I, v)
        parts = []
        for x in items:
            if not is_intlike(x):
                I.raise_py(TypeError, "'%s' object cannot be interpreted as an integer"
                           % type_name(x))
            t = as_int(I, x)
            if not I.branch(z3.And(t >= 0, t <= 255)):
                I.raise_py(ValueError, "bytes must be in range(0, 256)")
            parts.append(z3.Unit(t))
        if not parts:
            return VBytes(b"")
        return VBytes(z3.Concat(*parts) if len(parts) > 1 else parts[0])
    if isinstance(v, VStr):
        I.raise_py(TypeError, "string argument without an encoding")
    raise Unsupported(f"bytes({v!r})")


@register(bytearray)
def _bytearray(I: Interp, args: list[V], kwargs: dict[str, V]) -> V:
    r = _bytes(I, args, kwargs)
    assert isinstance(r, VBytes)
    return VBytes(r.t, mutable=True)


@register(list)
def _list(I: Interp, args: list[V], kwargs: dict[str, V]) -> V:
    if not args:
        return VList([])
    v = args[0]
    if isinstance(v, VList) and v.items is None:
        return VList(None, v.n, v.get)
    if is_intlike(v) or v is NONE:
        I.raise_py(TypeError, f"'{type_name(v)}' object is not iterable")
    return VList(iterate(I, v))


@register(tuple)
def _tuple(I: Interp, args: list[V], kwargs: dict[str, V]) -> V:
    if not args:
        return VTuple([])
    return VTuple(iterate(I, args[0]))


@register(set)
def _set(I: Interp, args: list[V], kwargs: dict[str, V]) -> V:
    s = VList([], kind="set")
    if args:
        for x in iterate(I, args[0]):
            set_add(I, s, x)
    return s


def set_add(I: Interp, s: VList, x: V) -> None:
    if s.items is None and s.member is not None:
        # a set known by its membership predicate only: pointwise update
        old = s.member
        s.member = lambda v, old=old, x=x: z3.Or(_b(old(v)), _b(mk_eq(I, v, x)))
        s.n = s.n + z3.If(_b(old(x)), 0, 1)  # the size grows iff the element is new
        return
    assert s.items is not None
    for y in s.items:
        if I.branch(mk_eq(I, x, y)):
            return
    s.items.append(x)


@register(dict)
def _dict(I: Interp, args: list[V], kwargs: dict[str, V]) -> V:
    d = VDict()
    if args:
        src = args[0]
        if isinstance(src, VDict):
            d.items = list(src.items)
        else:
            for kv in iterate(I, src):
                k, v = iterate(I, kv)
                dict_set(I, d, k, v)
    for k, v in kwargs.items():
        dict_set(I, d, VStr(k), v)
    return d


@register(str)
def _str(I: Interp, args: list[V], kwargs: dict[str, V]) -> V:
    if not args:
        return VStr("")
    py = _concrete_py(args[0])
    if py is not _NOCONC and not isinstance(py, type):
        return VStr(str(py))
    if isinstance(args[0], VStr):
        return args[0]
    return VStr()


@register(repr)
def _repr(I: Interp, args: list[V], kwargs: dict[str, V]) -> V:
    py = _concrete_py(args[0])
    if py is not _NOCONC:
        return VStr(repr(py))
    return VStr()


@register(hex)
def _hex(I: Interp, args: list[V], kwargs: dict[str, V]) -> V:
    py = _concrete_py(args[0])
    if py is not _NOCONC:
        return VStr(hex(py))
    if args[0] is NONE:
        I.raise_py(TypeError, "'NoneType' object cannot be interpreted as an integer")
    return VStr()


@register(max)
def _max(I: Interp, args: list[V], kwargs: dict[str, V]) -> V:
    return _minmax(I, args, kwargs, True)


@register(min)
def _min(I: Interp, args: list[V], kwargs: dict[str, V]) -> V:
    return _minmax(I, args, kwargs, False)


def _minmax(I: Interp, args: list[V], kwargs: dict[str, V], is_max: bool) -> V:
    if "key" in kwargs:
        raise Unsupported("min/max with key")
    items = iterate(I, args[0]) if len(args) == 1 else args
    if not items:
        if "default" in kwargs:
            return kwargs["default"]
        I.raise_py(ValueError, "max() arg is an empty sequence")
    acc = items[0]
    for x in items[1:]:
        if isinstance(acc, VFloat) or isinstance(x, VFloat):
            a, b = to_real(acc), to_real(x)
            acc = VFloat(z3.If((b > a) if is_max else (b < a), b, a))
        else:
            a, b = as_int(I, acc), as_int(I, x)
            acc = VInt(z3.If((b > a) if is_max else (b < a), b, a))
    return acc


@register(abs)
def _abs(I: Interp, args: list[V], kwargs: dict[str, V]) -> V:
    x = as_int(I, args[0])
    return VInt(z3.If(x < 0, -x, x))


@register(math.ceil)
def _ceil(I: Interp, args: list[V], kwargs: dict[str, V]) -> V:
    v = args[0]
    if is_intlike(v):
        return VInt(as_int(I, v))
    assert isinstance(v, VFloat)
    c = v.concrete()
    if c is not None:
        return VInt(math.ceil(c))
    return VInt(-z3.ToInt(-v.t))  # ceil(r) == -floor(-r); z3 to_int is floor


@register(math.floor)
def _floor(I: Interp, args: list[V], kwargs: dict[str, V]) -> V:
    v = args[0]
    if is_intlike(v):
        return VInt(as_int(I, v))
    return VInt(z3.ToInt(v.t))  # type: ignore[attr-defined]


@register(range)
def _range(I: Interp, args: list[V], kwargs: dict[str, V]) -> V:
    ts = [as_int(I, a) for a in args]
    cs = [VInt(t).concrete() for t in ts]
    if all(c is not None for c in cs):
        r = range(*cs)  # type: ignore[arg-type]
        if len(r) <= 4096:
            return VList([VInt(x) for x in r], kind="range")
    if len(ts) == 1:
        start, stop, step = z3.IntVal(0), ts[0], 1
    elif len(ts) == 2:
        start, stop, step = ts[0], ts[1], 1
    else:
        start, stop = ts[0], ts[1]
        if cs[2] is None:
            cs[2] = I.concrete_value(ts[2])  # a step the path condition fixes
        if cs[2] is None:
            raise Unsupported("range with symbolic step")
        step = cs[2]
    if step <= 0:
        raise Unsupported("range with non-positive symbolic bounds step")
    n = z3.If(stop > start, (stop - start + (step - 1)) / step, z3.IntVal(0))
    return VList(None, simp(n), lambda j: VInt(start + step * j), kind="range")


import itertools as _it  # noqa: E402


@register(_it.product)
def _product(I: Interp, args: list[V], kwargs: dict[str, V]) -> V:
    lists = [a if isinstance(a, VList) else VList(iterate(I, a)) for a in args]
    if all(l.items is not None for l in lists):
        return VList([VTuple(list(t)) for t in _it.product(*[l.items for l in lists])])
    if len(lists) == 2 and lists[0].items is None and lists[1].items is not None \
            and len(lists[1].items) >= 1:
        m = len(lists[1].items)
        a, b = lists
        return VList(None, simp(a.n * m),
                     lambda j: VTuple([a.at(simp(j / m)), b.at(simp(j % m))]))
    raise Unsupported("itertools.product over these operands")


@register(map)
def _map(I: Interp, args: list[V], kwargs: dict[str, V]) -> V:
    if len(args) != 2:
        raise Unsupported("map with several iterables")
    return VList([I.call_v(args[0], [x], {}) for x in iterate(I, args[1])])


@register(zip)
def _zip(I: Interp, args: list[V], kwargs: dict[str, V]) -> V:
    lists = [a if isinstance(a, (VList,)) else VList(iterate(I, a)) for a in args]
    if all(l.items is not None for l in lists):
        n = min(len(l.items) for l in lists) if lists else 0  # type: ignore[arg-type]
        return VList([VTuple([l.items[i] for l in lists]) for i in range(n)])  # type: ignore
    n = lists[0].length()
    for l in lists[1:]:
        ln = l.length()
        n = z3.If(ln < n, ln, n)
    return VList(None, simp(n), lambda j: VTuple([l.at(j) for l in lists]))


@register(enumerate)
def _enumerate(I: Interp, args: list[V], kwargs: dict[str, V]) -> V:
    start = 0
    if len(args) > 1:
        start = VInt(as_int(I, args[1])).concrete() or 0
    src = args[0]
    if isinstance(src, VList) and src.items is None:
        return VList(None, src.n, lambda j: VTuple([VInt(j + start), src.at(j)]))
    return VList([VTuple([VInt(i + start), x]) for i, x in enumerate(iterate(I, src))])


@register(reversed)
def _reversed(I: Interp, args: list[V], kwargs: dict[str, V]) -> V:
    src = args[0]
    if isinstance(src, VList) and src.items is None:
        n = src.n
        return VList(None, n, lambda j: src.at(n - 1 - j))
    return VList(list(reversed(iterate(I, src))))


@register(sorted)
def _sorted(I: Interp, args: list[V], kwargs: dict[str, V]) -> V:
    items = iterate(I, args[0])
    pys = [_concrete_py(x) for x in items]
    if all(p is not _NOCONC for p in pys) and "key" not in kwargs:
        order = sorted(range(len(items)), key=lambda i: pys[i],
                       reverse=bool(_concrete_py(kwargs.get("reverse", VBool(False)))))
        return VList([items[i] for i in order])
    if len(items) <= 4 and not _concrete_py(kwargs.get("reverse", VBool(False))):
        # a short concrete-spine list of symbolic ints / tuples of ints: insertion sort with one
        # fork per comparison (stable, as sorted() is)
        keyf = kwargs.get("key")
        keys = [I.call_v(keyf, [x], {}) if keyf is not None else x for x in items]

        def less(a: V, b: V) -> bool:
            if isinstance(a, VTuple) and isinstance(b, VTuple):
                for x, y in zip(a.items, b.items):
                    if less(x, y):
                        return True
                    if less(y, x):
                        return False
                return len(a.items) < len(b.items)
            if is_intlike(a) and is_intlike(b):
                return I.branch(as_int(I, a) < as_int(I, b))
            raise Unsupported("sorted on symbolic elements")
        order2: list[int] = []
        for i in range(len(items)):
            pos = len(order2)
            while pos > 0 and less(keys[i], keys[order2[pos - 1]]):
                pos -= 1
            order2.insert(pos, i)
        return VList([items[i] for i in order2])
    raise Unsupported("sorted on symbolic elements")


@register(any)
def _any(I: Interp, args: list[V], kwargs: dict[str, V]) -> V:
    src = args[0]
    if isinstance(src, VList) and src.items is None:
        from . import loops
        return VBool(loops.exists_fn(I, src.length(), lambda j: I.truth(src.at(j))))
    for x in iterate(I, src):
        if I.branch(x):
            return VBool(True)
    return VBool(False)


@register(all)
def _all(I: Interp, args: list[V], kwargs: dict[str, V]) -> V:
    src = args[0]
    if isinstance(src, VList) and src.items is None:
        from . import loops
        return VBool(z3.Not(loops.exists_fn(I, src.length(),
                                            lambda j: neg_t(I.truth(src.at(j))))))
    for x in iterate(I, src):
        if not I.branch(x):
            return VBool(False)
    return VBool(True)


def neg_t(t: Any) -> Any:
    return z3.BoolVal(not t) if isinstance(t, bool) else z3.Not(t)


@register(sum)
def _sum(I: Interp, args: list[V], kwargs: dict[str, V]) -> V:
    acc: Any = z3.IntVal(0) if len(args) < 2 else as_int(I, args[1])
    for x in iterate(I, args[0]):
        acc = acc + as_int(I, x)
    return VInt(acc)


@register(getattr)
def _getattr(I: Interp, args: list[V], kwargs: dict[str, V]) -> V:
    name = args[1]
    if not isinstance(name, VStr) or name.s is None:
        raise Unsupported("getattr with symbolic name")
    if len(args) == 3:
        try:
            return I.getattr_v(args[0], name.s)
        except PyExc as e:
            if issubclass(e.exc.cls, AttributeError):
                return args[2]
            raise
    return I.getattr_v(args[0], name.s)


@register(hasattr)
def _hasattr(I: Interp, args: list[V], kwargs: dict[str, V]) -> V:
    name = args[1]
    assert isinstance(name, VStr) and name.s is not None
    try:
        I.getattr_v(args[0], name.s)
        return VBool(True)
    except PyExc as e:
        if issubclass(e.exc.cls, AttributeError):
            return VBool(False)
        raise


@register(setattr)
def _setattr(I: Interp, args: list[V], kwargs: dict[str, V]) -> V:
    name = args[1]
    assert isinstance(name, VStr) and name.s is not None
    I.setattr_v(args[0], name.s, args[2])
    return NONE


@register(print)
def _print(I: Interp, args: list[V], kwargs: dict[str, V]) -> V:
    return NONE


@register(struct.pack)
def _pack(I: Interp, args: list[V], kwargs: dict[str, V]) -> V:
    return model_pack(I, args, kwargs)


@register(struct.unpack)
def _unpack(I: Interp, args: list[V], kwargs: dict[str, V]) -> V:
    return model_unpack(I, args, kwargs)


@register(int.from_bytes)
def _from_bytes(I: Interp, args: list[V], kwargs: dict[str, V]) -> V:
    b = args[0]
    order = args[1] if len(args) > 1 else kwargs.get("byteorder", VStr("big"))
    if not isinstance(b, VBytes):
        I.raise_py(TypeError, "cannot convert object to bytes")
    if not (isinstance(order, VStr) and order.s == "big") or kwargs.get("signed") is not None:
        raise Unsupported("int.from_bytes other than unsigned big-endian")
    return VInt(mk_fb(I, b.t))


@register(binascii.hexlify)
def _hexlify(I: Interp, args: list[V], kwargs: dict[str, V]) -> V:
    from . import strings
    return strings.hexlify(I, args[0])


@register(binascii.unhexlify)
def _unhexlify(I: Interp, args: list[V], kwargs: dict[str, V]) -> V:
    from . import strings
    return strings.unhexlify(I, args[0])


@register(id)
def _id(I: Interp, args: list[V], kwargs: dict[str, V]) -> V:
    raise Unsupported("id()")


import copy as _copy  # noqa: E402


@register(_copy.copy)
def _copy_copy(I: Interp, args: list[V], kwargs: dict[str, V]) -> V:
    v = args[0]
    if isinstance(v, VObj):
        return VObj(v.cls, dict(v.fields), v.lazy, v.tag, v.ann)
    if isinstance(v, VList):
        return VList(list(v.items) if v.items is not None else None, v.n, v.get, v.kind)
    if isinstance(v, VDict):
        return VDict(list(v.items))
    return v


@register(_copy.deepcopy)
def _copy_deepcopy(I: Interp, args: list[V], kwargs: dict[str, V]) -> V:
    def dc(v: V) -> V:
        if isinstance(v, VObj):
            return VObj(v.cls, {k: dc(x) for k, x in v.fields.items()}, v.lazy, v.tag, v.ann)
        if isinstance(v, VList):
            return VList([dc(x) for x in v.items] if v.items is not None else None, v.n, v.get,
                         v.kind)
        if isinstance(v, VDict):
            return VDict([(dc(k), dc(x)) for k, x in v.items])
        if isinstance(v, VTuple):
            return VTuple([dc(x) for x in v.items])
        return v
    return dc(args[0])


# --------------------------------------------------------------------------- native methods
def native_attr(I: Interp, v: V, name: str) -> V:
    if isinstance(v, VSymMap):
        return VBound(name, v)
    if isinstance(v, VInt):
        if name in ("to_bytes", "bit_length", "from_bytes"):
            return VBound(name, v)
        if v.enum is not None:
            found = I.class_lookup(v.enum, name)
            if found and isinstance(found[1], (types.FunctionType, property, classmethod,
                                               staticmethod)):
                return I.bind_class_attr(found[0], found[1], v, v.enum)
            if name in getattr(v.enum, "__members__", {}):
                return wrap(v.enum.__members__[name])
            c = v.concrete()
            if name == "value":
                return VInt(v.t)
            if name == "name":
                if c is not None:
                    return VStr(v.enum(c).name)
                return VStr()
        if name == "real":
            return v
    if isinstance(v, VBool) and name in ("to_bytes", "bit_length"):
        return VBound(name, VInt(z3.If(v.t, 1, 0)))
    if isinstance(v, (VBytes, VList, VDict, VStr, VTuple, VFloat)):
        return VBound(name, v)
    if v is NONE:
        I.raise_py(AttributeError, f"'NoneType' object has no attribute '{name}'")
    if isinstance(v, VBound):
        if name == "__name__":
            return VStr(getattr(v.func, "__name__", str(v.func)))
        if name == "__self__":
            return v.recv
    if isinstance(v, VCoro):
        raise Unsupported("attribute of coroutine")
    raise Unsupported(f"attribute {name} of {v!r}")


def native_method(I: Interp, recv: V, name: str, args: list[V], kwargs: dict[str, V]) -> V:
    from . import strings
    if name.startswith("stub:") and isinstance(recv, VObj):
        return I.ex.stubs[(recv.tag, name[5:])](I, recv, args, kwargs)
    if name == "__base_init__" and isinstance(recv, VObj):
        # object.__init__ / BaseException.__init__
        if issubclass(recv.cls, BaseException):
            recv.fields["args"] = VTuple(args)
        return NONE
    if isinstance(recv, VInt):
        if name == "to_bytes":
            length = args[0] if args else kwargs.get("length", VInt(1))
            order = args[1] if len(args) > 1 else kwargs.get("byteorder", VStr("big"))
            if not (isinstance(order, VStr) and order.s == "big") or "signed" in kwargs:
                raise Unsupported("to_bytes other than unsigned big-endian")
            n = as_int(I, length)
            if I.branch(n < 0):
                I.raise_py(ValueError, "length argument must be non-negative")
            if I.branch(recv.t < 0):
                I.raise_py(OverflowError, "can't convert negative int to unsigned")
            if I.branch(recv.t >= pow256(n)):
                I.raise_py(OverflowError, "int too big to convert")
            return VBytes(mk_be(I, recv.t, n))
        if name == "bit_length":
            c = recv.concrete()
            if c is not None:
                return VInt(c.bit_length())
            b = BL(recv.t)
            ax = z3.If(recv.t >= 0, recv.t, -recv.t)
            I.assume(b >= 0)
            I.assume(z3.Implies(ax == 0, b == 0))
            I.assume(z3.Implies(ax > 0, z3.And(b >= 1, pow2(b - 1) <= ax, ax < pow2(b))))
            I.assume(z3.Implies(b > 128, P2BIG(b - 1) >= 2 ** 128))
            return VInt(b)
    if isinstance(recv, VSymMap):
        if name == "values":
            return recv.values_list()
        if name == "keys":
            return recv.keys_list()
        if name == "items":
            return VList(None, recv.n, lambda j: VTuple([recv.key_at(j),
                                                         recv.get(recv.key_at(j))]))
        if name == "get":
            if I.branch(recv.has(args[0])):
                return recv.get(args[0])
            return args[1] if len(args) > 1 else NONE
        raise Unsupported(f"symbolic map method {name}")
    if isinstance(recv, VBytes):
        return strings.bytes_method(I, recv, name, args, kwargs)
    if isinstance(recv, VStr):
        return strings.str_method(I, recv, name, args, kwargs)
    if isinstance(recv, VList):
        return list_method(I, recv, name, args, kwargs)
    if isinstance(recv, VDict):
        return dict_method(I, recv, name, args, kwargs)
    if isinstance(recv, VTuple):
        if name == "index":
            for i, x in enumerate(recv.items):
                if I.branch(mk_eq(I, x, args[0])):
                    return VInt(i)
            I.raise_py(ValueError, "tuple.index(x): x not in tuple")
        if name == "count":
            return VInt(z3.Sum(*[z3.If(_b(mk_eq(I, x, args[0])), 1, 0) for x in recv.items])
                        if recv.items else 0)
    if isinstance(recv, VFloat) and name == "is_integer":
        return VBool(z3.IsInt(recv.t))
    raise Unsupported(f"method {name} of {recv!r}")


def _b(x: Any) -> Any:
    return z3.BoolVal(x) if isinstance(x, bool) else x


def list_method(I: Interp, recv: VList, name: str, args: list[V], kwargs: dict[str, V]) -> V:
    if recv.kind == "set":
        if name == "add":
            set_add(I, recv, args[0])
            return NONE
        if name == "update":
            for x in iterate(I, args[0]):
                set_add(I, recv, x)
            return NONE
        if name in ("discard", "remove"):
            assert recv.items is not None
            for i, y in enumerate(recv.items):
                if I.branch(mk_eq(I, args[0], y)):
                    del recv.items[i]
                    return NONE
            if name == "remove":
                I.raise_py(KeyError, "element")
            return NONE
        if name == "copy":
            return VList(list(recv.items or []), kind="set")
    if name == "append":
        if recv.items is not None:
            recv.items.append(args[0])
        else:
            n, g, x = recv.n, recv.get, args[0]
            recv.get = lambda j, n=n, g=g, x=x: _ite_v(I, j < n, lambda: g(j), lambda: x)
            recv.n = n + 1
            if recv.member is not None:
                old = recv.member
                recv.member = lambda v, old=old, x=x: z3.Or(_b(old(v)), _b(mk_eq(I, v, x)))
        return NONE
    if name == "extend":
        other = args[0]
        if recv.items is not None:
            recv.items.extend(iterate(I, other))
            return NONE
        raise Unsupported("extend of functional list")
    if name == "copy":
        return VList(list(recv.items) if recv.items is not None else None, recv.n, recv.get)
    if recv.items is not None:
        if name == "pop":
            if not recv.items:
                I.raise_py(IndexError, "pop from empty list")
            idx = VInt(as_int(I, args[0])).concrete() if args else -1
            if idx is None:
                raise Unsupported("pop at symbolic index")
            if not -len(recv.items) <= idx < len(recv.items):
                I.raise_py(IndexError, "pop index out of range")
            return recv.items.pop(idx)
        if name == "insert":
            idx = VInt(as_int(I, args[0])).concrete()
            if idx is None:
                raise Unsupported("insert at symbolic index")
            recv.items.insert(idx, args[1])
            return NONE
        if name == "index":
            for i, x in enumerate(recv.items):
                if I.branch(mk_eq(I, x, args[0])):
                    return VInt(i)
            I.raise_py(ValueError, "x not in list")
        if name == "remove":
            for i, x in enumerate(recv.items):
                if I.branch(mk_eq(I, x, args[0])):
                    del recv.items[i]
                    return NONE
            I.raise_py(ValueError, "list.remove(x): x not in list")
        if name == "clear":
            recv.items.clear()
            return NONE
        if name == "reverse":
            recv.items.reverse()
            return NONE
        if name == "sort":
            r = _sorted(I, [recv], kwargs)
            assert isinstance(r, VList) and r.items is not None
            recv.items[:] = r.items
            return NONE
        if name == "count":
            return VInt(z3.Sum(*[z3.If(_b(mk_eq(I, x, args[0])), 1, 0) for x in recv.items])
                        if recv.items else 0)
    raise Unsupported(f"list method {name}")


def dict_method(I: Interp, recv: VDict, name: str, args: list[V], kwargs: dict[str, V]) -> V:
    if name == "items":
        return VList([VTuple([k, v]) for k, v in recv.items])
    if name == "keys":
        return VList([k for k, _ in recv.items])
    if name == "values":
        return VList([v for _, v in recv.items])
    if name == "get":
        return dict_get(I, recv, args[0], default=args[1] if len(args) > 1 else NONE)
    if name == "copy":
        return VDict(list(recv.items))
    if name == "update":
        if args:
            src = args[0]
            if isinstance(src, VDict):
                for k, v in src.items:
                    dict_set(I, recv, k, v)
            else:
                for kv in iterate(I, src):
                    k, v = iterate(I, kv)
                    dict_set(I, recv, k, v)
        for k, v in kwargs.items():
            dict_set(I, recv, VStr(k), v)
        return NONE
    if name == "pop":
        for i, (k, v) in enumerate(recv.items):
            if I.branch(mk_eq(I, k, args[0])):
                del recv.items[i]
                return v
        if len(args) > 1:
            return args[1]
        I.raise_py(KeyError, "key")
    if name == "setdefault":
        for i, (k, v) in enumerate(recv.items):
            if I.branch(mk_eq(I, k, args[0])):
                return v
        d = args[1] if len(args) > 1 else NONE
        recv.items.append((args[0], d))
        return d
    if name == "clear":
        recv.items.clear()
        return NONE
    raise Unsupported(f"dict method {name}")


# --------------------------------------------------------------------------- with / match
WITH_MODELS: list[Callable] = []


def with_stmt(I: Interp, st: Any, fr: Frame) -> None:
    """`with`/`async with` on declared context managers (contracts registered per property)."""
    items = st.items

    def run(k: int) -> None:
        if k == len(items):
            I.exec_block(st.body, fr)
            return
        it = items[k]
        cm = I.eval(it.context_expr, fr)
        handler = None
        for wm in WITH_MODELS:
            handler = wm(I, cm)
            if handler is not None:
                break
        if handler is None and isinstance(cm, VObj):
            en, ex_ = I.class_lookup(cm.cls, "__enter__"), I.class_lookup(cm.cls, "__exit__")
            if en and ex_ and isinstance(en[1], types.FunctionType):
                def _exit(exc: Any, cm: VObj = cm) -> bool:
                    r = I.call_py(ex_[1], [cm, NONE, exc if exc is not None else NONE, NONE],
                                  {}, ex_[0])
                    t = I.truth(r)
                    return bool(t) if isinstance(t, bool) else False
                handler = ((lambda cm=cm: I.call_py(en[1], [cm], {}, en[0])), _exit)
        if handler is None:
            raise Unsupported(f"with-statement on {cm!r} without a context-manager contract")
        enter, exit_ = handler
        val = enter()
        if it.optional_vars is not None:
            I.assign(it.optional_vars, val, fr)
        from .engine import _Return, _Break, _Continue
        try:
            run(k + 1)
        except PyExc as pe:
            suppressed = exit_(pe.exc)
            if not suppressed:
                raise
        except (_Return, _Break, _Continue):
            exit_(None)
            raise
        else:
            exit_(None)
    run(0)


def match_stmt(I: Interp, st: Any, fr: Frame) -> None:
    subj = I.eval(st.subject, fr)
    for case in st.cases:
        ok = match_pattern(I, case.pattern, subj, fr)
        if ok and (case.guard is None or I.branch(I.eval(case.guard, fr))):
            I.exec_block(case.body, fr)
            return


def match_pattern(I: Interp, pat: Any, subj: V, fr: Frame) -> bool:
    if isinstance(pat, ast.MatchValue):
        return I.branch(mk_eq(I, subj, I.eval(pat.value, fr)))
    if isinstance(pat, ast.MatchSingleton):
        return I.branch(identical(subj, wrap(pat.value)))
    if isinstance(pat, ast.MatchAs):
        if pat.pattern is not None and not match_pattern(I, pat.pattern, subj, fr):
            return False
        if pat.name is not None:
            fr.env[pat.name] = subj
        return True
    if isinstance(pat, ast.MatchOr):
        return any(match_pattern(I, p, subj, fr) for p in pat.patterns)
    if isinstance(pat, ast.MatchClass):
        cls = I.eval(pat.cls, fr)
        assert isinstance(cls, VConst)
        if not py_isinstance(I, subj, cls.py):
            return False
        if pat.patterns or pat.kwd_patterns:
            for name, p in zip(pat.kwd_attrs, pat.kwd_patterns):
                if not match_pattern(I, p, I.getattr_v(subj, name), fr):
                    return False
            if pat.patterns:
                raise Unsupported("positional class patterns")
        return True
    if isinstance(pat, ast.MatchSequence):
        if not isinstance(subj, (VTuple, VList)) or getattr(subj, "items", None) is None:
            return False
        if len(pat.patterns) != len(subj.items) or any(isinstance(p, ast.MatchStar)
                                                      for p in pat.patterns):
            if any(isinstance(p, ast.MatchStar) for p in pat.patterns):
                raise Unsupported("star pattern")
            return False
        return all(match_pattern(I, p, x, fr) for p, x in zip(pat.patterns, subj.items))
    raise Unsupported(f"pattern {type(pat).__name__}")
