"""pyvc - contract-based deductive verification of real Python functions (see /verif/DESIGN.md)."""
