"""Running verification units in parallel, verdicts, replay files, evidence, exit codes.

Exit codes of a check (DESIGN 3.6): 0 held (known findings only print KNOWN-FINDING lines),
1 violation, 2 undecided, 3 checker error (outside subset, crash, zero obligations, vanished
obligations).
"""
from __future__ import annotations

import fnmatch
import json
import multiprocessing as mp
import os
import re
import signal
import sys
import time
import traceback
from typing import Any, Callable

ROOT = os.path.dirname(os.path.dirname(os.path.abspath(__file__)))
# evidence/replay output root: /verif itself, except for self-tests on scratch copies
OUT = os.environ.get("PYVC_OUT", ROOT)


class Unit:
    def __init__(self, uid: str, fn: Callable[[Any], None], setup: Callable | None = None,
                 max_paths: int = 4000, query_timeout_ms: int = 90000, bounded: str = "",
                 allow_empty: bool = False):
        self.uid = uid
        self.fn = fn
        self.setup = setup
        self.max_paths = max_paths
        self.query_timeout_ms = query_timeout_ms
        self.bounded = bounded  # non-empty: this unit is a labelled bounded stand-in
        self.allow_empty = allow_empty  # every path may end before an obligation (e.g. refusal)


class UnitTimeout(Exception):
    pass


def _alarm(signum: int, frame: Any) -> None:
    # raising here could land inside a z3 destructor and be swallowed: set a flag that the
    # engine polls at every statement / solver call instead
    from . import engine
    engine.DEADLINE_PASSED = True


def _run_unit(unit: Unit) -> dict:
    import signal
    from .engine import Explorer
    from .values import Unsupported
    t0 = time.time()
    limit = int(os.environ.get("PYVC_UNIT_TIMEOUT", "600"))
    log = os.environ.get("PYVC_LOG")
    if log:
        with open(log, "a") as f:
            f.write(f"START {unit.uid}\n")
    from . import engine as _engine
    _engine.DEADLINE_PASSED = False
    try:
        signal.signal(signal.SIGALRM, _alarm)
        signal.alarm(limit)
    except ValueError:
        pass
    ex = Explorer(unit.uid, max_paths=unit.max_paths, query_timeout_ms=unit.query_timeout_ms)
    if unit.setup:
        unit.setup(ex)
    err = None
    kind = None
    try:
        ex.run(unit.fn)
    except Unsupported as e:
        err, kind = str(e), "outside-subset"
        if os.environ.get("PYVC_TRACE"):
            err += "\n" + traceback.format_exc()
    except (UnitTimeout, _engine.DeadlinePassed):
        err, kind = f"unit exceeded its wall-clock budget of {limit}s", "timeout"
    except RecursionError as e:
        err, kind = f"RecursionError {e}", "crash"
    except Exception:
        err, kind = traceback.format_exc(), "crash"
    try:
        signal.alarm(0)
    except ValueError:
        pass
    if log:
        with open(log, "a") as f:
            f.write(f"END {unit.uid} {time.time() - t0:.1f}s paths={ex.paths} err={kind}\n")
    return {"unit": unit.uid, "obligations": [o.to_json() for o in ex.obligations],
            "functions": ex.functions, "paths": ex.paths, "normal_paths": ex.normal_paths,
            "solver_ms": round(ex.solver_ms, 1), "wall_s": round(time.time() - t0, 2),
            "error": err, "error_kind": kind, "bounded": unit.bounded,
            "extra": getattr(ex, "extra", None), "allow_empty": unit.allow_empty,
            "assumptions": sorted(ex.assumptions)}


class NativeTimeout(Exception):
    pass


def _bounded(fn: Callable[..., Any], seconds: int, *args: Any) -> Any:
    """Run a native replay/search under a wall-clock limit (the changed code may hang)."""
    def onalarm(sig: int, frame: Any) -> None:
        raise NativeTimeout(f"native run exceeded {seconds}s")
    try:
        old = signal.signal(signal.SIGALRM, onalarm)
    except ValueError:
        return fn(*args)
    signal.alarm(seconds)
    try:
        return fn(*args)
    finally:
        signal.alarm(0)
        signal.signal(signal.SIGALRM, old)


_UNITS: list[Unit] = []


def _worker(i: int) -> dict:
    return _run_unit(_UNITS[i])


def run_units(units: list[Unit], jobs: int = 16) -> list[dict]:
    global _UNITS
    _UNITS = units
    if jobs <= 1 or len(units) <= 1:
        return [_run_unit(u) for u in units]
    # one forked process per unit: nothing a harness registers (models, contracts, caches, z3
    # term ids) can leak into another unit, so a unit's verdict does not depend on scheduling
    ctx = mp.get_context("fork")
    with ctx.Pool(min(jobs, len(units)), maxtasksperchild=1) as pool:
        return pool.map(_worker, range(len(units)), chunksize=1)


def load_known(prop: str) -> list[dict]:
    p = os.path.join(ROOT, "known_findings.json")
    if not os.path.exists(p):
        return []
    return [k for k in json.load(open(p)) if k.get("property") == prop]


def sanitize(s: str) -> str:
    return re.sub(r"[^A-Za-z0-9_.-]+", "_", s)[:150]


class Check:
    def __init__(self, prop: str, module: str, tier: str, seed: int, level: str = "proof"):
        self.prop = prop
        self.module = module  # python module providing native_replay/native_search
        self.tier = tier
        self.seed = seed
        self.level = level
        self.t0 = time.time()
        self.extra: dict[str, Any] = {}
        self.assumptions: list[str] = []
        self.trusted_base: list[str] = []
        self.bounded_results: list[dict] = []
        self.search_deadline = time.time() + 10 ** 9
        self.native_deadline = time.time() + 10 ** 9

    def finish(self, results: list[dict], replay: Callable | None = None,
               search: Callable | None = None, rule: str = "") -> int:
        known = load_known(self.prop)
        self.search_deadline = time.time() + 90  # total budget for native witness searches
        self.native_deadline = time.time() + 300  # total budget for native replays + searches
        if os.environ.get("PYVC_DUMP"):
            json.dump(results, open(os.environ["PYVC_DUMP"], "w"), indent=1, default=str)
        expected_path = os.path.join(ROOT, "contracts", "expected", f"{self.prop}.json")
        lines: list[str] = []
        errors = [r for r in results if r["error"]]
        obs = [(r["unit"], o) for r in results for o in r["obligations"]]
        n_ob = len(obs)
        failed = [(u, o) for u, o in obs if o["status"] == "failed"]
        undecided = [(u, o) for u, o in obs if o["status"] == "undecided"]
        discharged = [(u, o) for u, o in obs if o["status"] == "discharged"]
        names = sorted({f"{u}::{o['name']}" for u, o in obs})
        violations = 0
        aux_undecided: list[tuple[str, dict, str]] = []
        known_hits: list[str] = []
        known_ob = 0
        os.makedirs(os.path.join(OUT, "replay", self.prop), exist_ok=True)
        seen: set[str] = set()
        for u, o in failed + undecided:
            oid = f"{u}::{o['name']}"
            kf = next((k for k in known if k.get("status") == "known"
                       and fnmatch.fnmatch(oid, k["obligation"])), None)
            if o["status"] == "undecided" and kf is None:
                continue
            if kf is not None:
                known_ob += 1
                if kf["obligation"] not in known_hits:
                    known_hits.append(kf["obligation"])
                    lines.append(f"KNOWN-FINDING: property={self.prop} {kf['what']} "
                                 f"[{kf['obligation']}]")
                continue
            if oid in seen:
                continue
            seen.add(oid)
            # a failed obligation that is not a listed finding: violation
            model = o.get("model")
            reproduced, msg = False, ""
            native_left = time.time() < self.native_deadline
            if not native_left:
                msg = ("native replay budget of this run is used up (the obligation failed; "
                       "run the replay file for the native scenario)")
            if replay is not None and model is not None and native_left:
                try:
                    reproduced, msg = _bounded(replay, 60, u, o["name"], model)
                except Exception:
                    msg = "replay crashed: " + traceback.format_exc()
            if not reproduced and search is not None and native_left \
                    and time.time() < self.search_deadline:
                try:
                    found = _bounded(search, 120, u, o["name"], self.seed)
                except Exception:
                    found = None
                    msg += "\nsearch crashed: " + traceback.format_exc()
                if found is not None:
                    model = found
                    try:
                        reproduced, msg2 = _bounded(replay, 60, u, o["name"], model) \
                            if replay else (False, "")
                        msg += "\n[witness found by native search over the obligation's " \
                               "input space]\n" + msg2
                    except Exception:
                        msg += "\nreplay of searched witness crashed"
            path = self.write_replay(u, o, model, msg, reproduced)
            if not reproduced and re.search(r"/loop\d+/", o["name"]):
                # an auxiliary loop invariant / variant that is no longer re-established means
                # the *proof* broke (e.g. the loop was restructured); without a failing input on
                # the real code the property is undecided, not violated
                aux_undecided.append((u, o, path))
                continue
            violations += 1
            tail = "" if reproduced else " no-failing-input-found"
            lines.append(f"VIOLATION property={self.prop} replay={path}{tail}")
        # vanished obligations / vacuity
        rc = 0
        if os.path.exists(expected_path) and not os.environ.get("PYVC_UPDATE_EXPECTED"):
            exp = set(json.load(open(expected_path)))
            missing = sorted(exp - set(names))
            if missing and not errors:
                lines.append(f"CHECKER-ERROR property={self.prop} {len(missing)} expected "
                             f"obligations were not generated, e.g. {missing[:3]}")
                rc = 3
        if os.environ.get("PYVC_UPDATE_EXPECTED"):
            os.makedirs(os.path.dirname(expected_path), exist_ok=True)
            json.dump(names, open(expected_path, "w"), indent=0)
        if n_ob == 0:
            lines.append(f"CHECKER-ERROR property={self.prop} zero obligations generated")
            rc = 3
        # vacuity per unit: a unit that ran to its end without a single obligation decided nothing
        empty = [r["unit"] for r in results if not r["obligations"] and not r["error"]
                 and not r.get("allow_empty")]
        self.extra["units_without_obligations"] = empty[:20]
        if empty and not os.environ.get("PYVC_ALLOW_EMPTY_UNITS"):
            lines.append(f"CHECKER-ERROR property={self.prop} {len(empty)} units generated no "
                         f"obligation (vacuous), e.g. {empty[:3]}")
            rc = 3
        for r in errors:
            first = (r["error"] or "").strip().splitlines()
            lines.append(f"CHECKER-ERROR property={self.prop} unit={r['unit']} "
                         f"{r['error_kind']}: {first[-1] if first else ''}")
            rc = 3
        und_real = [(u, o) for u, o in undecided
                    if not any(k.get("status") == "known"
                               and fnmatch.fnmatch(f"{u}::{o['name']}", k["obligation"])
                               for k in known)]
        if und_real and rc == 0:
            rc = 2
            for u, o in und_real[:10]:
                lines.append(f"UNDECIDED property={self.prop} {u}::{o['name']}")
        if aux_undecided and rc == 0:
            rc = 2
        for u, o, path in aux_undecided[:10]:
            lines.append(f"UNDECIDED property={self.prop} {u}::{o['name']} (loop invariant not "
                         f"re-established, no failing input found on the real code: the proof "
                         f"broke, the property is not decided; see {path})")
        if violations:
            rc = 1
        self.write_evidence(results, n_ob, len(discharged), known_ob, len(und_real), violations,
                            rule, known_hits)
        for ln in lines:
            print(ln)
        print(f"{self.prop}: {len(results)} units, {n_ob} obligations, {len(discharged)} "
              f"discharged, {known_ob} under known findings, {len(und_real)} undecided, "
              f"{violations} violations, {len(errors)} unit errors, "
              f"{time.time() - self.t0:.1f}s -> exit {rc}")
        return rc

    def write_replay(self, unit: str, o: dict, model: Any, msg: str, reproduced: bool) -> str:
        path = os.path.join(OUT, "replay", self.prop, sanitize(f"{unit}__{o['name']}") + ".py")
        body = f'''#!/usr/bin/env python3
"""Replay of a failed proof obligation.

property   : {self.prop}
unit       : {unit}
obligation : {o['name']}
back end   : {o['backend']}  status={o['status']}
detail     : {o.get('detail', '')}
reproduced on the real code when this file was written: {reproduced}

solver counter-model (inputs of the verification unit):
{json.dumps(o.get('model'), indent=1, default=str)}

replay output when written:
{msg}
"""
import os, sys
ROOT = os.environ.get("PYVC_ROOT") or os.path.dirname(os.path.dirname(os.path.dirname(
    os.path.abspath(__file__))))
sys.path.insert(0, ROOT)
UNIT = {unit!r}
OBLIGATION = {o['name']!r}
MODEL = {model!r}
if __name__ == "__main__":
    import importlib
    mod = importlib.import_module({self.module!r})
    if MODEL is None:
        print("no failing input was found for this obligation (solver output above)")
        sys.exit(2)
    ok, text = mod.native_replay(UNIT, OBLIGATION, MODEL)
    print(text)
    sys.exit(1 if ok else 0)
'''
        with open(path, "w") as f:
            f.write(body)
        return path

    def write_evidence(self, results: list[dict], n_ob: int, n_dis: int, known_ob: int,
                       n_und: int, violations: int, rule: str, known_hits: list[str]) -> None:
        fns: dict[str, str] = {}
        backends: dict[str, int] = {}
        for r in results:
            fns.update(r["functions"])
            for o in r["obligations"]:
                if o["status"] == "discharged":
                    backends[o["backend"]] = backends.get(o["backend"], 0) + 1
        samples = []
        for r in results[:400]:
            for o in r["obligations"][:1]:
                samples.append({"unit": r["unit"], "obligation": o["name"],
                                "status": o["status"], "backend": o["backend"], "ms": o["ms"]})
            if len(samples) >= 12:
                break
        proved_units = [r for r in results if not r["bounded"]]
        bounded_units = [r for r in results if r["bounded"]]
        cov: dict[str, Any] = {
            "obligations": n_ob - known_ob,
            "discharged": n_dis,
            "known_finding_obligations": known_ob,
            "undecided": n_und,
            "checker_cmd": f"bin/check {self.prop} --tier {self.tier}",
            "trusted_base": self.trusted_base,
            "evaluations": n_ob,
            "distinct_nontrivial": len({o["name"] for r in results for o in r["obligations"]}),
            "rule": rule or "one evaluation = one verification condition (path x named "
                            "conjunct) generated from the current source; distinct = distinct "
                            "obligation names",
            "samples": samples,
            "units": len(results),
            "units_bounded_standin": [{"unit": r["unit"], "bound": r["bounded"]}
                                      for r in bounded_units][:50],
            "paths": sum(r["paths"] for r in results),
            "functions_under_contract": len(fns),
            "function_source_hashes": dict(sorted(fns.items())),
            "backends": backends,
            "solver_ms": round(sum(r["solver_ms"] for r in results), 1),
            "known_findings_hit": known_hits,
            "unit_errors": [{"unit": r["unit"], "kind": r["error_kind"],
                             "error": (r["error"] or "")[-300:]} for r in results
                            if r["error"]][:20],
        }
        # bounded stand-ins report what they ran: cases, distinct non-trivial cases, samples
        st = [r.get("extra") or {} for r in results if r.get("extra")]
        if st:
            cov["standin_cases_run"] = sum(int(x.get("evaluations", 0)) for x in st)
            cov["standin_distinct_nontrivial"] = sum(int(x.get("distinct_nontrivial", 0))
                                                     for x in st)
            cov["standin_samples"] = [y for x in st for y in x.get("samples", [])][:8]
            if any(x.get("rule") for x in st):
                cov["standin_rule"] = next(x["rule"] for x in st if x.get("rule"))
        if self.level == "exploration" and st:
            cov["evaluations"] = cov["standin_cases_run"]
            cov["distinct_nontrivial"] = cov["standin_distinct_nontrivial"]
            cov["samples"] = cov["standin_samples"] or cov["samples"]
            cov["rule"] = cov.get("standin_rule", cov["rule"])
            cov["exhaustive"] = all(bool(x.get("exhaustive")) for x in st)
        cov.update(self.extra)
        ev = {"property_id": self.prop, "tier": self.tier, "seed": self.seed,
              "level": self.level, "coverage": cov, "assumptions": self.assumptions,
              "wall_s": round(time.time() - self.t0, 2), "violations": violations}
        os.makedirs(os.path.join(OUT, "evidence"), exist_ok=True)
        with open(os.path.join(OUT, "evidence", f"{self.prop}.json"), "w") as f:
            json.dump(ev, f, indent=1, default=str)
