"""Symbolic value domain of pyvc (see DESIGN.md section 3.2).

Python values are represented by small wrapper objects around z3 terms (ints, bools,
byte strings as (Seq Int)) or around concrete Python structure (tuples, objects, classes).
Lists and dicts are either *concrete-spine* (a Python list of symbolic elements) or *functional*
(a length term plus an element function index-term -> value); functional sequences never reach the
SMT solver as a theory of their own: equalities over them are reduced to pointwise obligations.
"""
from __future__ import annotations

import enum
from typing import Any, Callable

import z3

IntSeq = z3.SeqSort(z3.IntSort())


_HAS_NTH: dict[int, tuple[Any, bool]] = {}


def has_nth(t: Any) -> bool:
    k = t.get_id()
    hit = _HAS_NTH.get(k)
    if hit is not None:
        return hit[1]
    if z3.is_app(t) and t.decl().kind() in (z3.Z3_OP_SEQ_NTH, z3.Z3_OP_SEQ_AT):
        r = True
    elif z3.is_quantifier(t):
        r = False
    else:
        r = any(has_nth(c) for c in t.children())
    _HAS_NTH[k] = (t, r)
    return r


def simp(t: Any) -> Any:
    """z3.simplify, except on terms with seq.nth: the rewriter turns nth into an if-then-else on
    the bounds (already decided by the IndexError fork) and then lifts it out of concatenations,
    which destroys the part structure of byte strings."""
    if has_nth(t):
        return t
    return z3.simplify(t)


class Unsupported(Exception):
    """Construct outside the PyV subset: aborts the verification unit (exit 3), never a verdict."""


class V:
    __slots__ = ()


class VInt(V):
    __slots__ = ("t", "enum")

    def __init__(self, t: Any, enum_cls: type | None = None):
        if isinstance(t, bool):
            t = int(t)
        if isinstance(t, int):
            t = z3.IntVal(t)
        self.t = t
        self.enum = enum_cls

    def concrete(self) -> int | None:
        t = z3.simplify(self.t) if not z3.is_int_value(self.t) else self.t
        if z3.is_int_value(t):
            return t.as_long()
        return None

    def __repr__(self) -> str:
        return f"VInt({self.t}{', ' + self.enum.__name__ if self.enum else ''})"


class VBool(V):
    __slots__ = ("t",)

    def __init__(self, t: Any):
        if isinstance(t, bool):
            t = z3.BoolVal(t)
        self.t = t

    def concrete(self) -> bool | None:
        t = z3.simplify(self.t)
        if z3.is_true(t):
            return True
        if z3.is_false(t):
            return False
        return None

    def __repr__(self) -> str:
        return f"VBool({self.t})"


class VFloat(V):
    """Exact rational (z3 Real); only what timeouts and bit_length()/8 need."""

    __slots__ = ("t",)

    def __init__(self, t: Any):
        if isinstance(t, (int, float)):
            t = z3.RealVal(repr(t) if isinstance(t, float) else t)
        self.t = t

    def concrete(self) -> float | None:
        t = z3.simplify(self.t)
        if z3.is_rational_value(t):
            return float(t.numerator_as_long()) / float(t.denominator_as_long())
        return None

    def __repr__(self) -> str:
        return f"VFloat({self.t})"


class _VNone(V):
    __slots__ = ()

    def __repr__(self) -> str:
        return "NONE"


NONE = _VNone()


class VBytes(V):
    __slots__ = ("t", "mutable")

    def __init__(self, t: Any, mutable: bool = False):
        if isinstance(t, (bytes, bytearray)):
            t = bytes_const(bytes(t))
        self.t = t
        self.mutable = mutable

    def concrete(self) -> bytes | None:
        return seq_to_bytes(z3.simplify(self.t))

    def __repr__(self) -> str:
        return f"VBytes({self.t})"


def bytes_const(b: bytes) -> Any:
    if len(b) == 0:
        return z3.Empty(IntSeq)
    if len(b) == 1:
        return z3.Unit(z3.IntVal(b[0]))
    return z3.Concat(*[z3.Unit(z3.IntVal(x)) for x in b])


def seq_to_bytes(t: Any) -> bytes | None:
    """Concrete value of a simplified (Seq Int) term, or None."""
    out: list[int] = []

    def walk(u: Any) -> bool:
        k = u.decl().kind()
        if k == z3.Z3_OP_SEQ_EMPTY:
            return True
        if k == z3.Z3_OP_SEQ_UNIT:
            c = u.arg(0)
            if z3.is_int_value(c):
                out.append(c.as_long())
                return True
            return False
        if k == z3.Z3_OP_SEQ_CONCAT:
            return all(walk(c) for c in u.children())
        return False

    if walk(t) and all(0 <= x <= 255 for x in out):
        return bytes(out)
    return None


class VStr(V):
    """A concrete str, an f-string template (parts of str | V) or an opaque string."""

    __slots__ = ("s", "parts", "t")

    def __init__(self, s: str | None = None, parts: list | None = None, t: Any = None):
        self.s = s
        self.parts = parts
        self.t = t  # optional z3 String term (C19/C20 only)

    def __repr__(self) -> str:
        return f"VStr({self.s!r})" if self.s is not None else "VStr(<opaque>)"


class VTuple(V):
    __slots__ = ("items",)

    def __init__(self, items: list[V]):
        self.items = list(items)

    def __repr__(self) -> str:
        return f"VTuple({self.items})"


class VList(V):
    """items != None: concrete spine.  Otherwise functional: n (z3 Int) and get(index term) -> V."""

    __slots__ = ("items", "n", "get", "kind", "member")

    def __init__(self, items: list[V] | None = None, n: Any = None,
                 get: Callable[[Any], V] | None = None, kind: str = "list",
                 member: Callable[[V], Any] | None = None):
        self.items = items
        self.n = n
        self.get = get
        self.kind = kind
        self.member = member  # optional membership predicate of a functional list

    def length(self) -> Any:
        return z3.IntVal(len(self.items)) if self.items is not None else self.n

    def become(self, other: "VList") -> None:
        """In-place replacement of the contents (loop havoc): aliases of the list keep seeing it."""
        self.items, self.n, self.get = other.items, other.n, other.get
        self.kind, self.member = other.kind, other.member

    def at(self, j: Any) -> V:
        if self.items is not None:
            jc = z3.simplify(j) if not isinstance(j, int) else z3.IntVal(j)
            if z3.is_int_value(jc):
                return self.items[jc.as_long()]
            if not self.items:
                raise Unsupported("index into empty concrete-spine list")
            acc = self.items[-1]
            for i in range(len(self.items) - 2, -1, -1):
                acc = ite_values(jc == i, self.items[i], acc)
            return acc
        return self.get(j)

    def __repr__(self) -> str:
        return f"VList({self.items})" if self.items is not None else f"VList(n={self.n})"


class VSymMap(V):
    """A mapping with symbolically many keys, given by its observers:
    n (z3 Int), key_at(j) -> V, has(k: V) -> z3 Bool, get(k: V) -> V (value of a contained key)."""

    __slots__ = ("n", "key_at", "has", "get", "name")

    def __init__(self, n: Any, key_at: Callable[[Any], V], has: Callable[[V], Any],
                 get: Callable[[V], V], name: str = "map"):
        self.n = n
        self.key_at = key_at
        self.has = has
        self.get = get
        self.name = name

    def keys_list(self) -> "VList":
        return VList(None, self.n, self.key_at)

    def values_list(self) -> "VList":
        return VList(None, self.n, lambda j: self.get(self.key_at(j)))

    def __repr__(self) -> str:
        return f"VSymMap({self.name})"


class VDict(V):
    """Concrete spine only: insertion-ordered list of (key, value)."""

    __slots__ = ("items",)

    def __init__(self, items: list[tuple[V, V]] | None = None):
        self.items = items if items is not None else []

    def __repr__(self) -> str:
        return f"VDict({self.items})"


class VObj(V):
    __slots__ = ("cls", "fields", "lazy", "tag", "ann")

    def __init__(self, cls: type, fields: dict[str, V] | None = None, lazy: bool = False,
                 tag: str = "", ann: dict[str, Any] | None = None):
        self.cls = cls
        self.fields = fields if fields is not None else {}
        self.lazy = lazy  # unknown attributes are havocked on first read
        self.tag = tag
        self.ann = ann or {}

    def __repr__(self) -> str:
        return f"VObj({self.cls.__name__}, {self.fields})"


class VConst(V):
    """A concrete Python object that is not modelled structurally (class, function, module, …)."""

    __slots__ = ("py",)

    def __init__(self, py: Any):
        self.py = py

    def __repr__(self) -> str:
        n = getattr(self.py, "__qualname__", None) or getattr(self.py, "__name__", None)
        return f"VConst({n or self.py!r})"


class VBound(V):
    """Bound method: a Python function (or a native method name) with its receiver."""

    __slots__ = ("func", "recv", "owner")

    def __init__(self, func: Any, recv: V, owner: type | None = None):
        self.func = func  # python function object, or str for native methods
        self.recv = recv
        self.owner = owner

    def __repr__(self) -> str:
        return f"VBound({getattr(self.func, '__qualname__', self.func)}, {self.recv!r})"


class VSuper(V):
    __slots__ = ("owner", "recv")

    def __init__(self, owner: type, recv: V):
        self.owner = owner
        self.recv = recv


def ite_values(c: Any, x: V, y: V) -> V:
    if x is y:
        return x
    if isinstance(x, VInt) and isinstance(y, VInt):
        return VInt(z3.If(c, x.t, y.t), x.enum if x.enum is y.enum else None)
    if isinstance(x, VBool) and isinstance(y, VBool):
        return VBool(z3.If(c, x.t, y.t))
    if isinstance(x, VBytes) and isinstance(y, VBytes):
        return VBytes(z3.If(c, x.t, y.t))
    if isinstance(x, VTuple) and isinstance(y, VTuple) and len(x.items) == len(y.items):
        return VTuple([ite_values(c, p, q) for p, q in zip(x.items, y.items)])
    raise Unsupported(f"ite over {x!r} / {y!r}")


def wrap(py: Any) -> V:
    """Concrete Python value -> V."""
    if isinstance(py, V):
        return py
    if py is None:
        return NONE
    if isinstance(py, bool):
        return VBool(py)
    if isinstance(py, enum.IntEnum):
        return VInt(int(py), type(py))
    if isinstance(py, enum.IntFlag):
        return VInt(int(py), type(py))
    if isinstance(py, int):
        return VInt(py)
    if isinstance(py, float):
        return VFloat(py)
    if isinstance(py, bytes):
        return VBytes(py)
    if isinstance(py, bytearray):
        return VBytes(bytes(py), mutable=True)
    if isinstance(py, str):
        return VStr(py)
    if isinstance(py, tuple) and type(py) is tuple:
        return VTuple([wrap(x) for x in py])
    if isinstance(py, list) and type(py) is list:
        return VList([wrap(x) for x in py])
    if isinstance(py, dict) and type(py) is dict:
        return VDict([(wrap(k), wrap(v)) for k, v in py.items()])
    return VConst(py)
