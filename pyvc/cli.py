"""bin/check entry point."""
from __future__ import annotations

import argparse
import importlib
import os
import sys


def main() -> int:
    ap = argparse.ArgumentParser()
    ap.add_argument("prop")
    ap.add_argument("--tier", default=os.environ.get("VERIF_TIER", "quick"))
    ap.add_argument("--only", default=None)
    ap.add_argument("--jobs", type=int, default=int(os.environ.get("PYVC_JOBS", "16")))
    a = ap.parse_args()
    seed = int(os.environ.get("VERIF_SEED", "0") or 0)
    if a.tier == "thorough":
        # the thorough tier has larger units (three dict records, all width pairs ...)
        os.environ.setdefault("PYVC_UNIT_TIMEOUT", "2400")
    sys.setrecursionlimit(20000)
    try:
        mod = importlib.import_module("contracts." + a.prop.lower())
    except ModuleNotFoundError as e:
        print(f"CHECKER-ERROR no check for {a.prop}: {e}")
        return 3
    try:
        return mod.main(a.tier, seed, a.only, a.jobs)
    except SystemExit:
        raise
    except Exception:
        import traceback
        traceback.print_exc()
        print(f"CHECKER-ERROR property={a.prop} checker crashed")
        return 3


if __name__ == "__main__":
    sys.exit(main())
