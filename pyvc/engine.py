"""pyvc engine: symbolic execution of the real Python AST + obligation discharge with z3.

One `Interp` is one path.  Paths are enumerated by replay: `Explorer.run(harness)` re-runs the
harness with a prefix of branch decisions until every feasible decision sequence was taken.
A harness is a piece of specification code (sidecar, /verif/contracts) that creates symbolic
inputs, calls real functions through `Interp.call`, and states obligations with `Interp.prove`.
"""
from __future__ import annotations

import ast
import dataclasses
import enum
import hashlib
import inspect
import os
import textwrap
import time
import types
from typing import Any, Callable

import z3

from .values import (NONE, IntSeq, Unsupported, V, VBool, VBound, VBytes, VConst, VDict, VFloat,
                     VInt, VList, VObj, VStr, VSuper, VTuple, wrap)

z3.set_param("model.completion", True)


DEADLINE_PASSED = False


class DeadlinePassed(Exception):
    """The unit's wall-clock budget is exhausted (undecided, never a verdict)."""


def poll_deadline() -> None:
    if DEADLINE_PASSED:
        raise DeadlinePassed()


class PathAbort(Exception):
    """The current path is infeasible or was cut by an assumption."""


class PyExc(Exception):
    """A Python exception travelling through the interpreted program."""

    def __init__(self, exc: VObj):
        super().__init__(exc.cls.__name__)
        self.exc = exc


class _Return(Exception):
    def __init__(self, value: V):
        self.value = value


class _Break(Exception):
    pass


class _Continue(Exception):
    pass


class VCoro(V):
    __slots__ = ("thunk", "name")

    def __init__(self, thunk: Callable[[], V], name: str = ""):
        self.thunk = thunk
        self.name = name


class VClosure(V):
    __slots__ = ("node", "shim", "parent")

    def __init__(self, node: Any, shim: Any, parent: Any):
        self.node = node
        self.shim = shim
        self.parent = parent


class Obligation:
    def __init__(self, name: str, status: str, backend: str, ms: float, model: Any = None,
                 detail: str = "", path: int = 0):
        self.name = name
        self.status = status  # discharged | failed | undecided
        self.backend = backend
        self.ms = ms
        self.model = model  # concrete inputs (dict) for failed obligations
        self.detail = detail
        self.path = path

    def to_json(self) -> dict:
        return {"name": self.name, "status": self.status, "backend": self.backend,
                "ms": round(self.ms, 2), "model": self.model, "detail": self.detail,
                "path": self.path}


_PURE: dict[int, tuple[Any, bool]] = {}


def is_pure(t: Any) -> bool:
    """No sequence/string-sorted subterm and no quantifier (arithmetic + UF over ints only)."""
    k = t.get_id()
    hit = _PURE.get(k)
    if hit is not None:
        return hit[1]
    if z3.is_quantifier(t):
        r = False
    elif t.sort().kind() in (z3.Z3_SEQ_SORT, z3.Z3_RE_SORT):
        r = False
    else:
        r = all(is_pure(c) for c in t.children())
    _PURE[k] = (t, r)
    return r


_PURIFY: dict[int, tuple[Any, Any]] = {}


def purify(t: Any) -> Any:
    """Replace every maximal Int-sorted subterm that has a sequence-sorted subterm (seq.nth,
    seq.len, FB(...), ...) by an Int constant named after it.  The result is a consequence-
    preserving abstraction: equal terms get the same constant, so arithmetic facts about byte
    elements and lengths become available to the pure projection of the path condition."""
    k = t.get_id()
    hit = _PURIFY.get(k)
    if hit is not None:
        return hit[1]
    if is_pure(t):
        r = t
    elif z3.is_quantifier(t):
        r = t
    elif t.sort().kind() == z3.Z3_INT_SORT and z3.is_app(t) and \
            any(c.sort().kind() in (z3.Z3_SEQ_SORT, z3.Z3_RE_SORT) for c in t.children()):
        r = z3.Int(f"pure!{k}")
    elif z3.is_app(t) and t.num_args() > 0 and t.sort().kind() not in (z3.Z3_SEQ_SORT,
                                                                         z3.Z3_RE_SORT):
        ch = [purify(c) for c in t.children()]
        if any(c.sort().kind() in (z3.Z3_SEQ_SORT, z3.Z3_RE_SORT) for c in ch):
            r = t
        else:
            try:
                r = t.decl()(*ch)
            except Exception:  # noqa: BLE001
                r = t
    else:
        r = t
    _PURIFY[k] = (t, r)
    return r


_AST_CACHE: dict[Any, tuple[ast.AST, str]] = {}


def function_ast(fn: Any) -> tuple[ast.FunctionDef | ast.AsyncFunctionDef, str]:
    """Parse the *current* source of a real function (no copy is kept between runs)."""
    key = fn
    if key not in _AST_CACHE and getattr(fn, "__name__", "") == "<lambda>":
        # a live lambda (e.g. a pydantic BeforeValidator): located in its module's current
        # source by line and parameter names; body = one return statement
        try:
            lines, _ = inspect.findsource(fn)
        except (OSError, TypeError) as e:
            raise Unsupported(f"no source for {fn!r}: {e}")
        mod_src = "".join(lines)
        code = fn.__code__
        cands = [n for n in ast.walk(ast.parse(mod_src)) if isinstance(n, ast.Lambda)
                 and n.lineno == code.co_firstlineno
                 and [a.arg for a in n.args.posonlyargs + n.args.args] ==
                 list(code.co_varnames[:code.co_argcount])]
        if len(cands) != 1:
            raise Unsupported(f"cannot locate the source of {fn!r}")
        lam = cands[0]
        node = ast.FunctionDef(name="<lambda>", args=lam.args, body=[ast.Return(value=lam.body)],
                               decorator_list=[])
        ast.copy_location(node, lam)
        ast.fix_missing_locations(node)
        _AST_CACHE[key] = (node, hashlib.sha256(ast.unparse(lam).encode()).hexdigest()[:16])
    if key not in _AST_CACHE:
        try:
            src = textwrap.dedent(inspect.getsource(fn))
        except (OSError, TypeError) as e:
            raise Unsupported(f"no source for {fn!r}: {e}")
        tree = ast.parse(src)
        node = tree.body[0]
        if not isinstance(node, (ast.FunctionDef, ast.AsyncFunctionDef)):
            raise Unsupported(f"not a function definition: {fn!r}")
        _AST_CACHE[key] = (node, hashlib.sha256(src.encode()).hexdigest()[:16])
    return _AST_CACHE[key]


class Frame:
    __slots__ = ("fn", "env", "owner", "qualname", "loop_no", "globals", "cur_exc", "poison")

    def __init__(self, fn: Any, owner: type | None):
        self.fn = fn
        self.env: dict[str, V] = {}
        self.owner = owner
        self.qualname = getattr(fn, "__qualname__", "?")
        self.loop_no = 0
        self.globals = getattr(fn, "__globals__", {})
        self.cur_exc: list[VObj] = []
        self.poison: set[str] = set()


class Explorer:
    """Enumerates the paths of a harness; collects obligations and statistics."""

    def __init__(self, name: str, max_paths: int = 4000, query_timeout_ms: int = 90000,
                 feas_timeout_ms: int = 3000):
        self.name = name
        self.max_paths = max_paths
        self.query_timeout_ms = query_timeout_ms
        self.feas_timeout_ms = feas_timeout_ms
        self.obligations: list[Obligation] = []
        self.paths = 0
        self.normal_paths = 0
        self.pruned_late = 0
        self.extra: dict[str, Any] = {}  # what a bounded stand-in unit ran (for the evidence)
        self.functions: dict[str, str] = {}  # qualname -> source hash
        self.solver_ms = 0.0
        self.assumptions: set[str] = set()
        self.contracts: dict[Any, Callable] = {}
        self.inline_policy: Callable[[Any], bool] = lambda fn: True
        self.loop_contracts: dict[tuple[str, int], Any] = {}
        self.setup: Callable[["Interp"], None] | None = None
        self.feas_cache: dict[Any, Any] = {}
        self.feas_queries = 0
        self.feas_unknown = 0
        self.stubs: dict[tuple[str, str], Callable] = {}       # (object tag, method) -> contract
        self.stub_attrs: dict[tuple[str, str], Callable] = {}  # (object tag, attribute) -> value

    def run(self, harness: Callable[["Interp"], None]) -> None:
        stack: list[list[int]] = [[]]
        while stack:
            prefix = stack.pop()
            self.paths += 1
            if self.paths > self.max_paths:
                raise Unsupported(f"path cap {self.max_paths} exceeded in {self.name}")
            interp = Interp(self, prefix)
            if self.setup:
                self.setup(interp)
            try:
                harness(interp)
                self.normal_paths += 1
            except PathAbort:
                pass
            except (Unsupported, PyExc):
                # feasibility is decided on the arithmetic projection (over-approximation): before
                # a path is reported as outside the subset, its full path condition is checked
                if not interp.infeasible_full():
                    raise
                self.pruned_late += 1
            for alt in interp.alternatives:
                stack.append(alt)


class Interp:
    def __init__(self, ex: Explorer, prefix: list[int]):
        self.ex = ex
        self.prefix = prefix
        self.decisions: list[int] = []
        self.alternatives: list[list[int]] = []
        self.pc: list[Any] = []
        self.solver_assertions: list[Any] = []
        self.pure_assertions: list[Any] = []
        self._pure_upto = 0
        self.pc_ids: set[int] = set()
        self.template_index: Any = None  # generic iteration index while a loop body is summarised
        self.inputs: dict[str, V] = {}
        self.lambda_axioms: list[Callable[[Any], Any]] = []
        self.index_terms: list[Any] = []
        self.fresh_no = 0
        self.frames: list[Frame] = []
        self.ghost: dict[str, Any] = {}
        self.trace: list[str] = []
        self.path_id = ex.paths

    # ------------------------------------------------------------------ symbols
    def fresh_name(self, base: str) -> str:
        if self.template_index is not None and not base.startswith(("j", "cj", "jr", "cjr")):
            # a fresh symbol created in a generic iteration would have to depend on the index
            raise Unsupported(f"fresh symbol '{base}' inside a summarised loop body")
        self.fresh_no += 1
        return f"{base}!{self.fresh_no}"

    def fresh_int(self, name: str, lo: int | None = None, hi: int | None = None,
                  inp: bool = False) -> VInt:
        t = z3.Int(self.fresh_name(name) if not inp else name)
        if lo is not None:
            self.assume(t >= lo)
        if hi is not None:
            self.assume(t <= hi)
        v = VInt(t)
        if inp:
            self.inputs[name] = v
        return v

    def fresh_bool(self, name: str, inp: bool = False) -> VBool:
        v = VBool(z3.Bool(self.fresh_name(name) if not inp else name))
        if inp:
            self.inputs[name] = v
        return v

    def fresh_bytes(self, name: str, inp: bool = False, minlen: int = 0,
                    maxlen: int | None = None) -> VBytes:
        from . import models
        t = z3.Const(self.fresh_name(name) if not inp else name, IntSeq)
        # the length lives in a pure Int constant so that length arithmetic stays arithmetic
        ln = z3.Int((self.fresh_name(name) if not inp else name) + "#len")
        models.set_known_len(t, ln)
        self.assume(z3.Length(t) == ln)
        self.assume(ln >= minlen)
        if maxlen is not None:
            self.assume(ln <= maxlen)
        # bytes invariant (every element in 0..255) is assumed where an element is read
        v = VBytes(t)
        if inp:
            self.inputs[name] = v
        return v

    def fresh_int_list(self, name: str, inp: bool = False, lo: int | None = None,
                       hi: int | None = None) -> VList:
        n = z3.Int((self.fresh_name(name) if not inp else name) + "#len")
        f = z3.Function((self.fresh_name(name) if not inp else name) + "#at", z3.IntSort(),
                        z3.IntSort())
        self.assume(n >= 0)

        def get(j: Any, f: Any = f) -> V:
            self.note_index(j)
            return VInt(f(j))
        if lo is not None or hi is not None:
            def ax(j: Any, f: Any = f) -> Any:
                cs = []
                if lo is not None:
                    cs.append(f(j) >= lo)
                if hi is not None:
                    cs.append(f(j) <= hi)
                return z3.Implies(z3.And(j >= 0, j < n), z3.And(*cs))
            self.lambda_axioms_add(ax)
        v = VList(None, n, get)
        if inp:
            self.inputs[name] = v
        return v

    # ------------------------------------------------------------------ logical state
    def assume(self, f: Any, check: bool = False) -> None:
        if isinstance(f, VBool):
            f = f.t
        if isinstance(f, bool):
            if not f:
                raise PathAbort()
            return
        fid = f.get_id()
        if fid in self.pc_ids:
            return
        self.pc_ids.add(fid)
        self.pc.append(f)
        self.solver_assertions.append(f)
        if check and not self.feasible(z3.BoolVal(True)):
            raise PathAbort()

    def lambda_axioms_add(self, ax: Callable[[Any], Any]) -> None:
        self.lambda_axioms.append(ax)
        for j in self.index_terms:
            self.solver_assertions.append(ax(j))

    def note_index(self, j: Any) -> None:
        if isinstance(j, int):
            j = z3.IntVal(j)
        for k in self.index_terms:
            if k.eq(j):
                return
        if len(self.index_terms) > 400:
            return
        self.index_terms.append(j)
        for ax in self.lambda_axioms:
            self.solver_assertions.append(ax(j))

    def instantiated_axioms(self) -> list[Any]:
        return [ax(j) for ax in self.lambda_axioms for j in self.index_terms]

    def feasible(self, f: Any) -> bool:
        # replayed paths repeat the queries of their common prefix: memoise per explorer
        key = (tuple(p.get_id() for p in self.pc), len(self.index_terms),
               len(self.lambda_axioms), f.get_id() if z3.is_expr(f) else f)
        hit = self.ex.feas_cache.get(key)
        if hit is not None:
            return hit[0]
        r = self._feasible(f)
        # the cached ASTs are kept alive so that z3 cannot reuse their ids
        self.ex.feas_cache[key] = (r, tuple(self.pc), f)
        return r

    def entails(self, f: Any) -> bool:
        """PC |= f, decided on the pure-arithmetic projection of the path condition (formulas
        without sequence-sorted subterms).  Sound: a weaker premise can only entail less."""
        if isinstance(f, bool):
            return f
        f = z3.simplify(f)
        if z3.is_true(f):
            return True
        if z3.is_false(f):
            return False
        if not is_pure(f):
            f = purify(f)
            if not is_pure(f):
                return False
        s = z3.Solver()
        s.set("timeout", 2000)
        s.add(*self.pure())
        s.add(z3.Not(f))
        t0 = time.time()
        r = s.check() == z3.unsat
        self.ex.solver_ms += (time.time() - t0) * 1000
        return r

    def concrete_value(self, t: Any) -> int | None:
        """The integer k with PC |= t == k (arithmetic projection), if there is one."""
        t = z3.simplify(t)
        if z3.is_int_value(t):
            return t.as_long()
        if not is_pure(t):
            t = purify(t)
            if not is_pure(t):
                return None
        s = z3.Solver()
        s.set("timeout", 2000)
        s.add(*self.pure())
        if s.check() != z3.sat:
            return None
        v = s.model().eval(t, model_completion=True)
        if not z3.is_int_value(v):
            return None
        return v.as_long() if self.entails(t == v) else None

    def pure(self) -> list[Any]:
        k = len(self.solver_assertions)
        if k != self._pure_upto:
            for a in self.solver_assertions[self._pure_upto:]:
                if is_pure(a):
                    self.pure_assertions.append(a)
                else:
                    b = purify(a)
                    if is_pure(b):
                        self.pure_assertions.append(b)
            self._pure_upto = k
        return self.pure_assertions

    def n_pure(self) -> int:
        return len(self.pure())

    def infeasible_full(self) -> bool:
        s = z3.Solver()
        s.set("timeout", 30000)
        s.add(*self.solver_assertions)
        t0 = time.time()
        r = s.check()
        self.ex.solver_ms += (time.time() - t0) * 1000
        return r == z3.unsat

    def _feasible(self, f: Any) -> bool:
        poll_deadline()
        g = f
        if z3.is_expr(f) and not is_pure(f):
            g = purify(f)
        if z3.is_expr(g) and is_pure(g):
            # a condition that is arithmetic over (purified) byte elements and lengths is decided
            # on the arithmetic projection: unsat there is unsat for the full path condition;
            # sat there is accepted (over-approximation)
            f = g
            s = z3.Solver()
            s.set("timeout", self.ex.feas_timeout_ms)
            s.add(*self.pure())
            s.add(f)
            t0 = time.time()
            r = s.check()
            self.ex.solver_ms += (time.time() - t0) * 1000
            self.ex.feas_queries += 1
            return r != z3.unsat
        # a fresh (non-incremental) solver per query: z3's incremental core is an order of
        # magnitude slower on mixed sequence/arithmetic constraints than its default tactic
        s = z3.Solver()
        s.set("timeout", self.ex.feas_timeout_ms)
        s.add(*self.solver_assertions)
        s.add(f)
        t0 = time.time()
        r = s.check()
        self.ex.solver_ms += (time.time() - t0) * 1000
        self.ex.feas_queries += 1
        if r == z3.unknown:
            self.ex.feas_unknown += 1
        return r != z3.unsat  # unknown counts as feasible (over-approximation)

    def truth(self, v: Any) -> Any:
        """Python truthiness of a value as a z3 Bool (or python bool)."""
        if isinstance(v, bool):
            return v
        if z3.is_expr(v):
            return v
        if isinstance(v, VBool):
            return v.t
        if isinstance(v, VInt):
            return v.t != 0
        if v is NONE:
            return False
        if isinstance(v, VBytes):
            if v.t is None:  # ASCII bytes kept as a string term
                return z3.Length(v.s) > 0
            return z3.Length(v.t) > 0
        if isinstance(v, VList):
            return v.length() > 0
        if isinstance(v, VTuple):
            return len(v.items) > 0
        if isinstance(v, VDict):
            return len(v.items) > 0
        if type(v).__name__ == "VSymMap":
            return v.n > 0
        if isinstance(v, VStr):
            if v.s is not None:
                return len(v.s) > 0
            if v.t is not None:
                return z3.Length(v.t) > 0
            # an opaque string: emptiness is an unconstrained (but fixed) fact about it
            if not hasattr(self, "_str_truth"):
                self._str_truth = {}
            k = id(v)
            if k not in self._str_truth:
                self._str_truth[k] = (v, z3.Bool(self.fresh_name("nonempty")))
            return self._str_truth[k][1]
        if isinstance(v, VFloat):
            return v.t != 0
        if isinstance(v, VObj):
            return True
        if isinstance(v, VConst):
            return bool(v.py)
        raise Unsupported(f"truthiness of {v!r}")

    def branch(self, cond: Any) -> bool:
        c = self.truth(cond)
        if isinstance(c, bool):
            return c
        c = z3.simplify(c)
        if z3.is_true(c):
            return True
        if z3.is_false(c):
            return False
        return self.choose([c, z3.Not(c)]) == 0

    def choose(self, conds: list[Any]) -> int:
        """Fork over mutually exclusive alternatives; returns the index taken on this path."""
        k = len(self.decisions)
        if k < len(self.prefix):
            d = self.prefix[k]
            self.decisions.append(d)
            self.assume(conds[d])
            return d
        feas = [i for i, c in enumerate(conds) if self.feasible(c)]
        if not feas:
            raise PathAbort()
        d = feas[0]
        for alt in feas[1:]:
            self.alternatives.append(self.decisions + [alt])
        self.decisions.append(d)
        self.assume(conds[d])
        return d

    # ------------------------------------------------------------------ obligations
    def prove(self, name: str, f: Any, detail: str = "") -> bool:
        if isinstance(f, VBool):
            f = f.t
        if isinstance(f, bool):
            f = z3.BoolVal(f)
        poll_deadline()
        sel = getattr(self.ex, "obligation_filter", None)
        if sel is not None and not sel(name):
            return True  # an obligation of another property's check that shares this harness
        t0 = time.time()
        s = z3.Solver()
        s.set("timeout", self.ex.query_timeout_ms)
        for p in self.pc:
            s.add(p)
        for a in self.instantiated_axioms():
            s.add(a)
        s.add(z3.Not(f))
        r = s.check()
        backend = "z3-5.1.0(api)"
        if r == z3.unknown and "timeout" in s.reason_unknown() or r == z3.unknown and \
                "cancel" in s.reason_unknown():
            # wall-clock budgets must not flip a verdict when all cores are busy: one retry on a
            # fresh solver with four times the budget before the query counts as open
            s = z3.Solver()
            s.set("timeout", self.ex.query_timeout_ms * 4)
            for p in self.pc:
                s.add(p)
            for a in self.instantiated_axioms():
                s.add(a)
            s.add(z3.Not(f))
            r = s.check()
            backend = "z3-5.1.0(api, second attempt with 4x budget)"
        model = None
        status = "discharged" if r == z3.unsat else ("failed" if r == z3.sat else "undecided")
        if r == z3.unknown:
            from . import smt
            r2, backend2 = smt.portfolio(s.to_smt2(), self.ex.query_timeout_ms / 1000)
            if r2 == "unsat":
                status, backend = "discharged", backend2
            elif r2 == "sat":
                status, backend = "failed", backend2
        if status == "failed":
            try:
                m = s.model() if r == z3.sat else None
                model = {k: concretize(m, v, self) for k, v in self.inputs.items()} if m else None
            except Exception as e:  # model extraction must never turn into a verdict
                model = None
                detail += f" [model extraction failed: {e}]"
        ms = (time.time() - t0) * 1000
        self.ex.solver_ms += ms
        self.ex.obligations.append(Obligation(name, status, backend, ms, model, detail,
                                              self.path_id))
        return status == "discharged"

    def fail(self, name: str, detail: str = "") -> None:
        """The current (feasible) path itself violates the obligation `name`."""
        self.prove(name, z3.BoolVal(False), detail)

    # ------------------------------------------------------------------ exceptions
    def make_exc(self, cls: type, *args: Any) -> VObj:
        return VObj(cls, {"args": VTuple([wrap(a) for a in args])})

    def raise_py(self, cls: type, *args: Any) -> None:
        raise PyExc(self.make_exc(cls, *args))

    # ------------------------------------------------------------------ calls
    def call(self, callee: Any, *args: V, **kwargs: V) -> V:
        """Call a real Python callable (or a V callee) on symbolic arguments."""
        if not isinstance(callee, V):
            callee = wrap(callee) if not callable(callee) else VConst(callee)
        return self.call_v(callee, list(args), dict(kwargs))

    def call_v(self, callee: V, args: list[V], kwargs: dict[str, V]) -> V:
        from . import models
        if isinstance(callee, VBound):
            if isinstance(callee.func, str):
                return models.native_method(self, callee.recv, callee.func, args, kwargs)
            return self.call_py(callee.func, [callee.recv] + args, kwargs, callee.owner)
        if isinstance(callee, VConst):
            py = callee.py
            m = models.lookup(py)
            if m is not None:
                return m(self, args, kwargs)
            if isinstance(py, type):
                return self.instantiate(py, args, kwargs)
            if isinstance(py, types.FunctionType):
                return self.call_py(py, args, kwargs, None)
            if isinstance(py, types.MethodType):
                return self.call_py(py.__func__, [wrap(py.__self__)] + args, kwargs, None)
            if isinstance(py, (classmethod, staticmethod)):
                return self.call_py(py.__func__, args, kwargs, None)
            if isinstance(py, types.BuiltinFunctionType) and isinstance(
                    getattr(py, "__self__", None),
                    (types.MappingProxyType, dict, list, tuple, frozenset, set)) \
                    and not args and not kwargs:
                # reflection on concrete containers (cls.__dict__.values() …) is concrete data
                return wrap(list(py()) if py.__name__ in ("values", "keys", "items") else py())
            raise Unsupported(f"uncontracted call to {py!r}")
        if isinstance(callee, VClosure):
            def run() -> V:
                if len(self.frames) > 60:
                    raise Unsupported("recursion depth")
                fr2 = Frame(callee.shim, callee.parent.owner)
                fr2.env = dict(callee.parent.env)
                self.bind_args(callee.node, callee.shim, fr2, args, kwargs)
                self.frames.append(fr2)
                try:
                    try:
                        self.exec_block(callee.node.body, fr2)
                    except _Return as r:
                        return r.value
                    return NONE
                finally:
                    self.frames.pop()
            if isinstance(callee.node, ast.AsyncFunctionDef):
                return VCoro(run, callee.shim.__qualname__)
            return run()
        if isinstance(callee, VObj):
            found = self.class_lookup(callee.cls, "__call__")
            if found:
                return self.call_py(found[1], [callee] + args, kwargs, found[0])
        raise Unsupported(f"call of non-callable {callee!r}")

    def call_py(self, fn: Any, args: list[V], kwargs: dict[str, V], owner: type | None) -> V:
        from . import models
        m = models.lookup(fn)
        if m is not None:
            return m(self, args, kwargs)
        c = self.ex.contracts.get(fn)
        if c is not None:
            return c(self, *args, **kwargs)
        if not isinstance(fn, types.FunctionType):
            raise Unsupported(f"uncontracted call to {fn!r}")
        mod = getattr(fn, "__module__", "") or ""
        if not self.ex.inline_policy(fn):
            raise Unsupported(f"uncontracted call to {mod}.{fn.__qualname__}")
        if owner is None:
            owner = _owner_of(fn)
        if inspect.iscoroutinefunction(fn):
            return VCoro(lambda: self.exec_function(fn, args, kwargs, owner), fn.__qualname__)
        return self.exec_function(fn, args, kwargs, owner)

    def exec_function(self, fn: Any, args: list[V], kwargs: dict[str, V],
                      owner: type | None) -> V:
        node, h = function_ast(fn)
        self.ex.functions[f"{fn.__module__}.{fn.__qualname__}"] = h
        if len(self.frames) > 60:
            raise Unsupported("recursion depth")
        fr = Frame(fn, owner)
        self.bind_args(node, fn, fr, args, kwargs)
        # a generator function called from interpreted code is run eagerly: its value is the
        # list of what it yields (generators of the code under contract are finite and are
        # consumed completely by a for loop)
        nested_gen = bool(self.frames) and inspect.isgeneratorfunction(fn)
        y0 = len(self.ghost.get("yielded", []))
        self.frames.append(fr)
        try:
            try:
                self.exec_block(node.body, fr)
            except _Return as r:
                if not nested_gen:
                    return r.value
            if nested_gen:
                from .values import VList
                return VList(list(self.ghost.get("yielded", [])[y0:]))
            return NONE
        finally:
            self.frames.pop()

    def bind_args(self, node: Any, fn: Any, fr: Frame, args: list[V],
                  kwargs: dict[str, V]) -> None:
        a = node.args
        params = [p.arg for p in a.posonlyargs + a.args]
        defaults = fn.__defaults__ or ()
        kwdefaults = fn.__kwdefaults__ or {}
        kwargs = dict(kwargs)
        if len(args) > len(params) and not a.vararg:
            self.raise_py(TypeError, f"{fn.__qualname__}() takes {len(params)} positional "
                                     f"arguments but {len(args)} were given")
        for i, p in enumerate(params):
            if i < len(args):
                if p in kwargs:
                    self.raise_py(TypeError, f"multiple values for argument {p}")
                fr.env[p] = args[i]
            elif p in kwargs:
                fr.env[p] = kwargs.pop(p)
            else:
                di = i - (len(params) - len(defaults))
                if di >= 0:
                    fr.env[p] = wrap(defaults[di])
                else:
                    self.raise_py(TypeError, f"{fn.__qualname__}() missing required argument "
                                             f"{p!r}")
        if a.vararg:
            fr.env[a.vararg.arg] = VTuple(args[len(params):])
        for p in a.kwonlyargs:
            if p.arg in kwargs:
                fr.env[p.arg] = kwargs.pop(p.arg)
            elif p.arg in kwdefaults:
                fr.env[p.arg] = wrap(kwdefaults[p.arg])
            else:
                self.raise_py(TypeError, f"missing keyword-only argument {p.arg!r}")
        if a.kwarg:
            fr.env[a.kwarg.arg] = VDict([(VStr(k), v) for k, v in kwargs.items()])
        elif kwargs:
            self.raise_py(TypeError, f"{fn.__qualname__}() got an unexpected keyword argument "
                                     f"{next(iter(kwargs))!r}")

    def instantiate(self, cls: type, args: list[V], kwargs: dict[str, V]) -> V:
        from . import models
        if issubclass(cls, enum.Enum):
            return models.enum_call(self, cls, args)
        if cls in (int, bool, bytes, bytearray, str, list, tuple, dict, set, float, object):
            raise Unsupported(f"constructor {cls.__name__} without model")
        m = models.class_model(cls)
        if m is not None:
            return m(self, cls, args, kwargs)
        obj = VObj(cls)
        if inspect.isabstract(cls):
            self.raise_py(TypeError, f"Can't instantiate abstract class {cls.__name__}")
        found = self.class_lookup(cls, "__init__")
        if found and isinstance(found[1], types.FunctionType) and _has_source(found[1]):
            self.call_py(found[1], [obj] + args, kwargs, found[0])
            return obj
        if dataclasses.is_dataclass(cls):
            self.init_dataclass(obj, cls, args, kwargs)
            return obj
        if issubclass(cls, BaseException):
            obj.fields["args"] = VTuple(args)
            return obj
        if args or kwargs:
            # object.__init__ with arguments
            if found and found[1] is object.__init__ and cls.__new__ is object.__new__:
                self.raise_py(TypeError, f"{cls.__name__}() takes no arguments")
            raise Unsupported(f"constructor of {cls.__name__} without source")
        return obj

    def init_dataclass(self, obj: VObj, cls: type, args: list[V], kwargs: dict[str, V]) -> None:
        fs = [f for f in dataclasses.fields(cls) if f.init]
        kwargs = dict(kwargs)
        for i, f in enumerate(fs):
            if i < len(args):
                obj.fields[f.name] = args[i]
            elif f.name in kwargs:
                obj.fields[f.name] = kwargs.pop(f.name)
            elif f.default is not dataclasses.MISSING:
                obj.fields[f.name] = wrap(f.default)
            elif f.default_factory is not dataclasses.MISSING:
                obj.fields[f.name] = wrap(f.default_factory())
            else:
                self.raise_py(TypeError, f"missing dataclass field {f.name}")
        found = self.class_lookup(cls, "__post_init__")
        if found:
            self.call_py(found[1], [obj], {}, found[0])

    # ------------------------------------------------------------------ attribute access
    def class_lookup(self, cls: type, name: str, after: type | None = None):
        mro = cls.__mro__
        if after is not None:
            mro = mro[mro.index(after) + 1:]
        for k in mro:
            if name in k.__dict__:
                return k, k.__dict__[name]
        return None

    def getattr_v(self, v: V, name: str) -> V:
        from . import models
        if isinstance(v, VObj):
            if name in v.fields:
                return v.fields[name]
            if name == "__class__":
                return VConst(v.cls)
            if name == "__dict__":
                return VDict([(VStr(k), x) for k, x in v.fields.items()
                              if not k.startswith("__")])
            found = self.class_lookup(v.cls, name)
            if found:
                return self.bind_class_attr(found[0], found[1], v, v.cls)
            if v.lazy:
                return models.lazy_attr(self, v, name)
            self.raise_py(AttributeError,
                          f"'{v.cls.__name__}' object has no attribute '{name}'")
        if isinstance(v, VSuper):
            recv = v.recv
            cls = recv.cls if isinstance(recv, VObj) else recv.py
            found = self.class_lookup(cls, name, after=v.owner)
            if not found:
                self.raise_py(AttributeError, f"super object has no attribute {name}")
            return self.bind_class_attr(found[0], found[1], recv, cls)
        if isinstance(v, VConst):
            py = v.py
            if isinstance(py, type):
                found = self.class_lookup(py, name)
                if found:
                    owner, raw = found
                    if isinstance(raw, classmethod):
                        return VBound(raw.__func__, v, owner)
                    if isinstance(raw, staticmethod):
                        return VConst(raw.__func__)
                    if isinstance(raw, (types.FunctionType, property)):
                        return VConst(raw)
                    if isinstance(raw, (types.MemberDescriptorType, types.GetSetDescriptorType,
                                        types.WrapperDescriptorType, types.MethodDescriptorType,
                                        types.ClassMethodDescriptorType,
                                        types.BuiltinFunctionType)):
                        return wrap(getattr(py, name))
                    if hasattr(type(raw), "__get__") and not isinstance(raw, type):
                        # another descriptor kind (e.g. pydantic's class properties): the class
                        # attribute is what Python's own lookup returns
                        return wrap(getattr(py, name))
                    return wrap(raw)
            try:
                return wrap(getattr(py, name))
            except AttributeError:
                self.raise_py(AttributeError, f"{py!r} has no attribute {name}")
        return models.native_attr(self, v, name)

    def bind_class_attr(self, owner: type, raw: Any, recv: V, cls: type) -> V:
        if isinstance(raw, property):
            if raw.fget is None:
                self.raise_py(AttributeError, "unreadable attribute")
            return self.call_py(raw.fget, [recv], {}, owner)
        if isinstance(raw, types.FunctionType):
            return VBound(raw, recv, owner)
        if isinstance(raw, classmethod):
            return VBound(raw.__func__, VConst(cls), owner)
        if isinstance(raw, staticmethod):
            return VConst(raw.__func__)
        if isinstance(raw, types.WrapperDescriptorType) and raw.__name__ == "__init__":
            return VBound("__base_init__", recv)
        import functools
        if isinstance(raw, functools.cached_property):
            return self.call_py(raw.func, [recv], {}, owner)
        return wrap(raw)

    def setattr_v(self, v: V, name: str, val: V) -> None:
        if isinstance(v, VObj):
            found = self.class_lookup(v.cls, name)
            if found and isinstance(found[1], property):
                if found[1].fset is None:
                    self.raise_py(AttributeError, f"property {name} has no setter")
                self.call_py(found[1].fset, [v, val], {}, found[0])
                return
            v.fields[name] = val
            return
        raise Unsupported(f"attribute store on {v!r}")

    # ------------------------------------------------------------------ statements
    def exec_block(self, body: list[ast.stmt], fr: Frame) -> None:
        for st in body:
            self.exec_stmt(st, fr)

    def exec_stmt(self, st: ast.stmt, fr: Frame) -> None:
        poll_deadline()
        m = getattr(self, "st_" + type(st).__name__, None)
        if m is None:
            raise Unsupported(f"statement {type(st).__name__} in {fr.qualname}")
        m(st, fr)

    def st_Expr(self, st: ast.Expr, fr: Frame) -> None:
        if isinstance(st.value, ast.Constant):
            return
        self.eval(st.value, fr)

    def st_Pass(self, st: ast.Pass, fr: Frame) -> None:
        pass

    def st_Import(self, st: ast.Import, fr: Frame) -> None:
        import importlib
        for a in st.names:
            mod = importlib.import_module(a.name)
            fr.env[a.asname or a.name.split(".")[0]] = VConst(
                mod if a.asname else importlib.import_module(a.name.split(".")[0]))

    def st_ImportFrom(self, st: ast.ImportFrom, fr: Frame) -> None:
        import importlib
        mod = importlib.import_module(st.module or "")
        for a in st.names:
            fr.env[a.asname or a.name] = wrap(getattr(mod, a.name))

    def st_Return(self, st: ast.Return, fr: Frame) -> None:
        raise _Return(self.eval(st.value, fr) if st.value is not None else NONE)

    def st_Break(self, st: ast.Break, fr: Frame) -> None:
        raise _Break()

    def st_Continue(self, st: ast.Continue, fr: Frame) -> None:
        raise _Continue()

    def st_Assign(self, st: ast.Assign, fr: Frame) -> None:
        val = self.eval(st.value, fr)
        for tgt in st.targets:
            self.assign(tgt, val, fr)

    def st_AnnAssign(self, st: ast.AnnAssign, fr: Frame) -> None:
        if st.value is not None:
            self.assign(st.target, self.eval(st.value, fr), fr)

    def st_AugAssign(self, st: ast.AugAssign, fr: Frame) -> None:
        from . import models
        load = _as_load(st.target)
        cur = self.eval(load, fr)
        rhs = self.eval(st.value, fr)
        if isinstance(cur, VList) and isinstance(st.op, ast.Add) and cur.items is not None:
            # list += iterable mutates in place
            cur.items.extend(self.iterate(rhs))
            return
        self.assign(st.target, models.binop(self, st.op, cur, rhs), fr)

    def st_Delete(self, st: ast.Delete, fr: Frame) -> None:
        for t in st.targets:
            if isinstance(t, ast.Name):
                fr.env.pop(t.id, None)
            elif isinstance(t, ast.Subscript):
                from . import models
                models.delitem(self, self.eval(t.value, fr), self.eval(t.slice, fr))
            else:
                raise Unsupported("del target")

    def assign(self, tgt: ast.expr, val: V, fr: Frame) -> None:
        from . import models
        if isinstance(tgt, ast.Name):
            fr.env[tgt.id] = val
            fr.poison.discard(tgt.id)
        elif isinstance(tgt, ast.Attribute):
            self.setattr_v(self.eval(tgt.value, fr), tgt.attr, val)
        elif isinstance(tgt, (ast.Tuple, ast.List)):
            items = self.unpack(val, len(tgt.elts))
            for t, x in zip(tgt.elts, items):
                self.assign(t, x, fr)
        elif isinstance(tgt, ast.Subscript):
            models.setitem(self, self.eval(tgt.value, fr), self.eval(tgt.slice, fr), val)
        else:
            raise Unsupported(f"assignment target {type(tgt).__name__}")

    def unpack(self, val: V, n: int) -> list[V]:
        items = self.iterate(val)
        if len(items) != n:
            self.raise_py(ValueError, f"not enough/too many values to unpack (expected {n})")
        return items

    def st_If(self, st: ast.If, fr: Frame) -> None:
        if self.branch(self.eval(st.test, fr)):
            self.exec_block(st.body, fr)
        else:
            self.exec_block(st.orelse, fr)

    def st_Assert(self, st: ast.Assert, fr: Frame) -> None:
        if not self.branch(self.eval(st.test, fr)):
            self.raise_py(AssertionError)

    def st_Raise(self, st: ast.Raise, fr: Frame) -> None:
        if st.exc is None:
            if not fr.cur_exc:
                self.raise_py(RuntimeError, "No active exception to reraise")
            raise PyExc(fr.cur_exc[-1])
        e = self.eval(st.exc, fr)
        if isinstance(e, VConst) and isinstance(e.py, type):
            e = self.instantiate(e.py, [], {})
        if not isinstance(e, VObj):
            raise Unsupported(f"raise of {e!r}")
        if st.cause is not None:
            e.fields["__cause__"] = self.eval(st.cause, fr)
        elif fr.cur_exc and "__context__" not in e.fields:
            e.fields["__context__"] = fr.cur_exc[-1]
        raise PyExc(e)

    def st_Try(self, st: ast.Try, fr: Frame) -> None:
        try:
            self._try_core(st, fr)
        except (PyExc, _Return, _Break, _Continue):
            # finally runs on every exit kind; if it raises/returns itself, that wins
            if st.finalbody:
                self.exec_block(st.finalbody, fr)
            raise
        if st.finalbody:
            self.exec_block(st.finalbody, fr)

    def _try_core(self, st: ast.Try, fr: Frame) -> None:
        try:
            self.exec_block(st.body, fr)
        except PyExc as pe:
            for h in st.handlers:
                if self.exc_matches(pe.exc, h.type, fr):
                    if h.name:
                        fr.env[h.name] = pe.exc
                    fr.cur_exc.append(pe.exc)
                    try:
                        self.exec_block(h.body, fr)
                    finally:
                        fr.cur_exc.pop()
                        if h.name:
                            fr.env.pop(h.name, None)
                    return
            raise
        self.exec_block(st.orelse, fr)

    def exc_matches(self, exc: VObj, typ: ast.expr | None, fr: Frame) -> bool:
        if typ is None:
            return True
        t = self.eval(typ, fr)
        classes = [x for x in (t.items if isinstance(t, (VTuple, VList)) else [t])]
        for c in classes:
            if isinstance(c, VConst) and isinstance(c.py, type):
                if issubclass(exc.cls, c.py):
                    return True
            else:
                raise Unsupported("except clause with non-class")
        return False

    def st_With(self, st: Any, fr: Frame) -> None:
        from . import models
        models.with_stmt(self, st, fr)

    st_AsyncWith = st_With

    def st_While(self, st: ast.While, fr: Frame) -> None:
        from . import loops
        loops.while_loop(self, st, fr)

    def st_For(self, st: ast.For, fr: Frame) -> None:
        from . import loops
        loops.for_loop(self, st, fr)

    st_AsyncFor = st_For

    def st_Match(self, st: Any, fr: Frame) -> None:
        from . import models
        models.match_stmt(self, st, fr)

    def st_FunctionDef(self, st: ast.FunctionDef, fr: Frame) -> None:
        """A nested function is a closure over the defining frame (read access to its locals at
        call time; `nonlocal` rebinding, decorators and default expressions are outside)."""
        a = st.args
        if st.decorator_list or a.defaults or a.kw_defaults or any(
                isinstance(n, (ast.Nonlocal, ast.Yield, ast.YieldFrom)) for n in ast.walk(st)):
            raise Unsupported(f"nested function {st.name} in {fr.qualname} (decorator, default "
                              f"or nonlocal)")
        shim = types.SimpleNamespace(
            __qualname__=f"{fr.qualname}.<locals>.{st.name}", __module__=getattr(
                fr.fn, "__module__", "?"), __defaults__=(), __kwdefaults__={},
            __globals__=fr.globals, __name__=st.name)
        fr.env[st.name] = VClosure(st, shim, fr)

    st_AsyncFunctionDef = st_FunctionDef

    def st_Global(self, st: ast.Global, fr: Frame) -> None:
        raise Unsupported("global statement")

    # ------------------------------------------------------------------ expressions
    def eval(self, e: ast.expr, fr: Frame) -> V:
        m = getattr(self, "ev_" + type(e).__name__, None)
        if m is None:
            raise Unsupported(f"expression {type(e).__name__} in {fr.qualname}")
        return m(e, fr)

    def ev_Constant(self, e: ast.Constant, fr: Frame) -> V:
        if e.value is Ellipsis:
            return VConst(Ellipsis)
        return wrap(e.value)

    def ev_Name(self, e: ast.Name, fr: Frame) -> V:
        if e.id in fr.env:
            return fr.env[e.id]
        if e.id in fr.poison:
            raise Unsupported(f"read of loop-local '{e.id}' after a templated loop")
        node, _ = function_ast(fr.fn) if isinstance(fr.fn, types.FunctionType) else (None, "")
        if node is not None and e.id in _assigned_names(node):
            self.raise_py(UnboundLocalError,
                          f"cannot access local variable '{e.id}' where it is not associated "
                          f"with a value")
        if e.id in fr.globals:
            return wrap(fr.globals[e.id])
        import builtins
        if hasattr(builtins, e.id):
            return VConst(getattr(builtins, e.id))
        # closure variables
        fn = fr.fn
        if getattr(fn, "__closure__", None):
            for n, c in zip(fn.__code__.co_freevars, fn.__closure__):
                if n == e.id:
                    return wrap(c.cell_contents)
        self.raise_py(NameError, f"name '{e.id}' is not defined")

    def ev_Attribute(self, e: ast.Attribute, fr: Frame) -> V:
        return self.getattr_v(self.eval(e.value, fr), e.attr)

    def ev_Tuple(self, e: ast.Tuple, fr: Frame) -> V:
        return VTuple(self.eval_seq(e.elts, fr))

    def ev_List(self, e: ast.List, fr: Frame) -> V:
        return VList(self.eval_seq(e.elts, fr))

    def ev_Set(self, e: ast.Set, fr: Frame) -> V:
        return VList(self.eval_seq(e.elts, fr), kind="set")

    def eval_seq(self, elts: list[ast.expr], fr: Frame) -> list[V]:
        out: list[V] = []
        for x in elts:
            if isinstance(x, ast.Starred):
                out.extend(self.iterate(self.eval(x.value, fr)))
            else:
                out.append(self.eval(x, fr))
        return out

    def ev_Dict(self, e: ast.Dict, fr: Frame) -> V:
        from . import models
        d = VDict()
        for k, v in zip(e.keys, e.values):
            if k is None:
                src = self.eval(v, fr)
                if not isinstance(src, VDict):
                    raise Unsupported("** of non-dict")
                for kk, vv in src.items:
                    models.dict_set(self, d, kk, vv)
            else:
                models.dict_set(self, d, self.eval(k, fr), self.eval(v, fr))
        return d

    def ev_JoinedStr(self, e: ast.JoinedStr, fr: Frame) -> V:
        from . import models
        return models.joined_str(self, e, fr)

    def ev_BinOp(self, e: ast.BinOp, fr: Frame) -> V:
        from . import models
        left = self.eval(e.left, fr)
        right = self.eval(e.right, fr)
        return models.binop(self, e.op, left, right)

    def ev_UnaryOp(self, e: ast.UnaryOp, fr: Frame) -> V:
        from . import models
        v = self.eval(e.operand, fr)
        if isinstance(e.op, ast.Not):
            t = self.truth(v)
            return VBool(not t) if isinstance(t, bool) else VBool(z3.Not(t))
        return models.unaryop(self, e.op, v)

    def ev_BoolOp(self, e: ast.BoolOp, fr: Frame) -> V:
        # exact short-circuit semantics (values, not just truth), by forking
        is_and = isinstance(e.op, ast.And)
        v: V = NONE
        for i, x in enumerate(e.values):
            v = self.eval(x, fr)
            if i == len(e.values) - 1:
                return v
            t = self.branch(v)
            if is_and and not t:
                return v
            if not is_and and t:
                return v
        return v

    def ev_Compare(self, e: ast.Compare, fr: Frame) -> V:
        from . import models
        left = self.eval(e.left, fr)
        result: V | None = None
        for i, (op, rhs) in enumerate(zip(e.ops, e.comparators)):
            right = self.eval(rhs, fr)
            r = models.compare(self, op, left, right)
            if len(e.ops) == 1:
                return r
            if i == len(e.ops) - 1:
                return r
            if not self.branch(r):
                return VBool(False)
            left = right
        return result or VBool(True)

    def ev_IfExp(self, e: ast.IfExp, fr: Frame) -> V:
        if self.branch(self.eval(e.test, fr)):
            return self.eval(e.body, fr)
        return self.eval(e.orelse, fr)

    def ev_NamedExpr(self, e: ast.NamedExpr, fr: Frame) -> V:
        v = self.eval(e.value, fr)
        self.assign(e.target, v, fr)
        return v

    def ev_Subscript(self, e: ast.Subscript, fr: Frame) -> V:
        from . import models
        base = self.eval(e.value, fr)
        if isinstance(e.slice, ast.Slice):
            lo = self.eval(e.slice.lower, fr) if e.slice.lower is not None else None
            hi = self.eval(e.slice.upper, fr) if e.slice.upper is not None else None
            step = self.eval(e.slice.step, fr) if e.slice.step is not None else None
            return models.getslice(self, base, lo, hi, step)
        return models.getitem(self, base, self.eval(e.slice, fr))

    def ev_Slice(self, e: ast.Slice, fr: Frame) -> V:
        raise Unsupported("bare slice")

    def ev_Await(self, e: ast.Await, fr: Frame) -> V:
        return self.await_v(self.eval(e.value, fr))

    def await_v(self, v: V) -> V:
        if isinstance(v, VCoro):
            return v.thunk()
        return v

    def ev_Yield(self, e: ast.Yield, fr: Frame) -> V:
        # generators are run eagerly; yielded values go to the ghost output sequence
        v = self.eval(e.value, fr) if e.value is not None else NONE
        self.ghost.setdefault("yielded", []).append(v)
        hook = self.ghost.get("on_yield")
        if hook is not None:
            hook(self, v)
        return NONE

    def ev_Lambda(self, e: ast.Lambda, fr: Frame) -> V:
        # a lambda is a closure whose body is one return statement
        if e.args.defaults or e.args.kw_defaults:
            raise Unsupported("lambda with default arguments")
        node = ast.FunctionDef(name="<lambda>", args=e.args,
                               body=[ast.Return(value=e.body)], decorator_list=[])
        ast.copy_location(node, e)
        ast.fix_missing_locations(node)
        shim = types.SimpleNamespace(
            __qualname__=f"{fr.qualname}.<locals>.<lambda>", __module__=getattr(
                fr.fn, "__module__", "?"), __defaults__=(), __kwdefaults__={},
            __globals__=fr.globals, __name__="<lambda>")
        return VClosure(node, shim, fr)

    def ev_Starred(self, e: ast.Starred, fr: Frame) -> V:
        raise Unsupported("starred expression outside call/display")

    def ev_Call(self, e: ast.Call, fr: Frame) -> V:
        from . import models
        # super() needs the frame
        if isinstance(e.func, ast.Name) and e.func.id == "super" and not e.args:
            if fr.owner is None:
                raise Unsupported("super() without owner class")
            node, _ = function_ast(fr.fn)
            first = (node.args.posonlyargs + node.args.args)[0].arg
            return VSuper(fr.owner, fr.env[first])
        callee = self.eval(e.func, fr)
        args: list[V] = []
        for a in e.args:
            if isinstance(a, ast.Starred):
                sv = self.eval(a.value, fr)
                if isinstance(sv, VList) and sv.items is None:
                    args.append(models.StarList(sv))
                else:
                    args.extend(self.iterate(sv))
            else:
                args.append(self.eval(a, fr))
        kwargs: dict[str, V] = {}
        for k in e.keywords:
            if k.arg is None:
                d = self.eval(k.value, fr)
                if not isinstance(d, VDict):
                    raise Unsupported("** of non-dict")
                for kk, vv in d.items:
                    if not isinstance(kk, VStr) or kk.s is None:
                        raise Unsupported("** with non-str key")
                    kwargs[kk.s] = vv
            else:
                kwargs[k.arg] = self.eval(k.value, fr)
        return self.call_v(callee, args, kwargs)

    def ev_ListComp(self, e: ast.ListComp, fr: Frame) -> V:
        from . import loops
        return loops.comprehension(self, e, fr, "list")

    def ev_GeneratorExp(self, e: ast.GeneratorExp, fr: Frame) -> V:
        from . import loops
        return loops.comprehension(self, e, fr, "gen")

    def ev_SetComp(self, e: ast.SetComp, fr: Frame) -> V:
        from . import loops
        return loops.comprehension(self, e, fr, "set")

    def ev_DictComp(self, e: ast.DictComp, fr: Frame) -> V:
        from . import loops
        return loops.comprehension(self, e, fr, "dict")

    # ------------------------------------------------------------------ iteration
    def iterate(self, v: V) -> list[V]:
        """Elements of a value whose spine is concrete."""
        from . import models
        return models.iterate(self, v)


def _owner_of(fn: Any) -> type | None:
    """Class in whose body `fn` was defined (for super())."""
    qn = getattr(fn, "__qualname__", "")
    if "." not in qn or "<locals>" in qn:
        return None
    import sys
    mod = sys.modules.get(fn.__module__)
    obj: Any = mod
    for part in qn.split(".")[:-1]:
        obj = getattr(obj, part, None)
        if obj is None:
            return None
    return obj if isinstance(obj, type) else None


def _has_source(fn: Any) -> bool:
    try:
        inspect.getsource(fn)
        return True
    except (OSError, TypeError):
        return False


_ASSIGNED: dict[int, set[str]] = {}


def _assigned_names(node: ast.AST) -> set[str]:
    k = id(node)
    if k not in _ASSIGNED:
        names: set[str] = set()
        for n in ast.walk(node):
            if isinstance(n, ast.Name) and isinstance(n.ctx, (ast.Store, ast.Del)):
                names.add(n.id)
            elif isinstance(n, ast.ExceptHandler) and n.name:
                names.add(n.name)
            elif isinstance(n, ast.arg):
                names.add(n.arg)
        _ASSIGNED[k] = names
    return _ASSIGNED[k]


def _as_load(t: ast.expr) -> ast.expr:
    import copy
    t2 = copy.copy(t)
    t2.ctx = ast.Load()  # type: ignore[attr-defined]
    return t2


def concretize(m: Any, v: V, interp: Interp | None = None) -> Any:
    """Value of v under model m as a JSON-friendly Python value."""
    if isinstance(v, VInt):
        x = m.eval(v.t, model_completion=True)
        return x.as_long() if z3.is_int_value(x) else str(x)
    if isinstance(v, VBool):
        return z3.is_true(m.eval(v.t, model_completion=True))
    if v is NONE:
        return None
    if isinstance(v, VBytes):
        from .values import seq_to_bytes
        b = seq_to_bytes(z3.simplify(m.eval(v.t, model_completion=True)))
        return {"bytes": b.hex()} if b is not None else {"bytes?": str(m.eval(v.t))}
    if isinstance(v, VTuple):
        return {"tuple": [concretize(m, x, interp) for x in v.items]}
    if isinstance(v, VList):
        if v.items is not None:
            return [concretize(m, x, interp) for x in v.items]
        n = m.eval(v.n, model_completion=True)
        n = n.as_long() if z3.is_int_value(n) else 0
        return [concretize(m, v.get(z3.IntVal(j)), interp) for j in range(min(n, 16))]
    if isinstance(v, VDict):
        return {"dict": [[concretize(m, k, interp), concretize(m, x, interp)]
                         for k, x in v.items]}
    if isinstance(v, VStr):
        return v.s
    if isinstance(v, VFloat):
        return str(m.eval(v.t, model_completion=True))
    if isinstance(v, VObj):
        return {"obj": v.cls.__name__,
                "fields": {k: concretize(m, x, interp) for k, x in v.fields.items()
                           if isinstance(x, (VInt, VBool, VBytes, VList, VTuple))
                           or x is NONE}}
    return repr(v)
