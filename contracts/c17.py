"""C17 - log records written by a run are read back exactly, in any navigation mode
(proved-partial, DESIGN 5/C17).

Abstract file = lines 0..n-1 with byte offsets OFF(k) (OFF(0) = 0, strictly increasing,
OFF(n) = size); the mmap object is a contract over a ghost position:
tell() = pos, seek(x) sets pos, readline() at pos = OFF(k) returns line k and moves to OFF(k+1),
at pos = size it returns b"".
  P1  `_parse_file_structure`: afterwards `_record_offsets == [OFF(0) .. OFF(n-1)]` whatever the
      read position was, and the position is restored              (sidecar loop invariant)
  P2  `_lookup_offset(i)` = OFF(i mod n) with Python negative indexing; IndexError outside
      [-n, n); `len(reader) == n`
  P3  `records()` forward: one arbitrary iteration yields line `cur` iff its priority passes the
      filter and advances by exactly one line; the walk ends exactly at the end of the file
  P4  `records(reverse=True)`: one arbitrary iteration yields the current line and steps to the
      previous one; it ends after line 0 (never wraps around)
  P5  hr option -> slice: --reverse starts at the last record, --tail n at max(len - n, 0),
      --head n takes the first n of the forward walk
  P6  PenlogPriority.from_level / to_level are mutually inverse on the 7 levels; the `<p>` prefix
      is parsed and stripped for every priority, and absent prefixes are accepted
Not claimed: JSON text round trip, zstd/gzip containers, Unicode escaping (json / zstandard /
gzip are trusted).
"""
from __future__ import annotations

import itertools
from typing import Any

import z3

from pyvc import loops, models
from pyvc.engine import Explorer, Frame, Interp, PyExc
from pyvc.runner import Check, Unit, run_units
from pyvc.values import (NONE, V, VBool, VBytes, VConst, VDict, VFloat, VInt, VList, VObj, VStr,
                         VTuple)

from . import transport_env as te
from .c15 import Stub, coro

OFF = z3.Function("OFF", z3.IntSort(), z3.IntSort())
N = z3.Int("n_lines")
PRIO = z3.Function("PRIO", z3.IntSort(), z3.IntSort())


def L() -> Any:
    import gallia.command  # noqa: F401
    from gallia import log
    return log


def file_axioms(I: Interp) -> None:
    I.assume(N >= 0)
    I.assume(OFF(0) == 0)
    I.note_index(z3.IntVal(0))
    I.note_index(N)
    I.lambda_axioms_add(lambda j: z3.Implies(z3.And(j >= 0, j < N), OFF(j) < OFF(j + 1)))
    I.lambda_axioms_add(lambda j: z3.Implies(z3.And(j >= 0, j <= N),
                                             z3.And(OFF(j) >= 0, OFF(j) <= OFF(N))))
    I.lambda_axioms_add(lambda j: z3.Implies(z3.And(j >= 0, j < N),
                                             z3.And(PRIO(j) >= 0, PRIO(j) <= 8)))


def install_mmap(ex: Explorer) -> None:
    def tell(I: Interp, r: V, a: list[V], k: dict[str, V]) -> V:
        return VInt(I.ghost["pos"])

    def seek(I: Interp, r: V, a: list[V], k: dict[str, V]) -> V:
        p = z3.simplify(models.as_int(I, a[0]))
        I.ghost["pos"] = p
        I.ghost["seeks"] = I.ghost.get("seeks", 0) + 1
        # ghost line index of the new position (positions handed to seek are record starts)
        if z3.is_int_value(p) and p.as_long() == 0:
            I.ghost["cur"] = z3.IntVal(0)
        elif z3.is_app(p) and p.decl().eq(OFF):
            I.ghost["cur"] = p.arg(0)
        else:
            c = I.fresh_int("line_of_pos")
            I.ghost["cur"] = c.t
            I.ghost["unknown_line"] = True
        I.note_index(I.ghost["cur"])
        return NONE

    def readline(I: Interp, r: V, a: list[V], k: dict[str, V]) -> V:
        cur = I.ghost["cur"]  # ghost line index with pos == OFF(cur)
        I.prove("M-reads-start-at-a-record-boundary", I.ghost["pos"] == OFF(cur))
        if I.branch(cur >= N):
            I.ghost["last_line"] = None
            return VBytes(b"")
        I.note_index(cur)
        line = I.fresh_bytes("line", minlen=1)
        I.ghost["last_line"] = cur
        I.ghost["line_obj"] = line
        I.ghost["cur"] = cur + 1
        I.ghost["pos"] = OFF(cur + 1)
        I.note_index(cur + 1)
        return line
    ex.stubs[("mmap", "tell")] = tell
    ex.stubs[("mmap", "seek")] = seek
    ex.stubs[("mmap", "readline")] = readline


def mk_reader(I: Interp, parsed: bool) -> VObj:
    lg = L()
    offs = VList(None, N, lambda j: VInt(OFF(j))) if parsed else VList([])
    return VObj(lg.PenlogReader, {
        "file_mmap": te.stub("mmap"), "_current_line": VBytes(b""), "_current_record": NONE,
        "_current_record_index": VInt(0), "_parsed": VBool(parsed), "_record_offsets": offs})


def parse_harness(I: Interp) -> None:
    lg = L()
    install_mmap(I.ex)
    file_axioms(I)
    rd = mk_reader(I, False)
    k0 = I.fresh_int("position_line", 0, None, inp=True)
    I.assume(k0.t <= N)
    I.note_index(k0.t)
    # stale content from an earlier (wrong) parse must not survive either
    stale = I.choose([z3.BoolVal(True)] * 2) == 1
    if stale:
        rd.fields["_record_offsets"] = VList(None, I.fresh_int("stale_n", 1).t,
                                             lambda j: VInt(z3.Int("stale")))
    I.ghost.update({"pos": OFF(k0.t), "cur": k0.t, "seeks": 0})
    pos0 = I.ghost["pos"]

    def havoc(I2: Interp, fr: Frame) -> None:
        c = I2.fresh_int("cur", 0)
        I2.assume(c.t <= N)
        I2.note_index(c.t)
        I2.ghost["cur"] = c.t
        I2.ghost["pos"] = OFF(c.t)
        self_ = fr.env["self"]
        new = VList(None, c.t, lambda j: VInt(OFF(j)))
        cur_list = self_.fields.get("_record_offsets")
        if isinstance(cur_list, VList):
            cur_list.become(new)  # in place: a local alias of the list stays an alias
        else:
            self_.fields["_record_offsets"] = new
        fr.env.pop("line", None)

    def inv(I2: Interp, fr: Frame) -> list[tuple[str, Any]]:
        self_ = fr.env["self"]
        ro = self_.fields["_record_offsets"]
        c = I2.ghost["cur"]
        sk = z3.Int(I2.fresh_name("p_sk"))
        I2.note_index(sk)
        vals = z3.BoolVal(True) if (ro.items is not None and not ro.items) else z3.Implies(
            z3.And(sk >= 0, sk < c, sk < ro.length()), models.as_int(I2, ro.at(sk)) == OFF(sk))
        return [("position-at-a-record-boundary", I2.ghost["pos"] == OFF(c)),
                ("offsets-collected-so-far-are-OFF(0..cur-1)(count)", ro.length() == c),
                ("offsets-collected-so-far-are-OFF(0..cur-1)(values)", vals)]
    I.ex.loop_contracts[("PenlogReader._parse_file_structure", 0)] = loops.LoopContract(
        havoc, inv)
    try:
        I.call_v(I.getattr_v(rd, "_parse_file_structure"), [], {})
    except PyExc as e:
        I.fail("P1-parse-does-not-raise", e.exc.cls.__name__)
        return
    ro = rd.fields["_record_offsets"]
    I.prove("P1-one-offset-per-record", ro.length() == N)
    sk = z3.Int(I.fresh_name("p1_sk"))
    I.note_index(sk)
    I.prove("P1-offsets-are-the-record-starts-independent-of-the-read-position",
            z3.Implies(z3.And(sk >= 0, sk < N, sk < ro.length()),
                       models.as_int(I, ro.at(sk)) == OFF(sk)))
    I.prove("P1-read-position-restored", I.ghost["pos"] == pos0)
    I.prove("P1-marked-parsed", I.truth(rd.fields["_parsed"]))


def lookup_harness(I: Interp) -> None:
    install_mmap(I.ex)
    file_axioms(I)
    rd = mk_reader(I, True)
    i = I.fresh_int("index", inp=True)
    try:
        r = I.call_v(I.getattr_v(rd, "_lookup_offset"), [i], {})
    except PyExc as e:
        I.prove("P2-IndexError-exactly-outside-[-n,n)", z3.And(
            z3.BoolVal(issubclass(e.exc.cls, IndexError)),
            z3.Or(i.t >= N, i.t < -N)))
        return
    I.prove("P2-lookup-is-the-record-start(negative-indices-count-from-the-end)", z3.Or(
        z3.And(i.t == 0, r.t == 0),
        z3.And(i.t > 0, i.t < N, r.t == OFF(i.t)),
        z3.And(i.t < 0, i.t >= -N, r.t == OFF(N + i.t))))
    ln = I.call(len, rd)
    I.prove("P2-len-is-the-number-of-records", ln.t == N)


def records_harness(reverse: bool, empty: bool = False):
    def harness(I: Interp) -> None:
        lg = L()
        install_mmap(I.ex)
        file_axioms(I)
        rd = mk_reader(I, True)
        yielded: list[V] = []
        I.ghost["yielded"] = yielded
        threshold = I.fresh_int("priority", 0, 8, inp=True)

        def cur_prio(I2: Interp, self_: V) -> V:
            # precondition: the current line is a record (parsing b"" raises JSONDecodeError)
            if I2.ghost.get("last_line") is None:
                I2.fail("P4-current-record-is-consulted-only-after-a-line-was-read",
                        "readline() returned b'' (empty log / end of file)")
                raise PyExc(VObj(ValueError, {"args": VTuple([])}))
            return VInt(PRIO(I2.ghost["last_line"]))
        I.ex.contracts[lg.PenlogReader.__dict__["current_priority"].fget] = cur_prio

        def cur_rec(I2: Interp, self_: V) -> V:
            return VObj(Stub, {"line": VInt(I2.ghost["last_line"])}, tag="record")
        I.ex.contracts[lg.PenlogReader.__dict__["current_record"].fget] = cur_rec

        def seek_to_record(I2: Interp, self_: V, n: V) -> V:
            idx = models.as_int(I2, n)
            if not I2.branch(z3.And(idx >= -N, idx < N)):
                if not I2.branch(idx == 0):
                    I2.raise_py(IndexError, "list index out of range")
            I2.ghost["cur"] = z3.If(idx >= 0, idx, N + idx)
            I2.ghost["pos"] = OFF(I2.ghost["cur"])
            I2.note_index(I2.ghost["cur"])
            self_.fields["_current_record_index"] = VInt(idx)
            return NONE
        I.ex.contracts[lg.PenlogReader.seek_to_record] = seek_to_record
        offset = I.fresh_int("offset", inp=True)
        if reverse and empty:
            I.assume(z3.And(N == 0, offset.t == 0))
            I.ex.loop_contracts.pop(("PenlogReader.records", 1), None)
        elif reverse:
            I.assume(z3.And(offset.t >= -N, offset.t < N, N >= 1))
        else:
            I.assume(z3.Or(z3.And(offset.t >= -N, offset.t < N), offset.t == 0))
        ended = {"at": None}

        def havoc(I2: Interp, fr: Frame) -> None:
            yielded.clear()
            c = I2.fresh_int("cur", 0)
            I2.assume(c.t <= N)
            if reverse:
                I2.assume(c.t < N)
                idx = I2.fresh_int("idx")
                I2.assume(z3.Or(idx.t == c.t, idx.t == c.t - N))
                fr.env["self"].fields["_current_record_index"] = idx
            I2.note_index(c.t)
            I2.ghost["cur"] = c.t
            I2.ghost["pos"] = OFF(c.t)
            I2.ghost["iter_start"] = c.t
            I2.ghost["last_line"] = None

        def inv(I2: Interp, fr: Frame) -> list[tuple[str, Any]]:
            s = I2.ghost.get("iter_start")
            out = [("position-at-a-record-boundary", I2.ghost["pos"] == OFF(I2.ghost["cur"]))]
            if reverse:
                idx = models.as_int(I2, fr.env["self"].fields["_current_record_index"])
                out.append(("index-names-the-current-record",
                            z3.Or(idx == I2.ghost["cur"], idx == I2.ghost["cur"] - N)))
            if s is None or I2.ghost.get("last_line") is None:
                return out
            passes = PRIO(s) <= threshold.t
            out.append(("record-yielded-iff-its-priority-passes", z3.And(
                z3.BoolVal(len(yielded) <= 1),
                passes == z3.BoolVal(len(yielded) == 1))))
            if yielded:
                out.append(("the-yielded-record-is-the-current-line",
                            yielded[0].fields["line"] == s
                            if not isinstance(yielded[0].fields["line"], VInt)
                            else yielded[0].fields["line"].t == s))
            out.append(("moves-by-exactly-one-record",
                        I2.ghost["cur"] == (s - 1 if reverse else s + 1)))
            return out
        if not empty:
            I.ex.loop_contracts[("PenlogReader.records", 1 if reverse else 0)] = \
                loops.LoopContract(havoc, inv)
        I.ghost.update({"pos": z3.IntVal(0), "cur": z3.IntVal(0), "last_line": None})
        try:
            I.call_v(I.getattr_v(rd, "records"), [threshold, offset, VBool(reverse)], {})
        except PyExc as e:
            I.fail("P3-records-does-not-raise-for-a-valid-offset", e.exc.cls.__name__)
            return
        if empty:
            I.prove("P4-reverse-walk-over-an-empty-log-yields-nothing",
                    z3.BoolVal(not I.ghost.get("yielded")))
            return
        s = I.ghost.get("iter_start")
        if s is None:
            return
        if reverse:
            I.prove("P4-reverse-walk-ends-after-the-first-record(no-wrap-around)", s == 0)
        else:
            I.prove("P3-forward-walk-ends-exactly-at-the-end-of-the-file", s == N)
    return harness


def hr_harness(mode: str):
    def harness(I: Interp) -> None:
        import gallia.command  # noqa: F401
        from gallia.cli import hr
        lg = L()
        n_req = I.fresh_int("lines", 0, None, inp=True)
        prio = VInt(7)
        path = te.stub("path")
        I.ex.stubs[("path", "is_file")] = lambda I2, r, a, k: VBool(True)
        args = VObj(Stub, {"FILE": VList([path]), "color": VStr("never"), "priority": prio,
                           "reverse": VBool(mode == "reverse"), "head": VBool(mode == "head"),
                           "tail": VBool(mode == "tail"), "lines": n_req}, tag="args")
        I.ex.contracts[hr.parse_args] = lambda I2: args
        models.MODELS[hr.resolve_color_mode] = lambda I2, a, k: VBool(False)
        calls: list[tuple] = []
        I.assume(N >= 0)

        printed: list[int] = []

        def records(I2: Interp, recv: V, a: list[V], k: dict[str, V]) -> V:
            calls.append((a, k))
            # one marker record per walk: what hr prints tells which walk it iterated
            return VList([VObj(Stub, {"walk": VInt(len(calls) - 1)}, tag="hr-record")])

        def print_(I2: Interp, a: list[V], k: dict[str, V]) -> V:
            if a and isinstance(a[0], VObj) and a[0].tag == "hr-record":
                printed.append(a[0].fields["walk"].concrete())
            return NONE
        orig_print = models.MODELS[print]
        models.MODELS[print] = print_
        models.MODELS[iter] = lambda I2, a, k: a[0] if isinstance(a[0], VList) else VList(
            I2.iterate(a[0]))
        I.ex.stubs[("reader", "records")] = records
        I.ex.stubs[("reader", "__len__")] = lambda I2, r, a, k: VInt(N)
        reader = VObj(Stub, {}, lazy=True, tag="reader")
        models.CLASS_MODELS[lg.PenlogReader] = lambda I2, cls, a, k: reader

        def reader_cm(I2: Interp, cm: V) -> Any:
            if cm is reader:
                return (lambda: reader), (lambda exc: False)
            return None
        models.WITH_MODELS.insert(0, reader_cm)
        sliced: dict[str, V] = {}

        def isl(I2: Interp, a: list[V], k: dict[str, V]) -> V:
            sliced["n"] = a[1]
            return a[0]
        models.MODELS[itertools.islice] = isl
        orig_len = models.MODELS[len]

        def len_(I2: Interp, a: list[V], k: dict[str, V]) -> V:
            if a[0] is reader:
                return VInt(N)
            return orig_len(I2, a, k)
        models.MODELS[len] = len_
        try:
            I.call(hr._main)
        except PyExc as e:
            I.fail("P5-hr-does-not-raise", e.exc.cls.__name__)
            return
        finally:
            models.MODELS[len] = orig_len
            models.MODELS[print] = orig_print
            models.WITH_MODELS.remove(reader_cm)
        if not printed:
            # nothing was iterated: right exactly when the requested slice is empty
            I.prove("P5-no-walk-only-when-the-requested-slice-is-empty", z3.BoolVal(
                mode in ("tail", "head")) if mode not in ("tail", "head") else z3.Or(
                    n_req.t == 0, N == 0))
            return
        I.prove("P5-exactly-one-walk-is-printed", z3.BoolVal(len(set(printed)) == 1))
        last_a, last_k = calls[printed[0]]

        def arg(name: str, pos: int, default: V) -> V:
            if name in last_k:
                return last_k[name]
            return last_a[pos] if len(last_a) > pos else default
        off = models.as_int(I, arg("offset", 1, VInt(0)))
        rev = I.truth(arg("reverse", 2, VBool(False)))
        rev = z3.BoolVal(rev) if isinstance(rev, bool) else rev
        if mode == "reverse":
            I.prove("P5-reverse-starts-at-the-last-record",
                    z3.And(rev, z3.If(N > 0, off == -1, off == 0)))
        elif mode == "tail":
            # the slice the statement names: records[max(len - n, 0):], going forward; an offset
            # k < 0 starts at record len + k, k >= 0 at record k (P2)
            start = z3.If(off < 0, N + off, off)
            I.prove("P5-tail-n-starts-at-max(len-n,0)-going-forward", z3.And(
                z3.Not(rev), off >= -N, start == z3.If(N - n_req.t > 0, N - n_req.t, 0)))
        elif mode == "head":
            I.prove("P5-head-n-takes-the-first-n-of-the-forward-walk", z3.And(
                z3.Not(rev), off == 0, z3.BoolVal(sliced.get("n") is n_req)))
        else:
            I.prove("P5-default-is-the-whole-file-forward", z3.And(z3.Not(rev), off == 0))
    return harness


def priority_harness(I: Interp) -> None:
    lg = L()
    import logging
    P = lg.PenlogPriority
    mapped = 0
    for p in P:
        try:
            lv = I.call_v(I.getattr_v(wrap_enum(p), "to_level"), [], {})
        except PyExc as e:
            I.prove(f"P6-only-EMERGENCY-and-ALERT-have-no-python-level({p.name})",
                    z3.BoolVal(p.name in ("EMERGENCY", "ALERT")
                               and issubclass(e.exc.cls, ValueError)))
            continue
        mapped += 1
        back = I.call_v(I.getattr_v(VConst(P), "from_level"), [lv], {})
        I.prove(f"P6-from_level(to_level({p.name}))", models.as_int(I, back) == int(p))
    I.prove("P6-seven-levels-are-mapped", z3.BoolVal(mapped == 7))
    for lv_ in lg.Loglevel:
        pr = I.call_v(I.getattr_v(VConst(P), "from_level"), [wrap_enum(lv_)], {})
        lv2 = I.call_v(I.getattr_v(pr, "to_level"), [], {})
        I.prove(f"P6-to_level(from_level({lv_.name}))", models.as_int(I, lv2) == int(lv_))
    for p in range(0, 9):
        body = b'{"x": 1}'
        line = VBytes(b"<%d>" % p + body)
        r = I.call_v(I.getattr_v(VConst(lg.PenlogRecord), "parse_priority"), [line], {})
        I.prove(f"P6-prefix-<{p}>-parsed", r.t == p)
    r = I.call_v(I.getattr_v(VConst(lg.PenlogRecord), "parse_priority"), [VBytes(b'{"x": 1}')],
                 {})
    I.prove("P6-absent-prefix-accepted", z3.BoolVal(r is NONE))


SPEC_PRIORITY = {"TRACE": 8, "DEBUG": 7, "INFO": 6, "NOTICE": 5, "WARNING": 4, "ERROR": 3,
                 "CRITICAL": 2}


def writer_harness(I: Interp) -> None:
    """Writer side: for every log level, `_ZstdFileHandler.emit` writes one line
    `<p>` + formatted record (+ newline) whose prefix p is the priority stored in the JSON record
    (`_JSONFormatter.format`), so that filtering on the prefix equals filtering on the field."""
    from contracts.c15 import Stub
    lg = L()
    for lv_ in lg.Loglevel:
        want = SPEC_PRIORITY.get(lv_.name)
        if want is None:
            continue
        written: list[V] = []
        I.ex.stubs[("logfile", "write")] = lambda I2, r, a, k, w=written: (w.append(a[0]), NONE)[1]
        rec = VObj(Stub, {"levelno": wrap_enum(lv_)}, lazy=True, tag="record")
        h = VObj(lg._ZstdFileHandler, {"file": VObj(Stub, {}, lazy=True, tag="logfile")})
        I.ex.contracts[lg._ZstdFileHandler.format] = lambda I2, self_, r: VStr('{"json": 1}')
        I.ex.contracts[lg.logging.Handler.format] = lambda I2, self_, r: VStr('{"json": 1}')
        try:
            I.call_v(I.getattr_v(h, "emit"), [rec], {})
        except PyExc as e:
            I.fail(f"W-emit-does-not-raise({lv_.name})", e.exc.cls.__name__)
            continue
        ok = len(written) == 1 and isinstance(written[0], VBytes) and \
            written[0].concrete() == b'<%d>{"json": 1}\n' % want
        I.prove(f"W-one-line-with-prefix-<{want}>-for-{lv_.name}", z3.BoolVal(ok),
                repr(written[0].concrete() if written and isinstance(written[0], VBytes)
                     else written))
        # the JSON record carries the same priority
        made: list[dict] = []
        models.CLASS_MODELS[lg._PenlogRecordV2] = lambda I2, cls, a, k, m=made: (
            m.append(k), VObj(Stub, {}, lazy=True, tag="penlog"))[1]
        models.MODELS[lg.dataclasses.asdict] = lambda I2, a, k, m=made: VDict(
            [(VStr(kk), vv) for kk, vv in (m[-1].items() if m else [])])
        dumps_kw: list[dict] = []
        dumped: list[V] = []
        models.MODELS[lg.json.dumps] = lambda I2, a, k, d=dumps_kw, dd=dumped: (
            d.append(k), dd.append(a[0]), VStr("{}"))[2]
        rec2 = VObj(Stub, {"levelno": wrap_enum(lv_), "exc_info": NONE, "name": VStr("m"),
                           "created": VFloat(0.0), "pathname": VStr("p"), "lineno": VInt(1),
                           "levelname": VStr(lv_.name), "funcName": VStr("f"),
                           "__dict__": VDict([])}, lazy=True, tag="record")
        # an empty message is a record like any other (INFO level: the empty one)
        I.ex.stubs[("record", "getMessage")] = lambda I2, r, a, k, e=(lv_.name == "INFO"): VStr(
            "" if e else "msg")
        # datetime contract: fromtimestamp(t, tz) / now(tz) / astimezone() give an *aware* value,
        # whose isoformat() carries the UTC offset; without tz the value is naive local time
        iso: list[bool] = []

        def mk_dt(I2: Interp, a: list[V], k: dict[str, V], tzpos: int) -> V:
            tzv = k.get("tz", a[tzpos] if len(a) > tzpos else NONE)
            return VObj(Stub, {"aware": VBool(tzv is not NONE)}, lazy=True, tag="dt")
        models.MODELS[lg.datetime.datetime.fromtimestamp] = lambda I2, a, k: mk_dt(I2, a, k, 1)
        models.MODELS[lg.datetime.datetime.now] = lambda I2, a, k: mk_dt(I2, a, k, 0)
        models.MODELS[lg.datetime.datetime.utcfromtimestamp] = lambda I2, a, k: VObj(
            Stub, {"aware": VBool(False)}, lazy=True, tag="dt")
        I.ex.stubs[("dt", "astimezone")] = lambda I2, r, a, k: VObj(
            Stub, {"aware": VBool(True)}, lazy=True, tag="dt")
        I.ex.stubs[("dt", "replace")] = lambda I2, r, a, k: VObj(
            Stub, {"aware": VBool(k.get("tzinfo", NONE) is not NONE) if "tzinfo" in k
                   else r.fields["aware"]}, lazy=True, tag="dt")
        I.ex.stubs[("dt", "isoformat")] = lambda I2, r, a, k, iso=iso: (
            iso.append(r.fields["aware"].concrete() is True), VStr("t"))[1]
        f = VObj(lg._JSONFormatter, {"hostname": VStr("h")})
        try:
            I.call_v(I.getattr_v(f, "format"), [rec2], {})
            pr = made[0].get("priority") if made else None
            I.prove(f"W-json-priority-field-is-{want}-for-{lv_.name}",
                    models.as_int(I, pr) == want if pr is not None else z3.BoolVal(False))
            if dumped and isinstance(dumped[0], VDict):
                keys = {kk.s for kk, _ in dumped[0].items if isinstance(kk, VStr)}
                need = {"module", "host", "data", "datetime", "priority"}
                I.prove(f"W-serialised-record-carries-every-mandatory-field({lv_.name})",
                        z3.BoolVal(need <= keys), f"missing: {sorted(need - keys)}")
            if lv_.name == "INFO":
                I.prove("W-record-time-is-an-aware-datetime(its-text-carries-the-UTC-offset)",
                        z3.BoolVal(iso == [True]), f"isoformat() on aware values: {iso}")
                ea = [kw.get("ensure_ascii") for kw in dumps_kw]
                I.prove("W-serialised-record-is-ASCII(json.dumps-escapes-so-encode()-cannot-fail)",
                        z3.BoolVal(len(ea) == 1 and (ea[0] is None or (
                            isinstance(ea[0], VBool) and ea[0].concrete() is True))), str(ea))
        except PyExc as e:
            I.fail(f"W-format-does-not-raise({lv_.name})", e.exc.cls.__name__)
        finally:
            models.CLASS_MODELS.pop(lg._PenlogRecordV2, None)
    # precondition of "every record handed to the logger reaches the file": the queue between the
    # logging call and the writer thread is unbounded (QueueHandler enqueues with put_nowait and
    # drops the record when the queue is full)
    import ast
    import inspect
    import textwrap
    n_q = 0
    for fname in ("add_zst_log_handler", "setup_logging"):
        fn = getattr(lg, fname, None)
        if fn is None:
            continue
        for n in ast.walk(ast.parse(textwrap.dedent(inspect.getsource(fn)))):
            if isinstance(n, ast.Call) and ast.unparse(n.func).split(".")[-1] in (
                    "Queue", "SimpleQueue"):
                n_q += 1
                bounded = bool(n.args) or any(k.arg == "maxsize" for k in n.keywords)
                I.prove(f"W-log-queue-is-unbounded(no-record-is-dropped):{fname}",
                        z3.BoolVal(not bounded), ast.unparse(n))
    I.prove("W-log-queue-construction-found", z3.BoolVal(n_q >= 1))


def open_harness(I: Interp) -> None:
    """`PenlogReader(path)` for a log of any size, 0 bytes included (a run that logged nothing):
    mmap.mmap(fd, 0) raises ValueError exactly for an empty file."""
    import io
    import mmap as _mmap
    lg = L()
    size = I.fresh_int("file_size", 0, None, inp=True)
    raw = VObj(Stub, {}, lazy=True, tag="rawfile")
    I.ex.stubs[("rawfile", "fileno")] = lambda I2, r, a, k: VInt(7)
    I.ex.contracts[lg.PenlogReader._prepare_for_mmap] = lambda I2, self_, p: raw

    def mm(I2: Interp, cls: type, a: list[V], k: dict[str, V]) -> V:
        if I2.branch(size.t == 0):
            I2.raise_py(ValueError, "cannot mmap an empty file")
        return VObj(Stub, {}, lazy=True, tag="mmap")
    models.CLASS_MODELS[_mmap.mmap] = mm
    models.CLASS_MODELS[io.BytesIO] = lambda I2, cls, a, k: VObj(Stub, {}, lazy=True,
                                                                 tag="mmap")
    rd = VObj(lg.PenlogReader, {})
    try:
        import pathlib
        I.call_py(lg.PenlogReader.__init__, [rd, VConst(pathlib.Path("log.json.zst"))], {},
                  owner=lg.PenlogReader)
    except PyExc as e:
        I.fail("O-a-log-of-any-size-can-be-opened(0-bytes-included)",
               f"{e.exc.cls.__name__} for a file of 0 bytes")
        return
    finally:
        models.CLASS_MODELS.pop(_mmap.mmap, None)
        models.CLASS_MODELS.pop(io.BytesIO, None)
    I.prove("O-reader-starts-unparsed-at-record-0", z3.And(
        z3.Not(I.truth(rd.fields["_parsed"])),
        models.as_int(I, rd.fields["_current_record_index"]) == 0))


def wrap_enum(m: Any) -> V:
    return VConst(m) if not isinstance(m, int) else VInt(int(m), type(m))


def build_units(tier: str) -> list[Unit]:
    return [Unit("reader/_parse_file_structure", parse_harness),
            Unit("reader/_lookup_offset", lookup_harness),
            Unit("reader/records-forward", records_harness(False)),
            Unit("reader/records-reverse", records_harness(True)),
            Unit("reader/records-reverse-empty-log", records_harness(True, True)),
            Unit("reader/open", open_harness),
            Unit("hr/default", hr_harness("default")), Unit("hr/reverse", hr_harness("reverse")),
            Unit("hr/head", hr_harness("head")), Unit("hr/tail", hr_harness("tail")),
            Unit("priority/mapping-and-prefix", priority_harness),
            Unit("writer/emit-and-format", writer_harness)]


def native_writer() -> tuple[bool, str]:
    """Log one record per level through the real zstd handler, read the file back with
    PenlogReader: for every threshold the filtered records are those whose JSON priority passes."""
    import logging
    import shutil
    import tempfile
    from pathlib import Path
    lg = L()
    tmp = Path(tempfile.mkdtemp(prefix="c17w_"))
    path = tmp / "log.json.zst"
    name = f"c17.writer.{id(tmp)}"
    h = lg.add_zst_log_handler(name, path, lg.Loglevel.TRACE)
    logger = lg.get_logger(name)
    logger.setLevel(lg.Loglevel.TRACE)
    logger.propagate = False
    levels = [lv for lv in lg.Loglevel if lv.name in SPEC_PRIORITY]
    for lv in levels:
        logger.log(int(lv), f"record at {lv.name}")
    lg.remove_zst_log_handler(name, h)
    bad = None
    try:
        for thr in lg.PenlogPriority:
            with lg.PenlogReader(path) as r:
                got = sorted(int(x.priority) for x in r.records(priority=thr))
            want = sorted(p for p in SPEC_PRIORITY.values() if p <= int(thr))
            if got != want:
                bad = (f"threshold {thr.name}: records with priorities {got} returned, "
                       f"the log holds one record per level, expected {want}")
                break
    except Exception as e:  # noqa: BLE001
        bad = f"reading back failed: {type(e).__name__}: {e}"
    shutil.rmtree(tmp, ignore_errors=True)
    logging.getLogger(name).handlers.clear()
    return bad is not None, bad or "filtering on the line prefix equals filtering on the field"


def native_empty_message() -> tuple[bool, str]:
    """a record with an empty message must be written and read back like any other"""
    import logging
    lg = L()
    f = lg._JSONFormatter()
    for msg in ("", "0", " ", "x"):
        rec = logging.LogRecord("c17", int(lg.Loglevel.INFO), "p.py", 1, msg, (), None, "fn")
        line = f.format(rec)
        try:
            back = lg.PenlogRecord.parse_json(line.encode())
        except Exception as e:  # noqa: BLE001
            return True, (f"a record with the message {msg!r} is written as {line!r}, which the "
                          f"reader cannot parse: {type(e).__name__}: {e}")
        if back.data != msg:
            return True, f"message {msg!r} is read back as {back.data!r}"
    return False, "empty and short messages are written and read back"


def native_formatter() -> tuple[bool, str]:
    """the real formatter: the record's time must parse as an aware datetime, and a message with
    a lone surrogate (undecodable file name) must still yield an encodable line"""
    import datetime as _dt
    import json
    import logging
    lg = L()
    f = lg._JSONFormatter()
    rec = logging.LogRecord("c17", int(lg.Loglevel.INFO), "p.py", 1, "name=%s", ("a\udcffb",),
                            None, "fn")
    line = f.format(rec)
    try:
        line.encode()
    except UnicodeEncodeError as e:
        return True, (f"a log message with a lone surrogate gives a line that cannot be encoded "
                      f"({e.reason}): the log listener dies and later records are lost")
    when = json.loads(line)["datetime"]
    if _dt.datetime.fromisoformat(when).tzinfo is None:
        return True, (f"record time {when!r} has no UTC offset: read back under another time "
                      f"zone it denotes a different instant")
    return False, f"line encodable, time {when} is aware"


def native_empty_log() -> tuple[bool, str]:
    """A log without records (plain and .zst): it opens, has length 0 and every walk is empty."""
    import shutil
    import tempfile
    from pathlib import Path
    import zstandard
    lg = L()
    tmp = Path(tempfile.mkdtemp(prefix="c17e_"))
    (tmp / "e.json").write_bytes(b"")
    (tmp / "e.json.zst").write_bytes(zstandard.ZstdCompressor().compress(b""))
    bad = None
    for name in ("e.json", "e.json.zst"):
        try:
            with lg.PenlogReader(tmp / name) as r:
                got = (len(r), list(r.records()), list(r.records(reverse=True)))
            if got != (0, [], []):
                bad = f"{name}: (len, forward, reverse) == {got}"
        except Exception as e:  # noqa: BLE001
            bad = f"{name}: {type(e).__name__}: {e}"
        if bad:
            break
    shutil.rmtree(tmp, ignore_errors=True)
    return bad is not None, bad or "an empty log opens and reads as zero records"


def native_hr() -> tuple[bool, str]:
    """hr on a 3-record log: head/tail/reverse/default slices for n = 0..5."""
    import contextlib
    import io
    import json
    import shutil
    import sys
    import tempfile
    from pathlib import Path
    from gallia.cli import hr
    tmp = Path(tempfile.mkdtemp(prefix="c17h_"))
    lines = [json.dumps({"version": 2, "module": "m", "host": "h", "data": f"r{i}",
                         "datetime": "2024-01-01T00:00:00+00:00", "priority": 6})
             for i in range(3)]
    (tmp / "x.json").write_text("\n".join(lines) + "\n")
    bad = None
    argv0 = sys.argv
    try:
        for mode in ("--tail", "--head", "--reverse", ""):
            for n in range(0, 6):
                sys.argv = ["hr"] + ([mode] if mode else []) + ["-n", str(n), str(tmp / "x.json")]
                buf = io.StringIO()
                try:
                    with contextlib.redirect_stdout(buf):
                        hr._main()
                except BaseException as e:  # noqa: BLE001
                    bad = f"hr {mode} -n {n}: {type(e).__name__}: {e}"
                    break
                got = [w for w in ("r0", "r1", "r2") for ln in buf.getvalue().splitlines()
                       if ln.rstrip().endswith(w)]
                order = [ln.rstrip()[-2:] for ln in buf.getvalue().splitlines()]
                want = {"--tail": ["r0", "r1", "r2"][max(3 - n, 0):],
                        "--head": ["r0", "r1", "r2"][:n],
                        "--reverse": ["r2", "r1", "r0"], "": ["r0", "r1", "r2"]}[mode]
                if order != want:
                    bad = f"hr {mode} -n {n} on a 3-record log prints {order}, expected {want}"
                    break
                del got
            if bad:
                break
    finally:
        sys.argv = argv0
        shutil.rmtree(tmp, ignore_errors=True)
    return bad is not None, bad or "head/tail/reverse/default slices are right for n = 0..5"


def native_replay(unit: str, obligation: str, model: dict) -> tuple[bool, str]:
    import json
    import tempfile
    from pathlib import Path
    lg = L()
    if unit.startswith("writer/") and ("aware-datetime" in obligation or "is-ASCII" in obligation):
        return native_formatter()
    if unit.startswith("writer/") and "mandatory-field" in obligation:
        return native_empty_message()
    if unit.startswith("writer/"):
        return native_writer()
    if unit in ("reader/open", "reader/records-reverse-empty-log"):
        return native_empty_log()
    if unit.startswith("hr/"):
        return native_hr()
    lines = [json.dumps({"version": 2, "module": "m", "host": "h", "data": f"r{i}",
                         "datetime": "2024-01-01T00:00:00+00:00", "priority": 6})
             for i in range(4)]
    p = Path(tempfile.mkdtemp(prefix="c17_")) / "x.json"
    p.write_text("\n".join(lines) + "\n")
    out = {}
    with lg.PenlogReader(p) as r:
        list(r.records())
        out["len after reading to the end"] = len(r)
    with lg.PenlogReader(p) as r:
        out["reverse from offset 0"] = [x.data for x in r.records(reverse=True)]
    with lg.PenlogReader(p) as r:
        out["reverse from offset -1"] = [x.data for x in r.records(offset=-1, reverse=True)]
    import shutil
    shutil.rmtree(p.parent, ignore_errors=True)
    bad = out["len after reading to the end"] != 4 or out["reverse from offset 0"] != ["r0"] \
        or out["reverse from offset -1"] != ["r3", "r2", "r1", "r0"]
    return bad, f"4-record log: {out}"


def native_search(unit: str, obligation: str, seed: int) -> dict | None:
    return {}


TRUSTED = [
    "pyvc VC generator (Hoare rule with sidecar invariants over an uninterpreted offset table)",
    "mmap.tell/seek/readline contract over a ghost position; json, zstandard, gzip",
    "z3 5.1.0",
]


def main(tier: str, seed: int, only: str | None = None, jobs: int = 16) -> int:
    chk = Check("C17", "contracts.c17", tier, seed)
    units = build_units(tier)
    if only:
        units = [u for u in units if only in u.uid]
    results = run_units(units, jobs)
    chk.trusted_base = TRUSTED
    chk.assumptions = [
        "proved-partial: navigation over an abstract file of lines; text fidelity through "
        "json/zstd/gzip and the writer side (_ZstdFileHandler.emit) are trusted",
    ]
    return chk.finish(results, native_replay, native_search)
