"""C04 - one client request ends with the outcome its reply/fault sequence implies.

Function under contract: `UDSClient.request_unsafe` (with `_read`, `reconnect_unsafe`), executed
from the real AST once for symbolic `max_retry >= 0`, symbolic timeouts and config overrides.
Environment by contract (DESIGN 5/C04): `transport.request_unsafe/read/reconnect`, `parse_pdu`
(C03's contract: returns a pending / busy / other negative / positive response or raises an
IllegalResponse) and `asyncio.sleep`.  Every call's outcome is an unconstrained choice, so the two
loop invariants below cover every event script of every length.

Ghost state: writes, polls, reconnects (counters), since_parse (reads since the last accepted
parse), last_parsed (the object parse_pdu returned last), last_event, vtime.
"""
from __future__ import annotations

import asyncio
from typing import Any

import z3

from pyvc import loops, models
from pyvc.engine import Explorer, Frame, Interp, PyExc
from pyvc.runner import Check, Unit, run_units
from pyvc.values import (NONE, Unsupported, V, VBool, VBytes, VConst, VFloat, VInt, VList, VObj,
                         VStr, VTuple, wrap)

IO_NONE, IO_TIMEOUT, IO_CONN, IO_EMPTY, IO_DATA, IO_BUSY, IO_PENDING, IO_FINAL = range(8)


class StubTransport:
    """The transport as seen by UDSClient; its three methods are replaced by contracts."""

    async def request_unsafe(self, data: bytes, timeout: float | None = None,
                             tags: list[str] | None = None) -> bytes:
        raise NotImplementedError

    async def read(self, timeout: float | None = None, tags: list[str] | None = None) -> bytes:
        raise NotImplementedError

    async def reconnect(self, timeout: float | None = None) -> "StubTransport":
        raise NotImplementedError


def client_module() -> Any:
    from gallia.services.uds.core import client
    return client


def G(I: Interp, name: str) -> Any:
    return I.ghost[name]


def io_outcome(I: Interp, what: str) -> V:
    """bytes (non-empty) | b'' | TimeoutError | ConnectionError - the caller's choice."""
    k = I.choose([z3.BoolVal(True)] * 4)
    I.ghost["since_parse"] = I.ghost["since_parse"] + 1
    I.ghost["last_io"] = z3.IntVal([IO_DATA, IO_EMPTY, IO_TIMEOUT, IO_CONN][k])
    if k == 0:
        return I.fresh_bytes("raw", minlen=1)
    if k == 1:
        return VBytes(b"")
    if k == 2:
        I.raise_py(TimeoutError, f"{what} timed out")
    I.raise_py(ConnectionResetError, f"{what}: connection lost")
    raise AssertionError


def install(ex: Explorer) -> None:
    C = client_module()
    from gallia.services.uds.core import service as S
    from gallia.services.uds.core import exception as E
    from gallia.services.uds.core.constants import UDSErrorCodes

    def c_request_unsafe(I: Interp, self_: V, data: V, timeout: V = NONE, tags: V = NONE) -> V:
        req = I.ghost["request_pdu"]
        I.prove("T-transmission-uses-the-transport-returned-by-the-last-reconnect",
                z3.BoolVal(self_ is I.ghost["live_transport"]))
        I.prove("T-bytes-written-are-request.pdu", models.mk_eq(I, data, req))
        I.prove("T-write-has-the-effective-timeout",
                models.mk_eq(I, timeout, I.ghost["eff_timeout"]))
        I.ghost["writes"] = I.ghost["writes"] + 1
        I.ghost["parses_in_attempt"] = z3.IntVal(0)
        return io_outcome(I, "request")

    def c_read(I: Interp, self_: V, timeout: V = NONE, tags: V = NONE) -> V:
        I.prove("T-poll-uses-the-transport-returned-by-the-last-reconnect",
                z3.BoolVal(self_ is I.ghost["live_transport"]))
        I.prove("T-poll-has-a-deadline", z3.BoolVal(timeout is not NONE))
        I.ghost["polls"] = I.ghost["polls"] + 1
        return io_outcome(I, "read")

    def c_reconnect(I: Interp, self_: V, timeout: V = NONE) -> V:
        # contract of BaseTransport.reconnect: the receiver is closed, the *returned* transport
        # is the one to use from now on
        I.prove("T-reconnect-is-called-on-the-live-transport",
                z3.BoolVal(self_ is I.ghost["live_transport"]))
        I.ghost["reconnects"] = I.ghost["reconnects"] + 1
        fresh = VObj(StubTransport, {})
        I.ghost["live_transport"] = fresh
        return fresh

    ex.contracts[StubTransport.request_unsafe] = lambda I, *a, **k: loops_coro(
        I, lambda: c_request_unsafe(I, *a, **k))
    ex.contracts[StubTransport.read] = lambda I, *a, **k: loops_coro(I, lambda: c_read(I, *a, **k))
    ex.contracts[StubTransport.reconnect] = lambda I, *a, **k: loops_coro(
        I, lambda: c_reconnect(I, *a, **k))

    def c_parse_pdu(I: Interp, raw: V, request: V) -> V:
        """C03: returns a response accepted for *this* request, or raises IllegalResponse."""
        I.prove("P-parse-is-for-this-request", z3.BoolVal(request is I.ghost["request"]))
        # precondition of parse_pdu (C03 proves it for replies of at least one byte; on b"" it
        # fails with an IndexError that is neither of the statement's outcomes): an empty read is
        # "connection lost" and must have been mapped before
        nonempty = models.seq_len(raw.t) >= 1 if isinstance(raw, VBytes) else z3.BoolVal(False)
        if not I.prove("P-parse_pdu-is-called-with-a-non-empty-reply(empty-read-is-connection-"
                       "loss)", nonempty):
            from pyvc.engine import PathAbort
            raise PathAbort()
        k = I.choose([z3.BoolVal(True)] * 6)
        if k == 4:
            e = VObj(E.RequestResponseMismatch, {"request": request, "args": VTuple([])})
            I.ghost["parse_exc"] = e
            I.ghost["writes_at_parse_exc"] = I.ghost["writes"]
            raise PyExc(e)
        if k == 5:
            e = VObj(E.MalformedResponse, {"request": request, "args": VTuple([])})
            I.ghost["parse_exc"] = e
            I.ghost["writes_at_parse_exc"] = I.ghost["writes"]
            raise PyExc(e)
        r = mk_response(I, k)
        r.fields["trigger_request"] = request
        I.ghost["last_io"] = z3.IntVal([IO_BUSY, IO_PENDING, IO_FINAL, IO_FINAL][k])
        I.ghost["last_parsed"] = r
        I.ghost["since_parse"] = z3.IntVal(0)
        I.ghost["parses_in_attempt"] = I.ghost["parses_in_attempt"] + 1
        return r
    ex.contracts[C.parse_pdu] = c_parse_pdu

    def c_sleep(I: Interp, args: list[V], kwargs: dict[str, V]) -> V:
        t = models.to_real(args[0])
        I.prove("S-sleep-is-non-negative", t >= 0)
        I.ghost["vtime"] = I.ghost["vtime"] + t
        return loops_coro(I, lambda: NONE)
    models.MODELS[asyncio.sleep] = c_sleep

    ex.loop_contracts[("UDSClient.request_unsafe", 0)] = loops.LoopContract(
        havoc_outer, inv_outer)
    ex.loop_contracts[("UDSClient.request_unsafe", 1)] = loops.LoopContract(
        havoc_inner, inv_inner, progress=progress_inner)


def loops_coro(I: Interp, thunk: Any) -> V:
    from pyvc.engine import VCoro
    return VCoro(thunk, "contract")


def mk_response(I: Interp, kind: int) -> VObj:
    """0 busy, 1 pending, 2 other negative, 3 positive."""
    from gallia.services.uds.core import service as S
    from gallia.services.uds.core.constants import UDSErrorCodes
    if kind == 3:
        return VObj(S.RawPositiveResponse, {"_pdu": I.fresh_bytes("pos", minlen=1)})
    code = I.fresh_int("nrc")
    members = [int(m) for m in UDSErrorCodes]
    I.assume(z3.Or(*[code.t == m for m in members]))
    busy, pend = int(UDSErrorCodes.busyRepeatRequest), int(
        UDSErrorCodes.requestCorrectlyReceivedResponsePending)
    if kind == 0:
        I.assume(code.t == busy)
    elif kind == 1:
        I.assume(code.t == pend)
    else:
        I.assume(z3.And(code.t != busy, code.t != pend))
    return VObj(S.NegativeResponse, {"request_service_id": I.fresh_int("rsid", 0, 255),
                                     "response_code": VInt(code.t, UDSErrorCodes)})


def is_pending(r: V) -> Any:
    from gallia.services.uds.core import service as S
    from gallia.services.uds.core.constants import UDSErrorCodes
    if isinstance(r, VObj) and r.cls is S.NegativeResponse:
        return r.fields["response_code"].t == int(
            UDSErrorCodes.requestCorrectlyReceivedResponsePending)
    return z3.BoolVal(False)


def is_busy(r: V) -> Any:
    from gallia.services.uds.core import service as S
    from gallia.services.uds.core.constants import UDSErrorCodes
    if isinstance(r, VObj) and r.cls is S.NegativeResponse:
        return r.fields["response_code"].t == int(UDSErrorCodes.busyRepeatRequest)
    return z3.BoolVal(False)


# --------------------------------------------------------------------------- loop contracts
def havoc_counters(I: Interp, names: list[str]) -> None:
    for n in names:
        if n == "vtime":
            I.ghost[n] = z3.Real(I.fresh_name("g_" + n))
            I.assume(I.ghost[n] >= 0)
        else:
            I.ghost[n] = z3.Int(I.fresh_name("g_" + n))
            I.assume(I.ghost[n] >= 0)


def havoc_outer(I: Interp, fr: Frame) -> None:
    from gallia.services.uds.core import exception as E
    havoc_counters(I, ["writes", "polls", "reconnects", "vtime", "since_parse",
                       "parses_in_attempt"])
    ev = I.fresh_int("last_io", IO_NONE, IO_FINAL)
    I.ghost["last_io"] = ev.t
    if not I.branch(I.ghost["reconnects"] == 0):
        # some reconnect happened: the live transport is an object no earlier alias refers to
        fresh = VObj(StubTransport, {})
        I.ghost["live_transport"] = fresh
        I.ghost["client"].fields["transport"] = fresh
    # last_exception: some MissingResponse built in an earlier iteration (or the initial one)
    cause = I.choose([z3.BoolVal(True)] * 2)
    le = VObj(E.MissingResponse, {"request": I.ghost["request"], "args": VTuple([])})
    if cause == 1:
        le.fields["__cause__"] = VObj(ConnectionResetError, {"args": VTuple([])})
    I.ghost["le_has_cause"] = cause == 1
    fr.env["last_exception"] = le
    for n in ("raw_resp", "resp", "n_pending", "n_timeout", "wait_time", "e"):
        if n in ("n_pending", "n_timeout") and n in fr.env and \
                n in I.ghost.get("__loop_assigned", set()):
            # bound before the loop and changed inside it: the value is carried from one
            # attempt to the next (any value an earlier attempt may have left)
            fr.env[n] = I.fresh_int(n + "_carried")
            continue
        fr.env.pop(n, None)
        fr.poison.add(n)


def inv_outer(I: Interp, fr: Frame) -> list[tuple[str, Any]]:
    from gallia.services.uds.core import exception as E
    k = fr.env["__k0"].t
    le = fr.env.get("last_exception")
    le_ok = isinstance(le, VObj) and issubclass(le.cls, E.MissingResponse) \
        and le.fields.get("request") is I.ghost["request"]
    has_cause = z3.BoolVal(isinstance(le, VObj) and "__cause__" in le.fields)
    ev = I.ghost["last_io"]
    n = I.ghost["eff_retry"]
    retry_worthy = z3.Or(ev == IO_TIMEOUT, ev == IO_CONN, ev == IO_EMPTY, ev == IO_BUSY)
    return [
        ("client.transport-is-the-live-transport", z3.BoolVal(
            I.ghost["client"].fields["transport"] is I.ghost["live_transport"])),
        ("one-write-per-attempt", I.ghost["writes"] == k),
        ("reconnects-bounded-by-attempts", I.ghost["reconnects"] <= k),
        ("every-earlier-attempt-ended-retry-worthy", z3.Implies(k > 0, retry_worthy)),
        ("no-event-before-the-first-attempt", z3.Implies(k == 0, ev == IO_NONE)),
        ("last_exception-is-a-MissingResponse-for-this-request", z3.BoolVal(le_ok)),
        ("no-cause-after-a-timeout", z3.Implies(ev == IO_TIMEOUT, z3.Not(has_cause))),
        ("cause-after-a-connection-error",
         z3.Implies(z3.Or(ev == IO_CONN, ev == IO_EMPTY), has_cause)),
        ("busy-is-retried-only-with-retries-left", z3.Implies(ev == IO_BUSY, k <= n)),
    ]


def havoc_inner(I: Interp, fr: Frame) -> None:
    havoc_counters(I, ["polls", "vtime", "since_parse", "parses_in_attempt"])
    kind = I.choose([z3.BoolVal(True)] * 4)
    r = mk_response(I, kind)
    r.fields["trigger_request"] = I.ghost["request"]
    fr.env["resp"] = r
    I.ghost["last_parsed"] = r
    fr.env["n_pending"] = I.fresh_int("n_pending")
    fr.env["n_timeout"] = I.fresh_int("n_timeout")
    fr.env.pop("raw_resp", None)
    fr.poison.add("raw_resp")


def inv_inner(I: Interp, fr: Frame) -> list[tuple[str, Any]]:
    np_, nt = fr.env["n_pending"].t, fr.env["n_timeout"].t
    M = models.to_real(fr.env["max_n_timeout"])
    eff = I.ghost["eff_timeout"]
    base = z3.RealVal(0) if eff is NONE else z3.If(eff.t != 0, eff.t, 0)
    k = fr.env["__k0"].t if "__k0" in fr.env else models.as_int(I, fr.env["i"])
    return [
        ("pending-count-in-range", z3.And(np_ >= 1, np_ < 120)),
        ("silent-polls-in-range", z3.And(nt >= 0, z3.ToReal(nt) < M)),
        ("silence-limit-is-max(timeout,20)/0.5",
         M == z3.If(base > 20, base, 20) / z3.RealVal("0.5")),
        ("no-retransmission-while-pending", I.ghost["writes"] == k + 1),
        ("resp-is-the-last-parsed-reply", z3.BoolVal(fr.env.get("resp") is
                                                     I.ghost["last_parsed"])),
        ("no-read-since-the-last-parse-unless-silent",
         z3.Implies(nt == 0, I.ghost["since_parse"] == 0)),
        ("a-non-pending-reply-is-the-latest-read",
         z3.Implies(z3.Not(is_pending(fr.env.get("resp"))), I.ghost["since_parse"] == 0)),
        ("parses-counted", z3.And(I.ghost["parses_in_attempt"] == np_)),
        ("busy-inside-the-pending-loop-only-after-a-pending",
         z3.Implies(is_busy(fr.env.get("resp")), np_ >= 2)),
    ]


def progress_inner(I: Interp, fr: Frame, snap: Any) -> Any:
    np_, nt = fr.env["n_pending"].t, fr.env["n_timeout"].t
    if snap is None:
        return (np_, nt)
    np0, nt0 = snap
    # lexicographic measure (120 - n_pending, max_n_timeout - n_timeout), bounded by the
    # invariant: at most 120 * ceil(max_n_timeout) polls per attempt
    return z3.Or(np_ > np0, z3.And(np_ == np0, nt == nt0 + 1))


# --------------------------------------------------------------------------- harness
def make_harness(cfg_timeout: str, cfg_retry: str, self_timeout: str,
                 concrete_retry: int | None = None):
    C = client_module()
    from gallia.services.uds.core import service as S
    from gallia.services.uds.core import exception as E

    def harness(I: Interp) -> None:
        transport = VObj(StubTransport, {})
        max_retry = I.fresh_int("max_retry", 0, None, inp=True)
        if concrete_retry is not None:
            # bounded variant (used by C08): the retry loop is unrolled as written
            max_retry = VInt(concrete_retry)
            I.ex.loop_contracts.pop(("UDSClient.request_unsafe", 0), None)
        st: V = NONE if self_timeout == "none" else VFloat(z3.Real("self_timeout"))
        if st is not NONE:
            I.assume(st.t >= 0)
        client = VObj(C.UDSClient, {"transport": transport, "timeout": st,
                                    "max_retry": max_retry, "retry_wait": VFloat(0.2),
                                    "pending_timeout": VInt(5)})
        ct: V = NONE if cfg_timeout == "none" else VFloat(z3.Real("cfg_timeout"))
        if ct is not NONE:
            I.assume(ct.t >= 0)
        cr: V = NONE if cfg_retry == "none" else I.fresh_int("cfg_max_retry", 0, None, inp=True)
        config = VObj(C.UDSRequestConfig, {"timeout": ct, "max_retry": cr,
                                           "skip_hooks": VBool(False), "tags": NONE})
        eff_retry = cr if cr is not NONE else max_retry
        eff_timeout = ct if ct is not NONE else st
        pdu = I.fresh_bytes("request_pdu", minlen=1)
        request = VObj(S.RawRequest, {"_pdu": pdu})
        I.ghost.update({"writes": z3.IntVal(0), "polls": z3.IntVal(0),
                        "reconnects": z3.IntVal(0), "vtime": z3.RealVal(0),
                        "since_parse": z3.IntVal(0), "last_parsed": None,
                        "last_io": z3.IntVal(IO_NONE), "request": request,
                        "request_pdu": pdu, "eff_timeout": eff_timeout,
                        "eff_retry": eff_retry.t, "parse_exc": None,
                        "parses_in_attempt": z3.IntVal(0),
                        "le_has_cause": False, "client": client,
                        "live_transport": transport})
        try:
            r = I.await_v(I.call_v(I.getattr_v(client, "request_unsafe"), [request, config], {}))
        except PyExc as e:
            exc = e.exc
            writes = I.ghost["writes"]
            I.prove("O-at-most-max_retry+1-transmissions", writes <= eff_retry.t + 1)
            if issubclass(exc.cls, E.MissingResponse):
                I.prove("O-missing-response-only-after-all-attempts",
                        writes == eff_retry.t + 1)
                I.prove("O-missing-response-names-this-request",
                        z3.BoolVal(exc.fields.get("request") is request))
                ev = I.ghost["last_io"]
                I.prove("O-missing-response-follows-a-retry-worthy-event",
                        z3.Or(ev == IO_TIMEOUT, ev == IO_CONN, ev == IO_EMPTY))
                I.prove("O-cause-set-iff-the-last-event-was-a-connection-error",
                        z3.BoolVal("__cause__" in exc.fields) ==
                        z3.Or(ev == IO_CONN, ev == IO_EMPTY))
            elif issubclass(exc.cls, E.IllegalResponse):
                I.prove("O-illegal-response-is-the-one-parse_pdu-raised",
                        z3.BoolVal(exc is I.ghost["parse_exc"]))
                I.prove("O-no-transmission-after-an-illegal-response",
                        writes == I.ghost["writes_at_parse_exc"])
            elif issubclass(exc.cls, (ConnectionError, RuntimeError)):
                # connection loss inside the pending loop / stuck pending: ends with an error,
                # documented in DESIGN as outcomes the statement does not name
                I.prove("O-error-in-pending-phase-sends-nothing-more",
                        writes <= eff_retry.t + 1)
                if issubclass(exc.cls, ConnectionError):
                    # before the first reply of an attempt a lost connection (error or empty
                    # read) is a retry-worthy event, never the request's outcome
                    I.prove("O-connection-loss-before-the-first-reply-of-an-attempt-is-retried-"
                            "not-raised", I.ghost["parses_in_attempt"] >= 1)
            else:
                I.fail("O-unexpected-exception-class", exc.cls.__name__)
            return
        writes = I.ghost["writes"]
        I.prove("O-at-most-max_retry+1-transmissions", writes <= eff_retry.t + 1)
        I.prove("O-at-least-one-transmission", writes >= 1)
        I.prove("O-result-is-the-last-parsed-reply", z3.BoolVal(r is I.ghost["last_parsed"]))
        I.prove("O-no-read-after-the-returned-reply", I.ghost["since_parse"] == 0)
        I.prove("O-result-is-not-pending", z3.Not(is_pending(r)))
        first = I.ghost["parses_in_attempt"] == 1
        I.prove("O-busy-as-first-reply-is-returned-only-without-retries-left",
                z3.Implies(z3.And(is_busy(r), first), writes == eff_retry.t + 1))
        I.prove("O-busy-after-pending-is-returned-only-without-retries-left",
                z3.Implies(z3.And(is_busy(r), z3.Not(first)), writes == eff_retry.t + 1))
        I.prove("O-reconnects-fewer-than-transmissions", I.ghost["reconnects"] <= writes - 1)
        I.prove("O-result-belongs-to-this-request",
                z3.BoolVal(isinstance(r, VObj) and r.fields.get("trigger_request") is request))
    return harness


def build_units(tier: str) -> list[Unit]:
    units = []
    for ct in ("none", "float"):
        for cr in ("none", "int"):
            for st in ("float", "none"):
                units.append(Unit(f"request_unsafe/cfg_timeout={ct},cfg_max_retry={cr},"
                                  f"client_timeout={st}", make_harness(ct, cr, st),
                                  setup=install, max_paths=20000))
    return units


# --------------------------------------------------------------------------- native side
ALPHABET = ["timeout", "conn", "empty", "busy", "pending", "mismatch", "malformed", "negative",
            "positive"]
REPLY = {"busy": bytes.fromhex("7f1021"), "pending": bytes.fromhex("7f1078"),
         "mismatch": bytes.fromhex("5101"), "malformed": bytes.fromhex("50"),
         "negative": bytes.fromhex("7f1031"), "positive": bytes.fromhex("5001")}


def run_script(script: list[str], max_retry: int) -> dict:
    """Drive the real UDSClient.request_unsafe with a scripted transport (events consumed one
    per transport call; when the script is exhausted every further call times out)."""
    import asyncio as aio
    import logging
    logging.disable(logging.CRITICAL)
    C = client_module()
    from gallia.services.uds.core import service as S
    from gallia.transports.base import BaseTransport
    log = {"writes": 0, "polls": 0, "reconnects": 0, "events": []}
    it = iter(script)

    class T(BaseTransport, scheme="scripted"):
        def __init__(self) -> None:
            self.dead = False

        async def _io(self) -> bytes:
            if self.dead:
                # contract of reconnect(): the old transport is closed, only the returned one
                # talks to the peer
                log["events"].append("io-on-a-closed-transport")
                raise ConnectionResetError("this transport was replaced by reconnect()")
            ev = next(it, "timeout")
            log["events"].append(ev)
            if ev == "timeout":
                raise TimeoutError("scripted")
            if ev == "conn":
                raise ConnectionResetError("scripted")
            if ev == "empty":
                return b""
            return REPLY[ev]

        async def request_unsafe(self, data, timeout=None, tags=None):  # type: ignore
            log["writes"] += 1
            return await self._io()

        async def read(self, timeout=None, tags=None):  # type: ignore
            log["polls"] += 1
            return await self._io()

        async def write(self, data, timeout=None, tags=None):  # type: ignore
            return len(data)

        async def close(self) -> None:
            pass

        async def reconnect(self, timeout=None):  # type: ignore
            log["reconnects"] += 1
            self.dead = True
            return T()

        @classmethod
        async def connect(cls, target, timeout=None):  # type: ignore
            return cls()

    async def go() -> None:
        real_sleep = aio.sleep

        async def fake_sleep(t: float, *a: Any) -> None:
            await real_sleep(0)
        aio.sleep = fake_sleep  # type: ignore
        try:
            c = C.UDSClient(T(), timeout=0.01, max_retry=max_retry)
            req = S.DiagnosticSessionControlRequest(1)
            try:
                log["result"] = await c.request_unsafe(req)
            except BaseException as e:  # noqa: BLE001
                log["exc"] = e
        finally:
            aio.sleep = real_sleep  # type: ignore
    aio.run(go())
    return log


def native_eval(script: list[str], max_retry: int) -> dict[str, tuple[bool, str]]:
    from gallia.services.uds.core import exception as E
    from gallia.services.uds.core import service as S
    from gallia.services.uds.core.constants import UDSErrorCodes
    log = run_script(script, max_retry)
    out: dict[str, tuple[bool, str]] = {}
    w = log["writes"]
    desc = f"script={script} max_retry={max_retry}: writes={w} polls={log['polls']} " \
           f"result={log.get('result')!r} exc={log.get('exc')!r}"
    out["O-at-most-max_retry+1-transmissions"] = (w > max_retry + 1, desc)
    r = log.get("result")
    if r is not None:
        busy = isinstance(r, S.NegativeResponse) and \
            r.response_code == UDSErrorCodes.busyRepeatRequest
        pend = isinstance(r, S.NegativeResponse) and \
            r.response_code == UDSErrorCodes.requestCorrectlyReceivedResponsePending
        after_pending = "pending" in log["events"][-(log["polls"] + 1):]
        out["O-result-is-not-pending"] = (pend, desc)
        out["O-busy-as-first-reply-is-returned-only-without-retries-left"] = (
            busy and not after_pending and w != max_retry + 1, desc)
        out["O-busy-after-pending-is-returned-only-without-retries-left"] = (
            busy and after_pending and w != max_retry + 1, desc)
        out["O-reconnects-fewer-than-transmissions"] = (log["reconnects"] > w - 1, desc)
    ref, act = reference(script, max_retry), actual(log)
    out["O-reference-outcome"] = (ref != act, f"{desc}; the statement implies (outcome, "
                                             f"transmissions) = {ref}, the client did {act}")
    e = log.get("exc")
    if isinstance(e, E.MissingResponse):
        out["O-missing-response-only-after-all-attempts"] = (w != max_retry + 1, desc)
        last = log["events"][-1] if log["events"] else None
        out["O-cause-set-iff-the-last-event-was-a-connection-error"] = (
            (e.__cause__ is not None) != (last in ("conn", "empty")), desc)
    return out


def reference(script: list[str], max_retry: int) -> tuple[str, int]:
    """(outcome, transmissions) the statement implies for an event script (reference model
    written from the statement; busy after pending is taken as final, see known findings)."""
    it = iter(script)
    writes = 0
    for attempt in range(max_retry + 1):
        writes += 1
        ev = next(it, "timeout")
        if ev in ("timeout", "conn", "empty"):
            continue
        if ev in ("mismatch", "malformed"):
            return "illegal", writes
        if ev == "busy":
            if attempt >= max_retry:
                return "busy", writes
            continue
        if ev != "pending":
            return ev, writes
        n_pending, n_timeout = 1, 0
        while True:
            ev = next(it, "timeout")
            if ev == "timeout":
                n_timeout += 1
                if n_timeout >= 40:
                    break
                continue
            if ev in ("conn", "empty"):
                return "connerror", writes
            if ev in ("mismatch", "malformed"):
                return "illegal", writes
            n_timeout = 0
            n_pending += 1
            if n_pending >= 120 and ev == "pending":
                return "stuck", writes
            if ev != "pending":
                return ev, writes
    return "missing", writes


def actual(log: dict) -> tuple[str, int]:
    from gallia.services.uds.core import exception as E
    from gallia.services.uds.core import service as S
    from gallia.services.uds.core.constants import UDSErrorCodes
    r, e = log.get("result"), log.get("exc")
    if r is not None:
        if isinstance(r, S.NegativeResponse):
            k = {UDSErrorCodes.busyRepeatRequest: "busy",
                 UDSErrorCodes.requestCorrectlyReceivedResponsePending: "pending"}.get(
                     r.response_code, "negative")
        else:
            k = "positive"
        return k, log["writes"]
    if isinstance(e, E.MissingResponse):
        return "missing", log["writes"]
    if isinstance(e, E.IllegalResponse):
        return "illegal", log["writes"]
    if isinstance(e, ConnectionError):
        return "connerror", log["writes"]
    if isinstance(e, RuntimeError):
        return "stuck", log["writes"]
    return f"other:{type(e).__name__}", log["writes"]


SPECIAL_SCRIPTS = [["pending"] * 130, ["pending"] + ["timeout"] * 45, ["pending"] * 5 + ["positive"],
                   ["pending", "timeout", "positive"], ["pending"] + ["timeout"] * 39 + ["positive"],
                   ["timeout", "pending"] + ["timeout"] * 41 + ["positive"],
                   # a second attempt after a first one that ended in pending + silence: its
                   # pending / silence budgets start afresh
                   ["pending"] + ["timeout"] * 40 + ["pending", "timeout", "positive"],
                   ["pending"] * 70 + ["timeout"] * 40 + ["pending"] * 70 + ["positive"]]


def native_replay(unit: str, obligation: str, model: dict) -> tuple[bool, str]:
    if "script" not in model:
        return False, "the counter-model carries no event script (path decisions are not symbols)"
    res = native_eval(model["script"], model["max_retry"])
    if obligation in res:
        return res[obligation]
    return res["O-reference-outcome"]


def native_search(unit: str, obligation: str, seed: int) -> dict | None:
    import itertools
    key = obligation if obligation.startswith("O-") else "O-reference-outcome"
    scripts = [list(x) for n in range(1, 4) for x in itertools.product(ALPHABET, repeat=n)]
    for script in SPECIAL_SCRIPTS + scripts:
        for mr in (0, 1, 2):
            res = native_eval(script, mr)
            if key in res and res[key][0]:
                return {"script": script, "max_retry": mr}
    return None


TRUSTED = [
    "pyvc VC generator (Hoare rule for the two loops with sidecar invariants)",
    "z3 5.1.0 (API)",
    "contract of helpers.parse_pdu (C03), of BaseTransport.request_unsafe/read/reconnect "
    "(returns bytes | raises TimeoutError | raises ConnectionError) and of asyncio.sleep",
    "sequential semantics of one task (concurrency is C05)",
]


def main(tier: str, seed: int, only: str | None = None, jobs: int = 16) -> int:
    chk = Check("C04", "contracts.c04", tier, seed)
    units = build_units(tier)
    if only:
        units = [u for u in units if only in u.uid]
    results = run_units(units, jobs)
    chk.trusted_base = TRUSTED
    chk.assumptions = [
        "a failing reconnect is outside the statement's event alphabet (reconnect succeeds)",
        "retry_wait is the constructor's constant 0.2",
        "wall-clock bound = bounded number of waits (variant) x each wait carrying a deadline",
    ]
    return chk.finish(results, native_replay, native_search)
