"""Contracts on gallia.services.uds.core.utils used modularly at call sites.

`uds_memory_parameters(addr, size, None)` computes the minimal addressAndLengthFormatIdentifier
via bit_length()/8: its callers are checked against the contract below (minimal widths stated
over the uninterpreted 256**n), and the function body is verified against the same contract once,
with the numeric power tables switched on (unit `utils/uds_memory_parameters`).
"""
from __future__ import annotations

from typing import Any

import z3

from pyvc import models
from pyvc.engine import Explorer, Interp, PyExc
from pyvc.values import NONE, V, VBytes, VInt, VTuple

MAX15 = 256 ** 15


def minimal_width_facts(x: Any, w: Any) -> Any:
    """w is the minimal byte width of x >= 0 (at least 1)."""
    return z3.And(w >= 1, x < models.pow256(w), z3.Or(w == 1, x >= models.pow256(w - 1)),
                  (w > 15) == (x >= MAX15))


def ump_contract(I: Interp, memory_address: V, memory_size: V,
                 address_and_length_fmt: V = NONE) -> V:
    from gallia.services.uds.core import utils
    if address_and_length_fmt is not NONE or not isinstance(memory_address, VInt) \
            or not isinstance(memory_size, VInt):
        return I.exec_function(utils.uds_memory_parameters,
                               [memory_address, memory_size, address_and_length_fmt], {}, None)
    a, s = memory_address.t, memory_size.t
    if I.branch(a < 0):
        I.raise_py(OverflowError, "The memory address must not be negative")
    if I.branch(s < 0):
        I.raise_py(OverflowError, "The memory size must not be negative")
    fw = I.ghost.get("ump_widths")  # a unit may fix the widths: it then covers exactly the
    if fw is not None:               # arguments whose minimal widths are those
        al, sl = VInt(fw[0]), VInt(fw[1])
    else:
        al = I.fresh_int("al")
        sl = I.fresh_int("sl")
    I.assume(minimal_width_facts(a, al.t))
    I.assume(minimal_width_facts(s, sl.t))
    if I.branch(al.t > 15):
        I.raise_py(OverflowError, "The memory address is too big")
    if I.branch(sl.t > 15):
        I.raise_py(OverflowError, "The memory size is too big")
    I.ex.assumptions.add("contract of utils.uds_memory_parameters(addr, size, None) "
                         "(verified against its body in unit utils/uds_memory_parameters)")
    return VTuple([VInt(sl.t * 16 + al.t), VBytes(models.mk_be(I, a, al.t)),
                   VBytes(models.mk_be(I, s, sl.t))])


def install(ex: Explorer) -> None:
    from gallia.services.uds.core import utils
    ex.contracts[utils.uds_memory_parameters] = ump_contract


def verify_ump(I: Interp) -> None:
    """Body of uds_memory_parameters(addr, size, None) against the contract above."""
    from gallia.services.uds.core import utils
    models.POW_TABLE = True
    a = I.fresh_int("memory_address", inp=True)
    s = I.fresh_int("memory_size", inp=True)
    try:
        r = I.exec_function(utils.uds_memory_parameters, [a, s, NONE], {}, None)
    except PyExc as e:
        I.prove("ump/raises-only-if(negative-or-wider-than-15-bytes)",
                z3.Or(a.t < 0, s.t < 0, a.t >= MAX15, s.t >= MAX15), e.exc.cls.__name__)
        I.prove("ump/raises-OverflowError", z3.BoolVal(issubclass(e.exc.cls, OverflowError)))
        return
    finally:
        models.POW_TABLE = False
    models.POW_TABLE = True
    assert isinstance(r, VTuple)
    f, ab, sb = r.items
    al, sl = f.t % 16, f.t / 16
    I.prove("ump/returns-only-if(in-range)",
            z3.And(a.t >= 0, s.t >= 0, a.t < MAX15, s.t < MAX15))
    I.prove("ump/format-identifier-nibbles", z3.And(al >= 1, al <= 15, sl >= 1, sl <= 15,
                                                      f.t == 16 * sl + al))
    I.prove("ump/address-width-minimal", z3.And(a.t < models.pow256(al),
                                                z3.Or(al == 1, a.t >= models.pow256(al - 1))))
    I.prove("ump/size-width-minimal", z3.And(s.t < models.pow256(sl),
                                             z3.Or(sl == 1, s.t >= models.pow256(sl - 1))))
    I.prove("ump/address-bytes", ab.t == models.mk_be(I, a.t, al))
    I.prove("ump/size-bytes", sb.t == models.mk_be(I, s.t, sl))
    models.POW_TABLE = False
