"""C01 - UDS requests serialise to the ISO 14229-1 layout and parse back losslessly.

Functions under contract: every concrete request class' __init__ / pdu / _from_pdu / from_pdu /
_check_pdu (executed from the real AST as one verification unit per class and parameter
alternative), UDSRequest.parse_dynamic, and the utils helpers they call.
Obligations (DESIGN 5/C01): E-accept, E-refuse, E-args, E-layout, E-minimal, N-no-raw,
R-dyn-fields, R-dyn-bytes, R-own.
"""
from __future__ import annotations

import inspect
import itertools
import random
import struct
import sys
import time
from typing import Any

import z3

from pyvc import loops, models
from pyvc.engine import Explorer, Interp, PyExc
from pyvc.runner import Check, Unit, run_units
from pyvc.values import (NONE, IntSeq, Unsupported, V, VBool, VBytes, VConst, VInt, VList, VObj,
                         VTuple, seq_to_bytes, wrap)

from . import codec_spec as cs
from . import iso14229 as iso
from . import utils_contracts as uc

REFUSAL = (ValueError, OverflowError, struct.error)


def service_module() -> Any:
    from gallia.services.uds.core import service
    return service


def request_classes() -> dict[str, type]:
    S = service_module()
    return {n: c for n, c in vars(S).items()
            if isinstance(c, type) and issubclass(c, S.UDSRequest) and not inspect.isabstract(c)}


def alternatives(cls: type) -> list[dict[str, str]]:
    params = cs.param_alternatives(cls)
    groups = []
    for name, kinds, default in params:
        groups.append([(name, k) for k in kinds])
    out = []
    for combo in itertools.product(*groups):
        d = dict(combo)
        lists = [k for k in d.values() if k in ("int", "intlist")]
        kinds_l = {d[n] for n, ks, _ in params if "intlist" in ks}
        if len(kinds_l) > 1:
            continue  # int|Sequence parameters are taken uniformly as ints or as lists
        out.append(d)
    return out


def arg_view(I: Interp, cname: str, spec: dict, argmap: dict[str, V]) -> cs.View:
    vals: dict[str, V] = {}
    for f in cs.all_fields(spec):
        for a in cs.attrs_of_field(f):
            if a in argmap:
                vals[a] = argmap[a]
    if "iocp" in spec:
        states = argmap.get(spec.get("iocp_states") or "")
        t = cs.unit(spec["iocp"])
        if isinstance(states, VBytes):
            t = z3.Concat(t, states.t)
        vals["control_option_record"] = VBytes(t)
    a = "address_and_length_format_identifier"
    if vals.get(a) is NONE:
        vals[a] = VInt(0xFF)
    if vals.get("memory_size") is NONE and "data_record" in vals:
        vals["memory_size"] = VInt(z3.Length(vals["data_record"].t))
    if cname == "ReportDTCExtDataRecordByDTCNumberRequest" and isinstance(
            vals.get("dtc_mask_record"), VBytes):
        b = vals["dtc_mask_record"]
        vals["dtc_mask_record"] = VInt(models.mk_fb(I, b.t))
        vals["__dtc_len"] = VInt(z3.Length(b.t))
    sup = argmap.get("suppress_response")
    return cs.View(I, vals, I.truth(sup) if sup is not None else None)


def same_fields(I: Interp, spec: dict, v1: cs.View, v2: cs.View) -> Any:
    conds = []
    for f in cs.all_fields(spec):
        for a in cs.attrs_of_field(f):
            e = models.mk_eq(I, v1.get(a), v2.get(a))
            conds.append(z3.BoolVal(e) if isinstance(e, bool) else e)
    if v1.suppress is not None:
        s1 = z3.BoolVal(v1.suppress) if isinstance(v1.suppress, bool) else v1.suppress
        s2 = z3.BoolVal(v2.suppress) if isinstance(v2.suppress, bool) else v2.suppress
        conds.append(s1 == s2)
    return z3.And(*conds) if conds else z3.BoolVal(True)


def minimal_alfid(I: Interp, view: cs.View) -> Any:
    a = view.get("address_and_length_format_identifier").t
    al, sl = a % 16, a / 16

    def fits(attr: str, w: Any) -> Any:
        v = view.get(attr)
        if isinstance(v, VInt):
            return z3.And(v.t < models.pow256(w), z3.Or(w == 1, v.t >= models.pow256(w - 1)))
        assert isinstance(v, VList)
        return z3.And(cs.each(I, v, lambda x: x < models.pow256(w)),
                      z3.Or(w == 1, z3.Not(cs.each(I, v, lambda x: x < models.pow256(w - 1)))))
    addr = "memory_address" if "memory_address" in view.values else "memory_addresses"
    size = "memory_size" if "memory_size" in view.values else "memory_sizes"
    return z3.And(al >= 1, al <= 15, sl >= 1, sl <= 15, a == sl * 16 + al, fits(addr, al),
                  fits(size, sl))


def make_harness(cname: str, cls: type, alts: dict[str, str], fixed: dict[str, int] | None = None,
                 widths: tuple[int, int] | None = None):
    S = service_module()
    spec = iso.REQUESTS[cname]
    dyn_name = iso.DYNAMIC_CLASS.get(cname, cname)
    dyn_cls = getattr(S, dyn_name)
    dyn_spec = iso.REQUESTS[dyn_name]
    params = cs.param_alternatives(cls)

    def harness(I: Interp) -> None:
        args: list[V] = []
        argmap: dict[str, V] = {}
        if widths is not None:
            I.ghost["ump_widths"] = widths
        for name, kinds, default in params:
            if fixed and name in fixed:
                v = VInt(fixed[name])
                I.inputs[name] = v
            else:
                v = cs.make_arg(I, name, alts[name], S)
            args.append(v)
            argmap[name] = v
        if spec.get("raw"):
            raw_harness(I, cls, args[0])
            return
        alfid_none = argmap.get("address_and_length_format_identifier") is NONE
        try:
            obj = I.call(cls, *args)
            pdu = I.getattr_v(obj, "pdu")
        except PyExc as e:
            av = arg_view(I, cname, spec, argmap)
            ints, recs = cs.in_range(I, spec, av)
            extra = []
            if "__dtc_len" in av.values:
                extra.append(av.values["__dtc_len"].t == 3)
            I.prove("E-accept(in-range-parameters-are-not-refused)",
                    z3.Not(z3.And(ints, recs, *extra)), detail=f"raised {e.exc.cls.__name__}")
            I.prove("E-refusal-is-a-value-error", z3.BoolVal(issubclass(e.exc.cls, REFUSAL)),
                    f"raised {e.exc.cls.__name__}")
            return
        assert isinstance(obj, VObj) and isinstance(pdu, VBytes)
        view = cs.read_view(I, obj, spec, True)
        ints, recs = cs.in_range(I, spec, view)
        I.prove("E-refuse(out-of-range-is-never-encoded)", ints)
        av = arg_view(I, cname, spec, argmap)
        eqs = []
        for a, v in av.values.items():
            if a.startswith("__") or (alfid_none and a == "address_and_length_format_identifier"):
                continue
            if a not in view.values:
                continue
            w = view.values[a]
            if isinstance(v, VInt) and isinstance(w, VList):
                v = VList([v])
            e_ = models.mk_eq(I, v, w)
            eqs.append(z3.BoolVal(e_) if isinstance(e_, bool) else e_)
        I.prove("E-args(attributes-equal-arguments)", z3.And(*eqs) if eqs else z3.BoolVal(True))
        if alfid_none:
            I.prove("E-minimal(computed-format-identifier-is-minimal)", minimal_alfid(I, view))
        want = cs.layout(I, spec, view, True)
        e1 = models.bytes_eq(I, pdu.t, want)
        I.prove("E-layout(pdu-equals-ISO-layout)", e1)
        if spec.get("iocp_states"):
            recs = z3.And(recs, models.seq_len(argmap[spec["iocp_states"]].t) >= 1)

        def fail2(name: str, detail: str) -> None:
            # a failing path is reported under two names, so that the known class "accepted
            # although a documented minimal length is violated" cannot mask other inputs
            I.prove(name + "{documented-lengths-respected}", z3.Not(recs), detail)
            I.prove(name + "{a-documented-minimal-length-is-violated}", recs, detail)
        # dynamic parser: typed, same fields, same bytes
        r = I.call(S.UDSRequest.parse_dynamic, pdu)
        if not (isinstance(r, VObj) and r.cls is dyn_cls):
            fail2("N-no-raw(parse_dynamic-yields-the-registry-class)",
                  f"got {r.cls.__name__ if isinstance(r, VObj) else r!r}")
        else:
            rv = cs.read_view(I, r, dyn_spec, True)
            if dyn_cls is cls and not spec.get("merge_tail"):
                I.prove("R-dyn-fields(parsed-fields-equal-original)",
                        same_fields(I, spec, view, rv))
            else:
                I.prove("R-dyn-fields(parsed-fields-equal-original)",
                        models.bytes_eq(I, cs.layout(I, dyn_spec, rv, True), pdu.t))
            try:
                rp = I.getattr_v(r, "pdu")
            except PyExc as e:
                I.fail("R-dyn-bytes(reparsed-pdu-equal)", f"pdu raised {e.exc.cls.__name__}")
            else:
                I.prove("R-dyn-bytes(reparsed-pdu-equal)", models.bytes_eq(I, rp.t, pdu.t))
        # the class' own parser
        try:
            r2 = I.call_v(I.getattr_v(VConst(cls), "from_pdu"), [pdu], {})
        except PyExc as e:
            fail2("R-own(from_pdu-accepts-own-pdu)", f"raised {e.exc.cls.__name__}")
            return
        if not (isinstance(r2, VObj) and r2.cls is cls):
            I.fail("R-own(from_pdu-accepts-own-pdu)", "wrong class")
            return
        rv2 = cs.read_view(I, r2, spec, True)
        if spec.get("merge_tail"):
            I.prove("R-own-fields", models.bytes_eq(I, cs.layout(I, spec, rv2, True), pdu.t))
        else:
            I.prove("R-own-fields", same_fields(I, spec, view, rv2))

    return harness


def raw_harness(I: Interp, cls: type, pdu: V) -> None:
    obj = I.call(cls, pdu)
    p = I.getattr_v(obj, "pdu")
    I.prove("E-layout(raw-bytes-verbatim)", p.t == pdu.t)


def build_units(tier: str) -> tuple[list[Unit], dict[str, str]]:
    units: list[Unit] = [Unit("utils/uds_memory_parameters", uc.verify_ump,
                              query_timeout_ms=60000)]
    classes = request_classes()
    skipped: dict[str, str] = {}
    for cname, cls in classes.items():
        if cname in iso.INTERNAL_REQUEST_BASES:
            skipped[cname] = iso.INTERNAL_REQUEST_BASES[cname]
            continue
        if cname not in iso.REQUESTS:
            # a request class without a contract is a checker error, not a pass
            def missing(I: Interp, cname: str = cname) -> None:
                raise Unsupported(f"request class {cname} has no entry in the ISO table")
            units.append(Unit(f"{cname}/missing", missing))
            continue
        for alts in alternatives(cls):
            tag = ",".join(f"{k}={v}" for k, v in alts.items())
            if cname == "DefineByMemoryAddressRequest" and alts.get(
                    "address_and_length_format_identifier") == "int":
                # the group width is a function of the format identifier: one unit per value
                # keeps every chunk offset linear (DESIGN 3.4); invalid identifiers as one unit
                vals = [(sl << 4) | al for sl in range(1, 16) for al in range(1, 16)]
                if tier == "quick":
                    vals = [v for v in vals if (v & 0xF) in (1, 2, 4, 15) and (v >> 4) in
                            (1, 2, 4, 15)]
                for v in vals:
                    units.append(Unit(f"{cname}/{tag}/alfid={v:#04x}", make_harness(
                        cname, cls, alts, {"address_and_length_format_identifier": v})))
                units.append(Unit(f"{cname}/{tag}/alfid=invalid",
                                  invalid_alfid_harness(cname, cls, alts)))
                continue
            if cname == "DefineByMemoryAddressRequest" and alts.get("memory_addresses") == "int":
                ws = [(a, s_) for a in range(1, 16) for s_ in range(1, 16)]
                if tier == "quick":
                    ws = [(a, s_) for a, s_ in ws if a in (1, 2, 4, 15) and s_ in (1, 2, 4, 15)]
                for a, s_ in ws:
                    units.append(Unit(f"{cname}/{tag}/widths={a}x{s_}",
                                      make_harness(cname, cls, alts, None, (a, s_))))
                continue
            if cname == "DefineByMemoryAddressRequest" and alts.get("memory_addresses") == \
                    "intlist":
                skipped[f"{cname}/{tag}"] = ("not covered: computing the format identifier "
                                             "over a list of symbolic length needs an index-"
                                             "dependent Skolem width (outside the fold templates)")
                continue
            units.append(Unit(f"{cname}/{tag}", make_harness(cname, cls, alts)))
    for mname in client_methods():
        units.append(Unit(f"client/{mname}", forwarding_harness(mname)))
    # CPython cross-check of the engine on the functions of this property (trusted-base evidence)
    import os
    from pyvc import crosscheck
    n_x = 300 if tier == "quick" else 5000
    sd = int(os.environ.get("VERIF_SEED", "0") or 0)
    for kind in ("encode-requests", "parse-requests"):
        units.append(Unit(f"engine-crosscheck/{kind}", crosscheck.codec_unit(
            kind, service_module, request_classes, cs.param_alternatives, random_arg, n_x, sd),
            bounded=f"{n_x} random concrete cases (engine validation, not a property obligation)"))
    from .c02 import registry_sids
    for sid in registry_sids() + [None]:
        if sid == 0x2C:
            # definition by memory address: the record width is a function of byte 4 - one unit
            # per value keeps the strides concrete (quick: nibbles 0,1,2,4,15; thorough: all)
            units.append(Unit("parse-total/sid=0x2c/other-sub-functions",
                              parse_total_harness(sid, not_sub=2), max_paths=20000))
            nib = (0, 1, 2, 4, 15) if tier == "quick" else tuple(range(16))
            for hi in nib:
                for lo in nib:
                    units.append(Unit(f"parse-total/sid=0x2c/sub=0x02/alfid={hi << 4 | lo:#04x}",
                                      parse_total_harness(sid, sub=2, byte4=hi << 4 | lo),
                                      max_paths=20000))
            units.append(Unit("parse-total/sid=0x2c/sub=0x02/shorter-than-5",
                              parse_total_harness(sid, sub=2, maxlen=4), max_paths=20000))
            continue
        units.append(Unit(f"parse-total/sid={'other' if sid is None else f'{sid:#04x}'}",
                          parse_total_harness(sid), max_paths=20000))
    for u in units:
        if u.setup is None:
            u.setup = uc.install
    units.append(Unit("purity/codec-functions", purity_harness))
    return units, skipped


CLIENT_INFRA = {"connect", "reconnect", "reconnect_unsafe", "_read", "request_unsafe",
                "_tester_present", "send_raw", "request", "_request"}


def client_methods() -> list[str]:
    from gallia.services.uds.core.client import UDSClient
    return sorted(n for n, f in vars(UDSClient).items()
                  if inspect.iscoroutinefunction(f) and n not in CLIENT_INFRA)


def forwarding_harness(mname: str):
    """`UDSClient.<service>(…)`: exactly one request object is built, every argument of the call
    reaches the constructor parameter of the same name unchanged (identity), none is dropped or
    used twice, and that request goes out through `self.request` with the caller's config."""
    def harness(I: Interp) -> None:
        from contracts.c15 import Stub, coro
        from gallia.services.uds.core.client import UDSClient
        S = service_module()
        fn = vars(UDSClient)[mname]
        sig = inspect.signature(fn)
        args: dict[str, V] = {}
        for name, prm in list(sig.parameters.items())[1:]:
            ann = str(prm.annotation)
            if name == "config":
                args[name] = VObj(Stub, {}, lazy=True, tag="config")
            elif "bool" in ann:
                args[name] = I.fresh_bool(name, inp=True)
            elif "bytes" in ann and "int" not in ann:
                args[name] = I.fresh_bytes(name, inp=True)
            elif "list" in ann or "Sequence" in ann:
                args[name] = VList([I.fresh_int(f"{name}_0", inp=True)])
            elif "dict" in ann:
                args[name] = VDict([])
            else:
                args[name] = I.fresh_int(name, inp=True)
        built: list[tuple[type, dict[str, V]]] = []
        installed = []
        for cname, cls in request_classes().items():
            def mk(I2: Interp, c: type, a: list[V], k: dict[str, V]) -> V:
                try:
                    b = inspect.signature(c.__init__).bind(None, *a, **k)
                except TypeError as e:
                    I2.fail(f"F-{mname}-calls-the-constructor-with-a-valid-signature", str(e))
                    raise PyExc(VObj(TypeError, {"args": VTuple([])}))
                bound = {kk: vv for kk, vv in list(b.arguments.items())[1:]}
                built.append((c, bound))
                return VObj(Stub, {"_cls": VConst(c)}, lazy=True, tag="request-object")
            models.CLASS_MODELS[cls] = mk
            installed.append(cls)
        sent: list[tuple[V, V]] = []

        def request(I2: Interp, self_: V, req: V, config: V = NONE) -> V:
            sent.append((req, config))
            return coro(lambda: VObj(Stub, {}, lazy=True, tag="response"))
        I.ex.contracts[UDSClient.request] = request
        client = VObj(UDSClient, {})
        try:
            I.await_v(I.call_v(I.getattr_v(client, mname), [], dict(args)))
        except PyExc as e:
            # a refused call (argument out of range): nothing may have been sent
            I.prove(f"F-{mname}:a-refused-call-sends-nothing", z3.BoolVal(
                not sent and issubclass(e.exc.cls, (ValueError, OverflowError, struct.error,
                                                    TypeError))), e.exc.cls.__name__)
            return
        finally:
            for cls in installed:
                models.CLASS_MODELS.pop(cls, None)
        I.prove(f"F-{mname}:one-request-is-built-and-sent",
                z3.BoolVal(len(built) == 1 and len(sent) == 1))
        if len(built) != 1 or len(sent) != 1:
            return
        cls, bound = built[0]
        I.prove(f"F-{mname}:config-is-the-caller's", z3.BoolVal(
            "config" not in args or sent[0][1] is args["config"]))
        for name, v in args.items():
            if name == "config":
                continue
            hits = [k for k, bv in bound.items() if bv is v]
            if name in bound:
                I.prove(f"F-{mname}:{name}-reaches-the-constructor-parameter-of-that-name",
                        z3.BoolVal(bound[name] is v), f"goes to {hits}")
            I.prove(f"F-{mname}:{name}-is-used-exactly-once", z3.BoolVal(len(hits) == 1),
                    f"reaches {hits}")
    return harness


def parse_total_harness(sid: int | None, sub: int | None = None, not_sub: int | None = None,
                        byte4: int | None = None, maxlen: int | None = None):
    """`UDSRequest.parse_dynamic` is total: for *every* non-empty byte string it returns a
    request object (typed or raw) and never raises - the virtual ECU and the scanners feed it
    bytes straight from the wire.  One unit per service id + one for all unregistered ids."""
    def harness(I: Interp) -> None:
        from .c02 import registry_sids
        S = service_module()
        if byte4 is None:
            pdu = I.fresh_bytes("pdu", inp=True, minlen=1)
        else:
            # byte 4 is a literal of the byte string, so every width derived from it is concrete
            head = I.fresh_bytes("pdu_head", inp=True)
            I.assume(models.seq_len(head.t) == 4)
            tail = I.fresh_bytes("pdu_tail", inp=True)
            pdu = VBytes(z3.Concat(head.t, z3.Unit(z3.IntVal(byte4)), tail.t))
            I.inputs["pdu"] = pdu
        b0 = pdu.t[0] if byte4 is None else head.t[0]
        I.assume(z3.And(b0 >= 0, b0 <= 255))
        if sid is not None:
            I.assume(b0 == sid)
        else:
            I.assume(z3.And(*[b0 != k for k in registry_sids()]))
        n = models.seq_len(pdu.t)
        b1 = pdu.t[1] if byte4 is None else head.t[1]
        if sub is not None:
            I.assume(z3.And(n >= 2, b1 % 0x80 == sub, b1 >= 0, b1 <= 255))
        if not_sub is not None:
            I.assume(z3.Implies(n >= 2, z3.And(pdu.t[1] % 0x80 != not_sub, pdu.t[1] >= 0,
                                               pdu.t[1] <= 255)))
        if maxlen is not None:
            I.assume(n <= maxlen)
        try:
            r = I.call(S.UDSRequest.parse_dynamic, pdu)
        except PyExc as e:
            I.fail("T-parse_dynamic-returns-a-request-for-every-non-empty-byte-string",
                   f"raises {e.exc.cls.__name__}")
            return
        I.prove("T-parse_dynamic-result-is-a-UDSRequest",
                z3.BoolVal(isinstance(r, VObj) and issubclass(r.cls, S.UDSRequest)))
        try:
            out = I.getattr_v(r, "pdu")
        except PyExc as e:
            I.fail("T-parsed-request-serialises", e.exc.cls.__name__)
            return
        I.prove("T-parsed-request-keeps-the-received-bytes", models.bytes_eq(I, out.t, pdu.t))
    return harness


def invalid_alfid_harness(cname: str, cls: type, alts: dict[str, str]):
    S = service_module()
    params = cs.param_alternatives(cls)

    def harness(I: Interp) -> None:
        args = []
        for name, kinds, default in params:
            v = cs.make_arg(I, name, alts[name], S)
            if name == "address_and_length_format_identifier":
                I.assume(z3.Not(z3.And(v.t >= 0, v.t <= 255, v.t % 16 != 0, v.t / 16 != 0)))
            args.append(v)
        try:
            obj = I.call(cls, *args)
            I.getattr_v(obj, "pdu")
        except PyExc as e:
            I.prove("E-refusal-is-a-value-error", z3.BoolVal(issubclass(e.exc.cls, REFUSAL)),
                    f"raised {e.exc.cls.__name__}")
            return
        # with a list of length 0 the constructor never looks at the identifier
        lst = args[1]
        n = lst.length() if isinstance(lst, VList) else z3.IntVal(1)
        I.prove("E-refuse(out-of-range-is-never-encoded)", n == 0)
    return harness


# --------------------------------------------------------------------------- native side
def py_of(model_value: Any) -> Any:
    if isinstance(model_value, dict):
        if "bytes" in model_value:
            return bytes.fromhex(model_value["bytes"])
        if "tuple" in model_value:
            return tuple(py_of(x) for x in model_value["tuple"])
        return model_value
    if isinstance(model_value, list):
        return [py_of(x) for x in model_value]
    return model_value


def parse_unit(unit: str) -> tuple[str, dict[str, str], dict[str, int]]:
    parts = unit.split("/")
    cname = parts[0]
    alts = dict(x.split("=") for x in parts[1].split(",")) if len(parts) > 1 and parts[1] else {}
    fixed = {}
    if len(parts) > 2 and parts[2].startswith("alfid=") and parts[2] != "alfid=invalid":
        fixed["address_and_length_format_identifier"] = int(parts[2][6:], 16)
    return cname, alts, fixed


def native_outcomes(cname: str, pyargs: list[Any]) -> dict[str, tuple[bool, str]]:
    """Evaluate every C01 obligation natively on the real code for concrete arguments.
    Returns {obligation base name: (violated, text)}."""
    S = service_module()
    cls = getattr(S, cname)
    spec = iso.REQUESTS[cname]
    out: dict[str, tuple[bool, str]] = {}
    ex = Explorer("native")
    I = Interp(ex, [])
    params = cs.param_alternatives(cls)
    argmap = {name: wrap(a) for (name, _, _), a in zip(params, pyargs)}
    try:
        obj = cls(*pyargs)
        pdu = obj.pdu
    except Exception as e:  # noqa: BLE001
        av = arg_view(I, cname, spec, argmap)
        ints, recs = cs.in_range(I, spec, av)
        ok = z3.is_true(z3.simplify(z3.And(ints, recs)))
        if "__dtc_len" in av.values:
            ok = ok and av.values["__dtc_len"].concrete() == 3
        out["E-accept"] = (ok, f"{cname}{tuple(pyargs)!r} raised {type(e).__name__}: {e} "
                               f"although every parameter is in its documented range"
                           if ok else "refused an out-of-range parameter (fine)")
        out["E-refusal-is-a-value-error"] = (not isinstance(e, REFUSAL),
                                             f"{cname}{tuple(pyargs)!r} raised "
                                             f"{type(e).__name__}: {e}")
        return out

    def view_of(o: Any, sp: dict) -> cs.View:
        vals = {}
        for f in cs.all_fields(sp):
            for a in cs.attrs_of_field(f):
                vals[a] = wrap(getattr(o, a))
        sup = getattr(o, "suppress_response", None) if sp.get("sub") is not None else None
        return cs.View(I, vals, bool(sup) if sup is not None else None)
    view = view_of(obj, spec)
    ints, recs = cs.in_range(I, spec, view)
    bad = not z3.is_true(z3.simplify(ints))
    out["E-refuse"] = (bad, f"{cname}{tuple(pyargs)!r} was accepted and encoded to {pdu.hex()} "
                            f"although a parameter is outside its documented range")
    want = seq_to_bytes(z3.simplify(cs.layout(I, spec, view, True)))
    out["E-layout"] = (want != pdu, f"{cname}{tuple(pyargs)!r}.pdu == {pdu.hex()} but ISO "
                                    f"14229-1 layout is {want.hex() if want is not None else '?'}")
    dyn_name = iso.DYNAMIC_CLASS.get(cname, cname)
    r = S.UDSRequest.parse_dynamic(pdu)
    out["N-no-raw"] = (type(r).__name__ != dyn_name,
                       f"parse_dynamic({pdu.hex()}) of {cname}{tuple(pyargs)!r} yields "
                       f"{type(r).__name__}, expected {dyn_name}")
    if type(r).__name__ == dyn_name:
        out["R-dyn-bytes"] = (r.pdu != pdu, f"reparsed pdu {r.pdu.hex()} != {pdu.hex()}")
        rv = view_of(r, iso.REQUESTS[dyn_name])
        w2 = seq_to_bytes(z3.simplify(cs.layout(I, iso.REQUESTS[dyn_name], rv, True)))
        out["R-dyn-fields"] = (w2 != pdu, f"fields of parse_dynamic({pdu.hex()}) re-layout to "
                                          f"{w2.hex() if w2 is not None else '?'}")
    try:
        r2 = cls.from_pdu(pdu)
        rv2 = view_of(r2, spec)
        w3 = seq_to_bytes(z3.simplify(cs.layout(I, spec, rv2, True)))
        out["R-own"] = (False, "")
        out["R-own-fields"] = (w3 != pdu, f"{cname}.from_pdu({pdu.hex()}) has fields that "
                                          f"re-layout to {w3.hex() if w3 is not None else '?'}")
    except Exception as e:  # noqa: BLE001
        out["R-own"] = (True, f"{cname}.from_pdu({pdu.hex()}) (its own PDU, from "
                              f"{cname}{tuple(pyargs)!r}) raised {type(e).__name__}: {e}")
    return out


def native_parse_total(unit: str, model: dict) -> tuple[bool, str]:
    """parse_dynamic on the counter-model bytes, then on every 1- and 2-byte string and a family
    of longer ones for the unit's service id."""
    import logging
    logging.disable(logging.CRITICAL)
    S = service_module()
    cands: list[bytes] = []
    m = model.get("pdu")
    if isinstance(m, (list, tuple)):
        cands.append(bytes(int(x) & 0xFF for x in m))
    elif isinstance(m, str):
        try:
            cands.append(bytes.fromhex(m))
        except ValueError:
            pass
    part = unit.split("sid=")[1].split("/")[0] if "sid=" in unit else "other"
    sids = [int(part, 16)] if part != "other" else [0x00, 0x12, 0x3F, 0x40, 0x7F, 0x86, 0xFF]
    for sid in sids:
        cands.append(bytes([sid]))
        cands += [bytes([sid, b]) for b in range(256)]
        cands += [bytes([sid, b]) + tail for b in (0, 1, 2, 3, 0x81) for tail in (
            b"\x00", b"\x00\x00", b"\x12\x34\x11", b"\x12\x34\x11\x01\x02\x03")]
    for raw in cands:
        if not raw:
            continue
        try:
            r = S.UDSRequest.parse_dynamic(raw)
        except BaseException as e:  # noqa: BLE001
            return True, f"UDSRequest.parse_dynamic({raw.hex()}) raises {type(e).__name__}: {e}"
        try:
            if r.pdu != raw:
                return True, f"UDSRequest.parse_dynamic({raw.hex()}).pdu == {r.pdu.hex()}"
        except BaseException as e:  # noqa: BLE001
            return True, f"UDSRequest.parse_dynamic({raw.hex()}).pdu raises {type(e).__name__}"
    return False, f"{len(cands)} byte strings parse and keep their bytes"


def native_client(mname: str) -> tuple[bool, str]:
    """Call the real client method with distinguishable arguments, capture the request object it
    hands to request(), and compare its PDU with the request built directly from the same
    arguments by name."""
    import asyncio
    import logging
    logging.disable(logging.CRITICAL)
    from gallia.services.uds.core.client import UDSClient
    fn = vars(UDSClient)[mname]
    sig = inspect.signature(fn)
    kwargs: dict[str, Any] = {}
    n = 0
    for name, prm in list(sig.parameters.items())[1:]:
        ann = str(prm.annotation)
        n += 1
        if name == "config":
            continue
        if "bool" in ann:
            kwargs[name] = False
        elif "bytes" in ann and "int" not in ann:
            kwargs[name] = bytes([0xA0 + n] * n)
        elif "list" in ann or "Sequence" in ann:
            kwargs[name] = [n]
        elif "dict" in ann:
            kwargs[name] = {}
        else:
            kwargs[name] = n
    if "address_and_length_format_identifier" in kwargs:
        kwargs["address_and_length_format_identifier"] = 0x11
    if mname == "security_access_send_key":
        kwargs["security_access_type"] = 2
    sent: list[Any] = []

    class C(UDSClient):  # type: ignore[misc]
        def __init__(self) -> None:
            pass

        async def request(self, request: Any, config: Any = None) -> Any:  # type: ignore[override]
            sent.append(request)
            return None
    try:
        asyncio.run(getattr(C(), mname)(**kwargs))
    except Exception as e:  # noqa: BLE001
        return False, f"{mname}({kwargs}) raised {type(e).__name__}: {e}"
    if len(sent) != 1:
        return True, f"{mname} sent {len(sent)} requests"
    req = sent[0]
    ctor = inspect.signature(type(req).__init__)
    direct_kwargs = {k: v for k, v in kwargs.items() if k in ctor.parameters}
    try:
        direct = type(req)(**direct_kwargs)
    except Exception as e:  # noqa: BLE001
        return False, f"direct construction failed: {type(e).__name__}: {e}"
    return req.pdu != direct.pdu, (
        f"client.{mname}({kwargs}) sends {req.pdu.hex()}; {type(req).__name__}"
        f"({direct_kwargs}) is {direct.pdu.hex()}")


def purity_harness(I: Interp) -> None:
    """Frame contract of the codec (contracts/effects.py): no function of service.py, utils.py,
    exception.py, helpers.py stores into class attributes, module globals or class-level
    containers - so parsing/serialising one PDU cannot change how a later one is parsed.  The
    registries written at import time by __init_subclass__ are the stated exception."""
    import hashlib
    import inspect
    import z3
    from gallia.services.uds import helpers
    from gallia.services.uds.core import exception, service, utils

    from . import effects
    n = 0
    for mod in (service, utils, exception, helpers):
        shared_args = effects.shared_arguments_mutated(mod)
        for q, fn, owner in effects.functions_of(mod):
            if q.endswith(".__init_subclass__"):
                I.ex.assumptions.add(f"{q} builds a registry at import time (not at run time)")
                continue
            try:
                src = inspect.getsource(fn)
            except (OSError, TypeError):
                continue
            I.ex.functions[q] = hashlib.sha1(src.encode()).hexdigest()[:12]
            w = effects.shared_state_writes(fn, owner) + shared_args.get(q, [])
            n += 1
            I.prove(f"E-pure({q.split('gallia.services.uds.')[-1]}):no-store-into-class-or-"
                    "module-state", z3.BoolVal(not w), "; ".join(w))
    I.prove("E-pure:functions-found", z3.BoolVal(n > 200), str(n))


PURITY_CORPUS = ["3101ff00", "3102ff00", "3103ff00", "1901ff", "1902ff", "190a", "190f01",
                 "2c01f20012340101", "2c02f2001112345601", "2c03f200", "2701", "2702aa", "1003",
                 "1101", "22f190", "3e00", "8501", "1906123456ff", "191101", "191201"]


def native_order_dependence() -> tuple[bool, str]:
    """parse q after p in one process vs. q alone in a fresh process (requests and replies)"""
    import json
    import subprocess
    prog = (
        "import sys, json\n"
        "from binascii import unhexlify as u\n"
        "from gallia.services.uds.core.service import UDSRequest, UDSResponse\n"
        "def t(h):\n"
        "    out = []\n"
        "    for cls, b in ((UDSRequest, u(h)), (UDSResponse, bytes([u(h)[0] + 0x40]) + u(h)[1:])):\n"
        "        try:\n"
        "            out.append(type(cls.parse_dynamic(b)).__name__)\n"
        "        except Exception as e:\n"
        "            out.append('raises ' + type(e).__name__)\n"
        "    return out\n"
        "first = sys.argv[1]\n"
        "if first != '-':\n"
        "    t(first)\n"
        "print(json.dumps({h: t(h) for h in sys.argv[2:]}))\n")

    def run(first: str, rest: list[str]) -> dict:
        r = subprocess.run([sys.executable, "-c", prog, first] + rest, capture_output=True,
                           text=True, timeout=120)
        return json.loads(r.stdout.strip().splitlines()[-1])
    alone = {}
    for h in PURITY_CORPUS:
        alone.update(run("-", [h]))
    for p in PURITY_CORPUS:
        after = run(p, PURITY_CORPUS)
        for h in PURITY_CORPUS:
            if after[h] != alone[h]:
                return True, (f"after parsing {p}, {h} parses as {after[h]} (request, reply); in "
                              f"a fresh process it parses as {alone[h]}")
    return False, "no order dependence on the corpus of 20 PDUs x 20 predecessors"


def native_replay(unit: str, obligation: str, model: dict) -> tuple[bool, str]:
    if unit.startswith("purity/"):
        return native_order_dependence()
    if unit.startswith("parse-total/"):
        return native_parse_total(unit, model)
    if unit.startswith("client/"):
        return native_client(unit.split("/", 1)[1])
    cname, alts, fixed = parse_unit(unit)
    S = service_module()
    cls = getattr(S, cname)
    params = cs.param_alternatives(cls)
    pyargs = []
    for name, kinds, default in params:
        if alts.get(name) == "none":
            pyargs.append(None)
        elif name in fixed:
            pyargs.append(fixed[name])
        else:
            pyargs.append(py_of(model.get(name)))
    base = obligation.split("(")[0]
    res = native_outcomes(cname, pyargs)
    if base in res:
        return res[base]
    return False, f"obligation {base} not evaluated natively for these arguments: {sorted(res)}"


def random_arg(rnd: random.Random, kind: str) -> Any:
    if kind == "int":
        return rnd.choice([0, 1, 2, 3, 0x7F, 0x80, 0xFF, 0x100, 0xFFFF, 0x10000, 0xFFFFFF,
                           0x1000000, -1, rnd.randrange(0, 1 << rnd.choice([7, 8, 16, 24, 40]))])
    if kind == "bool":
        return rnd.random() < 0.5
    if kind == "bytes":
        return bytes(rnd.randrange(256) for _ in range(rnd.choice([0, 0, 1, 2, 3, 5])))
    if kind == "none":
        return None
    if kind == "intlist":
        return [random_arg(rnd, "int") for _ in range(rnd.choice([0, 1, 2, 3]))]
    if kind == "tuple_int_int":
        return (random_arg(rnd, "int"), random_arg(rnd, "int"))
    raise Unsupported(kind)


def native_search(unit: str, obligation: str, seed: int) -> dict | None:
    if unit.startswith("purity/"):
        return {}
    if unit.startswith(("parse-total/", "client/")):
        return {}
    cname, alts, fixed = parse_unit(unit)
    S = service_module()
    cls = getattr(S, cname)
    params = cs.param_alternatives(cls)
    rnd = random.Random(seed * 7919 + hash(unit) % 1000)
    base = obligation.split("(")[0]
    t_end = time.time() + 6
    for _ in range(600):
        if time.time() > t_end:
            break
        pyargs = []
        model = {}
        for name, kinds, default in params:
            a = fixed[name] if name in fixed else random_arg(rnd, alts[name])
            pyargs.append(a)
            model[name] = ({"bytes": a.hex()} if isinstance(a, bytes) else
                           {"tuple": list(a)} if isinstance(a, tuple) else a)
        try:
            res = native_outcomes(cname, pyargs)
        except Exception:  # noqa: BLE001
            continue
        if base in res and res[base][0]:
            return model
    return None


TRUSTED = [
    "pyvc VC generator (symbolic execution of the real AST, fold templates, chunk lemma)",
    "z3 5.1.0 (API); z3 4.8.12 / cvc5 1.0.3 CLI for queries z3 leaves open",
    "CPython semantics of int.to_bytes/from_bytes/bit_length, struct.pack ('!BHIL'), bytes "
    "slicing/concatenation, math.ceil, Enum lookup as modelled in pyvc/models.py",
    "ISO 14229-1 layout table contracts/iso14229.py (transcribed from the standard)",
    "logger.* calls have no effect; f-string contents are not evaluated",
]


def main(tier: str, seed: int, only: str | None = None, jobs: int = 16) -> int:
    chk = Check("C01", "contracts.c01", tier, seed)
    units, skipped = build_units(tier)
    if only:
        units = [u for u in units if only in u.uid]
    results = run_units(units, jobs)
    chk.trusted_base = TRUSTED
    chk.assumptions = [
        "objects are not mutated between construction and serialisation",
        "int|Sequence[int] parameters are taken uniformly as ints or as sequences",
        "machine arithmetic: none assumed - Python ints are mathematical integers in the VCs",
        "classes excluded as internal bases: " + "; ".join(f"{k} ({v})"
                                                          for k, v in skipped.items()),
    ]
    chk.extra["request_classes_under_contract"] = sorted({r["unit"].split("/")[0]
                                                          for r in results})
    return chk.finish(results, native_replay, native_search)
