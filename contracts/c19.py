"""C19 - line-based transports deliver every message intact, in order, one per read.

Framing lemma (DESIGN 5/C19) over the trusted contracts of hexlify/unhexlify,
StreamReader.readline (bytes up to and including the first '\\n' of the *stream*, or the rest at
EOF; a cancelled call consumes nothing) and wait_for:
  W  LinesTransportMixin.write(d) hands exactly hexlify(d) ++ "\\n" to the writer (one newline, at
     the end) under the caller's deadline and returns len(d);
  R  LinesTransportMixin.read returns unhexlify(strip(decode(line))): for the line written for a
     message m that is m itself; at EOF it returns b"" (distinguishable from every message of
     length >= 1); a timed-out read consumed nothing (the stream position is unchanged);
  S  TCPUDSServerTransport.handle_client: one arbitrary iteration - the request handed to
     handle_request is the message of the line, exactly one reply line per non-None response,
     the loop ends only on EOF or an exception, and the handler does not raise at EOF.
Since the readline contract speaks about the stream, the i-th read returns the i-th message for
every segmentation (the induction over i is that contract).
"""
from __future__ import annotations

import asyncio
from typing import Any

import z3

from pyvc import loops, models, strings
from pyvc.engine import Explorer, Frame, Interp, PyExc
from pyvc.runner import Check, Unit, run_units
from pyvc.values import (NONE, V, VBool, VBytes, VConst, VFloat, VInt, VList, VObj, VStr, VTuple)

from . import transport_env as te
from .c15 import Stub, coro


def T() -> Any:
    import gallia.command  # noqa: F401
    from gallia.transports import tcp, unix
    return tcp, unix


def line_of(I: Interp, m: VBytes) -> strings.AsciiBytes:
    return strings.AsciiBytes(z3.Concat(strings.hex_term(I, m.t), z3.StringVal("\n")))


def install_lines(ex: Explorer) -> None:
    te.install_io(ex)

    def readline(I: Interp, recv: V, args: list[V], kwargs: dict[str, V]) -> V:
        def go() -> V:
            I.ghost["readlines"] = I.ghost.get("readlines", 0) + 1
            if I.ghost["at_eof"]:
                return VBytes(b"")
            I.ghost["consumed"] = I.ghost.get("consumed", 0) + 1
            return line_of(I, I.ghost["next_message"])
        return coro(go)
    ex.stubs[("reader", "readline")] = readline
    ex.stubs[("reader", "readuntil")] = readline

    def read(I: Interp, recv: V, args: list[V], kwargs: dict[str, V]) -> V:
        """StreamReader.read(n): whatever segment has arrived - the whole pending line or any
        non-empty proper prefix of it (TCP may split a line anywhere)"""
        def go() -> V:
            I.ghost["reads"] = I.ghost.get("reads", 0) + 1
            if I.ghost["at_eof"]:
                return VBytes(b"")
            line = line_of(I, I.ghost["next_message"]).s
            off = I.ghost.get("line_off", z3.IntVal(0))
            rest = z3.Length(line) - off
            if I.choose([z3.BoolVal(True)] * 2) == 0:
                I.ghost["consumed"] = I.ghost.get("consumed", 0) + 1
                I.ghost["line_off"] = z3.Length(line)
                return strings.AsciiBytes(z3.SubString(line, off, rest))
            k = I.fresh_int("segment", inp=True).t
            I.assume(z3.And(k >= 1, k < rest))
            I.ghost["line_off"] = off + k
            return strings.AsciiBytes(z3.SubString(line, off, k))
        return coro(go)
    ex.stubs[("reader", "read")] = read


def transport_obj(I: Interp, kind: str) -> VObj:
    tcp, unix = T()
    cls = tcp.TCPLinesTransport if kind == "tcp-lines" else unix.UnixLinesTransport
    return VObj(cls, {"reader": te.stub("reader"), "writer": te.stub("writer"),
                      "is_closed": VBool(False)})


def write_harness(kind: str):
    def harness(I: Interp) -> None:
        install_lines(I.ex)
        t = transport_obj(I, kind)
        m = I.fresh_bytes("message", inp=True)
        timeout = I.choose([z3.BoolVal(True)] * 2)
        to: V = NONE if timeout == 0 else VFloat(z3.Real("timeout"))
        I.ghost.update({"written": [], "at_eof": False})
        try:
            r = I.await_v(I.call_v(I.getattr_v(t, "write"), [m, to, NONE], {}))
        except PyExc as e:
            I.prove("W-only-the-caller-deadline-interrupts-a-write", z3.BoolVal(
                issubclass(e.exc.cls, TimeoutError) and I.ghost.get("timed_out", False)))
            return
        w = I.ghost["written"]
        I.prove("W-one-chunk-per-message", z3.BoolVal(len(w) == 1))
        if len(w) == 1 and isinstance(w[0], strings.AsciiBytes):
            I.prove("W-line-is-hexlify(message)-plus-one-newline",
                    w[0].s == z3.Concat(strings.HEX(m.t), z3.StringVal("\n")))
            I.prove("W-no-interior-newline",
                    z3.Not(z3.Contains(strings.HEX(m.t), z3.StringVal("\n"))))
        else:
            I.fail("W-line-is-hexlify(message)-plus-one-newline", "not an ASCII line")
        I.prove("W-returns-the-message-length", r.t == models.seq_len(m.t))
        I.prove("W-drain-runs-under-the-caller-deadline",
                z3.BoolVal(I.ghost.get("deadlines", [None])[-1] is to))
    return harness


def read_harness(kind: str):
    def harness(I: Interp) -> None:
        install_lines(I.ex)
        t = transport_obj(I, kind)
        m = I.fresh_bytes("message", inp=True)
        eof = I.choose([z3.BoolVal(True)] * 2) == 1
        to: V = NONE if I.choose([z3.BoolVal(True)] * 2) == 0 else VFloat(z3.Real("timeout"))
        I.ghost.update({"next_message": m, "at_eof": eof, "consumed": 0})
        from pyvc.values import Unsupported
        try:
            r = I.await_v(I.call_v(I.getattr_v(t, "read"), [to, NONE], {}))
        except Unsupported as e:
            if "does not terminate within" not in str(e):
                raise
            # e.g. re-reading at end of stream: the call never returns and never suspends
            I.fail("R-read-returns(no-loop-that-repeats-without-progress)", str(e))
            return
        except PyExc as e:
            I.prove("R-only-the-caller-deadline-interrupts-a-read", z3.BoolVal(
                issubclass(e.exc.cls, TimeoutError) and I.ghost.get("timed_out", False)),
                e.exc.cls.__name__)
            I.prove("R-a-timed-out-read-consumes-nothing", z3.BoolVal(I.ghost["consumed"] == 0))
            I.prove("R-a-timed-out-read-leaves-no-read-pending-on-the-stream",
                    z3.BoolVal(not I.ghost.get("left_pending")),
                    "the readline() keeps running after the timeout and takes a later line")
            return
        if eof:
            I.prove("R-end-of-stream-is-the-empty-result",
                    z3.BoolVal(isinstance(r, VBytes) and r.concrete() == b""))
        else:
            I.prove("R-read-returns-the-written-message", r.t == m.t)
            I.prove("R-one-line-per-read", z3.BoolVal(I.ghost["consumed"] == 1))
    return harness


def server_harness(I: Interp) -> None:
    import gallia.command  # noqa: F401
    from gallia.services.uds import server as SV
    install_lines(I.ex)
    m = I.fresh_bytes("request", inp=True, minlen=1)
    reply = I.fresh_bytes("reply", minlen=1)
    seen: list[V] = []
    I.ghost.update({"next_message": m, "at_eof": False, "written": [], "handled": 0})
    kind = {"v": None}

    def handle(I2: Interp, self_: V, pdu: V) -> V:
        def go() -> V:
            seen.append(pdu)
            k = I2.choose([z3.BoolVal(True)] * 3)
            kind["v"] = k
            if k == 2:
                I2.raise_py(RuntimeError, "server bug")
            return VTuple([reply if k == 0 else NONE, VFloat(z3.Real(I2.fresh_name("dt")))])
        return coro(go)
    I.ex.contracts[SV.UDSServerTransport.handle_request] = handle
    srv = VObj(SV.TCPUDSServerTransport, {"server": te.stub("server")})

    def havoc(I2: Interp, fr: Frame) -> None:
        seen.clear()
        I2.ghost["written"] = []
        I2.ghost["spawned"] = []
        kind["v"] = None
        I2.ghost["at_eof"] = I2.choose([z3.BoolVal(True)] * 2) == 1
        # any number of earlier requests: none or some (their sum is an arbitrary real)
        none_yet = I2.choose([z3.BoolVal(True)] * 2) == 0
        fr.env["response_times"] = VList([] if none_yet else [VFloat(z3.Real("rt_sum"))])

    def inv(I2: Interp, fr: Frame) -> list[tuple[str, Any]]:
        k = kind["v"]
        if k is None:
            if I2.ghost["__loop_phase"] == "preserved":
                # the iteration read a request line and went on to the next read
                return [("a-request-is-answered-before-the-next-line-is-read", z3.BoolVal(False))]
            return []
        w = I2.ghost["written"]
        out = [("request-handed-over-is-the-message-of-the-line", z3.And(
            z3.BoolVal(len(seen) == 1), seen[0].t == m.t if len(seen) == 1
            else z3.BoolVal(False)))]
        if k == 0:
            out.append(("exactly-one-reply-line-per-response", z3.And(
                z3.BoolVal(len(w) == 1 and isinstance(w[0], strings.AsciiBytes)),
                w[0].s == z3.Concat(strings.HEX(reply.t), z3.StringVal("\n"))
                if len(w) == 1 and isinstance(w[0], strings.AsciiBytes) else z3.BoolVal(False))))
        else:
            out.append(("no-line-without-a-response", z3.BoolVal(not w)))
        return out
    I.ex.loop_contracts[("TCPUDSServerTransport.handle_client", 0)] = loops.LoopContract(
        havoc, inv)
    models.MODELS[__import__("traceback").print_exc] = lambda I2, a, k: NONE
    try:
        I.await_v(I.call_v(I.getattr_v(srv, "handle_client"),
                           [te.stub("reader"), te.stub("writer")], {}))
    except PyExc as e:
        I.fail("S-handler-does-not-raise-when-the-client-disconnects", e.exc.cls.__name__)
        return
    I.prove("S-loop-ends-only-on-end-of-stream-or-exception",
            z3.BoolVal(I.ghost["at_eof"] or kind["v"] == 2))
    I.prove("S-requests-are-answered-in-the-handler-itself(no-concurrent-reply-tasks)",
            z3.BoolVal(not I.ghost.get("spawned")))


MAX_LINE = 2 * 4095 + 1  # hex form of the longest message of the statement, plus the newline


def stream_limit_harness(which: str):
    """readline() returns a line only if it fits the stream's buffer limit (64 KiB by default,
    ValueError beyond it): whoever creates the stream must leave room for the longest line of
    the statement (messages of 1..4095 bytes -> 8191 bytes)."""
    def harness(I: Interp) -> None:
        import gallia.command  # noqa: F401
        from gallia.services.uds import server as SV
        tcp, unix = T()
        made: list[dict[str, V]] = []

        def opener(I2: Interp, args: list[V], kwargs: dict[str, V]) -> V:
            made.append(kwargs)
            if which.startswith("server"):
                return coro(lambda: te.stub("aserver"))
            return coro(lambda: VTuple([te.stub("reader"), te.stub("writer")]))
        for fn in (asyncio.start_server, asyncio.start_unix_server, asyncio.open_connection,
                   asyncio.open_unix_connection):
            models.MODELS[fn] = opener
        te.install_io(I.ex)
        I.ex.stubs[("aserver", "serve_forever")] = lambda I2, r, a, k: coro(lambda: NONE)

        def server_cm(I2: Interp, cm: V) -> Any:
            if isinstance(cm, VObj) and cm.tag == "aserver":
                return (lambda: cm), (lambda exc: False)
            return None
        if server_cm not in models.WITH_MODELS:
            models.WITH_MODELS.append(server_cm)
        target = VObj(Stub, {"hostname": VStr("127.0.0.1"), "port": VInt(1), "path": VStr("/p")},
                      lazy=True, tag="target")
        try:
            if which == "server/tcp":
                o = VObj(SV.TCPUDSServerTransport, {"target": target})
                I.await_v(I.call_v(I.getattr_v(o, "run"), [], {}))
            elif which == "server/unix":
                o = VObj(SV.UnixUDSServerTransport, {"target": target})
                I.await_v(I.call_v(I.getattr_v(o, "run"), [], {}))
            else:
                cls = tcp.TCPLinesTransport if which == "client/tcp-lines" else \
                    unix.UnixLinesTransport
                I.ex.contracts[cls.__dict__["check_scheme"].__func__ if "check_scheme" in
                               cls.__dict__ else tcp.TCPTransport.check_scheme.__func__] = \
                    lambda I2, c, t: NONE
                from gallia.transports.base import TargetURI
                models.CLASS_MODELS[cls] = lambda I2, c, a, k: VObj(Stub, {}, lazy=True,
                                                                    tag="transport")
                models.CLASS_MODELS[TargetURI] = lambda I2, c, a, k: target
                try:
                    I.await_v(I.call_v(I.getattr_v(VConst(cls), "connect"), [target, NONE], {}))
                finally:
                    models.CLASS_MODELS.pop(cls, None)
                    models.CLASS_MODELS.pop(TargetURI, None)
        except PyExc as e:
            I.fail(f"Z-{which}-creates-its-stream-without-raising", e.exc.cls.__name__)
            return
        I.prove("Z-one-stream-is-created", z3.BoolVal(len(made) == 1))
        for kw in made:
            lim = kw.get("limit")
            ok = lim is None or lim is NONE
            if not ok:
                lv = models.as_int(I, lim)
                I.prove("Z-stream-buffer-limit-leaves-room-for-the-longest-line(8191-bytes)",
                        lv >= MAX_LINE, f"limit={lim!r}")
            else:
                I.prove("Z-stream-buffer-limit-leaves-room-for-the-longest-line(8191-bytes)",
                        z3.BoolVal(True))
    return harness


def build_units(tier: str) -> list[Unit]:
    units = [Unit(f"stream-limit/{w}", stream_limit_harness(w))
             for w in ("server/tcp", "server/unix", "client/tcp-lines", "client/unix-lines")]
    for k in ("tcp-lines", "unix-lines"):
        units.append(Unit(f"{k}/write", write_harness(k)))
        units.append(Unit(f"{k}/read", read_harness(k)))
    units.append(Unit("server/handle_client", server_harness))
    return units


class _W:
    def __init__(self) -> None:
        self.data = b""

    def write(self, b: bytes) -> None:
        self.data += b

    async def drain(self) -> None:
        pass

    def close(self) -> None:
        pass

    async def wait_closed(self) -> None:
        pass

    def is_closing(self) -> bool:
        return False


def native_read_after_timeout() -> tuple[bool, str]:
    """A read that times out on an empty stream, then three messages arrive: the next three reads
    return exactly those three."""
    tcp, unix = T()
    from gallia.transports.base import TargetURI

    async def go() -> tuple[bool, str]:
        r = asyncio.StreamReader()
        t = tcp.TCPLinesTransport(TargetURI("tcp-lines://127.0.0.1:1"), r, _W())  # type: ignore
        try:
            await t.read(timeout=0.05)
            return True, "a read on an empty stream returned"
        except TimeoutError:
            pass
        msgs = [b"\x50\x01", b"\x62\xf1\x90AB", b"\x7f\x22\x31"]
        for m in msgs:
            r.feed_data(m.hex().encode() + b"\n")
        got = []
        for _ in msgs:
            try:
                got.append(await t.read(timeout=0.2))
            except Exception as e:  # noqa: BLE001
                got.append(type(e).__name__.encode())
        return got != msgs, (f"after a timed-out read the messages {[m.hex() for m in msgs]} "
                             f"are read as {[g.hex() if isinstance(g, bytes) else g for g in got]}")
    return asyncio.run(go())


def native_server_order() -> tuple[bool, str]:
    """Three requests arrive in one segment; the first is slow to answer."""
    import gallia.command  # noqa: F401
    from gallia.services.uds import server as SV

    class Slow(SV.TCPUDSServerTransport):  # type: ignore[misc]
        def __init__(self) -> None:
            pass

        async def handle_request(self, pdu: bytes) -> tuple[bytes | None, float]:
            await asyncio.sleep(0.05 if pdu[0] == 0x22 else 0)
            return bytes([pdu[0] + 0x40]) + pdu[1:], 0.0

    async def go() -> tuple[bool, str]:
        r = asyncio.StreamReader()
        reqs = [b"\x22\xf1\x90", b"\x3e\x00", b"\x10\x01"]
        r.feed_data(b"".join(q.hex().encode() + b"\n" for q in reqs))
        r.feed_eof()
        w = _W()
        await asyncio.wait_for(Slow().handle_client(r, w), 2)  # type: ignore[arg-type]
        got = [bytes.fromhex(x.decode()) for x in w.data.split(b"\n") if x]
        want = [bytes([q[0] + 0x40]) + q[1:] for q in reqs]
        return got != want, (f"requests {[q.hex() for q in reqs]} in one segment: replies "
                             f"{[g.hex() for g in got]}, expected {[x.hex() for x in want]}")
    return asyncio.run(go())


def native_server_messages() -> tuple[bool, str]:
    """every first byte 0x00..0xFF (and a few lengths): the bytes handed to the ECU model are
    the bytes the tester wrote, one reply per request"""
    import gallia.command  # noqa: F401
    from gallia.services.uds import server as SV
    seen: list[bytes] = []

    class Rec(SV.TCPUDSServerTransport):  # type: ignore[misc]
        def __init__(self) -> None:
            pass

        async def handle_request(self, pdu: bytes) -> tuple[bytes | None, float]:
            seen.append(pdu)
            if len(pdu) == 2 and pdu[1] == 0x80:
                return None, 0.0  # a positive response the tester asked to suppress
            return b"\x7f" + pdu[:1] + b"\x11", 0.0

    async def go() -> tuple[bool, str]:
        reqs = [bytes([b, 0x01]) for b in range(256)] + [bytes([0, 0x10, 1]), b"\x00", b"\x01",
                                                        bytes([0x0a]) * 5, bytes(range(16)),
                                                        b"\x3e\x80", b"\x10\x80"]
        for q in reqs:
            seen.clear()
            r = asyncio.StreamReader()
            r.feed_data(q.hex().encode() + b"\n" + b"3e00\n")
            r.feed_eof()
            w = _W()
            try:
                await asyncio.wait_for(Rec().handle_client(r, w), 2)  # type: ignore[arg-type]
            except Exception as e:  # noqa: BLE001
                return True, f"request {q.hex()}: handle_client raised {type(e).__name__}: {e}"
            n_replies = len([x for x in w.data.split(b"\n") if x])
            want_replies = 1 if (len(q) == 2 and q[1] == 0x80) else 2
            if seen != [q, b"\x3e\x00"] or n_replies != want_replies:
                return True, (f"tester wrote {q.hex()} and 3e00: the ECU model received "
                              f"{[x.hex() for x in seen]}, {n_replies} replies were sent")
        return False, f"{len(reqs)} requests are handed over byte-exact and answered once each (suppressed ones not at all)"
    return asyncio.run(go())


LONG_LINE_SCRIPT = r"""
import asyncio, json, logging, os, sys, tempfile
logging.disable(logging.CRITICAL)
import gallia.command
from gallia.services.uds import server as SV
from gallia.transports.base import TargetURI
from gallia.transports import unix
tmp = tempfile.mkdtemp(prefix="c19_"); path = os.path.join(tmp, "s.sock")
class Echo(SV.UnixUDSServerTransport):
    async def handle_request(self, pdu):
        return bytes([pdu[0] + 0x40]) + len(pdu).to_bytes(2, "big"), 0.0
async def go():
    srv = Echo(None, TargetURI(f"unix-lines://{path}"))
    task = asyncio.ensure_future(srv.run())
    for _ in range(100):
        if os.path.exists(path):
            break
        await asyncio.sleep(0.02)
    res = [False, "requests of 1..4095 bytes are answered"]
    for n in (1, 2048, 2049, 3000, 4095):
        t = await asyncio.wait_for(unix.UnixLinesTransport.connect(TargetURI(f"unix-lines://{path}")), 2)
        await t.write(bytes([0x36]) + bytes(n - 1))
        try:
            got = await asyncio.wait_for(t.read(), 1)
        except Exception as e:
            got = type(e).__name__.encode()
        want = bytes([0x76]) + n.to_bytes(2, "big")
        if got != want:
            res = [True, f"a request of {n} bytes gets {got!r} instead of {want.hex()}"]
            break
    print("RESULT " + json.dumps(res), flush=True)
    import shutil
    shutil.rmtree(tmp, ignore_errors=True)
    os._exit(0)   # asyncio's server shutdown waits for connections the handler never closes
asyncio.run(go())
"""


def native_long_line(which: str) -> tuple[bool, str]:
    """Requests of up to 4095 bytes through a real unix-socket server started with its own
    run() (in a child process: the server's shutdown path is not part of the scenario)."""
    import json
    import subprocess
    import sys
    try:
        p = subprocess.run([sys.executable, "-c", LONG_LINE_SCRIPT], capture_output=True,
                           text=True, timeout=40)
    except subprocess.TimeoutExpired:
        return False, "scenario timed out"
    for line in p.stdout.splitlines():
        if line.startswith("RESULT "):
            bad, msg = json.loads(line[7:])
            return bool(bad), msg
    return False, "scenario produced no result: " + p.stderr[-300:]


def native_segmentation(kind: str) -> tuple[bool, str]:
    """the real read() on a stream that delivers a line in two segments, and two lines in one"""
    import logging
    logging.disable(logging.CRITICAL)
    import gallia.command  # noqa: F401
    tcp, unix = T()
    cls = tcp.TCPLinesTransport if kind == "tcp-lines" else unix.UnixLinesTransport

    class W:
        def write(self, b: bytes) -> None:
            pass

        async def drain(self) -> None:
            pass

        def close(self) -> None:
            pass

        async def wait_closed(self) -> None:
            pass

    async def go() -> tuple[bool, str]:
        from gallia.transports.base import TargetURI
        for m1, m2 in ((bytes(range(1, 9)), b"\x10\x03"), (b"\x00\x01", bytes(40))):
            for cut in (1, 3, len(m1.hex())):
                r = asyncio.StreamReader()
                t = cls.__new__(cls)
                t.reader, t.writer, t.is_closed = r, W(), False
                t.mutex = asyncio.Lock()
                t.target = TargetURI(f"{kind}://127.0.0.1:1")
                line = m1.hex().encode() + b"\n"
                r.feed_data(line[:cut])
                asyncio.get_running_loop().call_later(0.05, r.feed_data, line[cut:] +
                                                      m2.hex().encode() + b"\n")
                got = []
                for _ in range(2):
                    try:
                        got.append(await t.read(timeout=1.0))
                    except Exception as e:  # noqa: BLE001
                        got.append(f"{type(e).__name__}: {e}")
                if got != [m1, m2]:
                    return True, (f"{kind}: line {line!r} delivered as {line[:cut]!r} + rest, "
                                  f"followed by a second line in the same segment: two reads "
                                  f"returned {got}, written were {[m1, m2]}")
        return False, f"{kind}: split and coalesced lines are read back one message per read"
    return asyncio.run(go())


def native_replay(unit: str, obligation: str, model: dict) -> tuple[bool, str]:
    import logging
    logging.disable(logging.CRITICAL)
    import gallia.command  # noqa: F401
    from gallia.services.uds import server as SV
    if "no-loop-that-repeats-without-progress" in obligation:
        from . import c08
        return c08.native_hang(unit.split("/")[0])
    if "timed-out-read" in obligation:
        return native_read_after_timeout()
    if unit.endswith("-lines/read"):
        return native_segmentation(unit.split("/")[0])
    if "answered-before-the-next-line" in obligation or "no-concurrent-reply" in obligation:
        return native_server_order()
    if unit.startswith("stream-limit/"):
        return native_long_line(unit)
    if (unit.startswith("server/") or unit.startswith("transport/handle_client")) and ("handed-over" in obligation or "loop-ends-only" in
                                       obligation or "one-reply" in obligation):
        return native_server_messages()
    if "does-not-raise-when-the-client-disconnects" not in obligation:
        return False, "no native scenario for this obligation"

    async def go() -> tuple[bool, str]:
        r = asyncio.StreamReader()
        r.feed_eof()

        class W:
            def write(self, b: bytes) -> None:
                pass

            async def drain(self) -> None:
                pass
        srv = SV.TCPUDSServerTransport.__new__(SV.TCPUDSServerTransport)
        try:
            await srv.handle_client(r, W())  # type: ignore
            return False, "handle_client returned normally for a client that sent nothing"
        except Exception as e:  # noqa: BLE001
            return True, f"client connects and disconnects without a request: handle_client " \
                         f"raised {type(e).__name__}: {e}"
    return asyncio.run(go())


def native_search(unit: str, obligation: str, seed: int) -> dict | None:
    return {}


TRUSTED = [
    "binascii.hexlify/unhexlify: hexlify(d) has 2*len(d) characters over [0-9a-f], "
    "unhexlify(hexlify(d)) == d; str.strip removes the trailing newline of a hex line",
    "StreamReader.readline: bytes up to and including the first newline of the stream (any "
    "segmentation), the rest at EOF; a cancelled readline consumes nothing",
    "asyncio.wait_for; pyvc VC generator; z3 string theory",
]


def main(tier: str, seed: int, only: str | None = None, jobs: int = 16) -> int:
    chk = Check("C19", "contracts.c19", tier, seed)
    units = build_units(tier)
    if only:
        units = [u for u in units if only in u.uid]
    results = run_units(units, jobs)
    chk.trusted_base = TRUSTED
    chk.assumptions = [
        "kernel/asyncio stream segmentation is exactly what the readline contract abstracts",
        "the peer writes lines produced by the same write() (the property's setting)",
    ]
    return chk.finish(results, native_replay, native_search)
