"""C03 - genuine replies are always accepted, foreign or stale replies always refused.

Function under contract: `helpers.parse_pdu(pdu, request)` - executed from the real AST together
with everything below it (`UDSRequest.parse_dynamic`, `UDSResponse.parse_dynamic`, every
`matches`, the exception constructors).  One verification unit per request class and reply
family (negative / own service / other first byte); the reply bytes are arbitrary.

Spec predicates (from the statement; DESIGN 5/C03), evaluated per path from the request's fields,
the reply bytes and the outcome D of the response parser on those bytes (ghost, recorded by a
transparent wrapper contract around `UDSResponse.parse_dynamic`):
    neg_for      D = typed negative response naming the request's service
    pos_genuine  D = typed positive response of the request's service whose echoed fields equal
                 the request's
    foreign      first byte neither 0x7F nor sid+0x40, or negative response naming another
                 service, or typed positive response of the service whose primary echo differs
    undecodable  not foreign and the parser raised on a reply of the right service
Obligations: returns => not foreign and not undecodable, result.pdu == reply, trigger_request is
the request; RequestResponseMismatch => not genuine and not undecodable; MalformedResponse =>
not genuine and not foreign; anything else => none of the three classes.
Registry: every UDSErrorCodes member has an UnexpectedNegativeResponse subclass.
"""
from __future__ import annotations

import random
import time
from typing import Any

import z3

from pyvc import models
from pyvc.engine import Explorer, Interp, PyExc
from pyvc.runner import Check, Unit, run_units
from pyvc.values import (NONE, Unsupported, V, VBool, VBytes, VConst, VInt, VList, VObj, VTuple,
                         wrap)

from . import codec_spec as cs
from . import iso14229 as iso
from . import utils_contracts as uc
from .c01 import alternatives, py_of, random_arg, request_classes, service_module

# primary echo = fields whose mismatch makes a reply *foreign* (statement: "echoed primary
# identifier"); the full echo list decides *genuine*
TIER = "quick"
PRIMARY = {0x10: 1, 0x11: 1, 0x27: 1, 0x28: 1, 0x85: 1, 0x22: 1, 0x23: 1, 0x2C: 1, 0x2E: 1,
           0x3D: 3, 0x19: 1, 0x2F: 1, 0x31: 2, 0x36: 1}


def helpers_module() -> Any:
    from gallia.services.uds import helpers
    return helpers


def ev(I: Interp, obj: VObj, expr: str) -> Any:
    """Tiny evaluator for the echo table's attribute expressions."""
    if expr.startswith("len(") and expr.endswith(")"):
        v = I.getattr_v(obj, expr[4:-1])
        return models.seq_len(v.t)
    if expr.endswith("[0]"):
        v = I.getattr_v(obj, expr[:-3])
        assert isinstance(v, VList)
        return v.at(z3.IntVal(0)).t
    v = I.getattr_v(obj, expr)
    return models.as_int(I, v)


def echo(I: Interp, sid: int, q: VObj, r: VObj, primary_only: bool) -> Any:
    pairs = iso.ECHO[sid]
    if primary_only:
        pairs = pairs[:PRIMARY.get(sid, len(pairs))]
    cs_ = []
    for qa, ra in pairs:
        cs_.append(ev(I, q, qa) == ev(I, r, ra))
    return z3.And(*cs_) if cs_ else z3.BoolVal(True)


def make_harness(cname: str, cls: type, alts: dict[str, str], family: str):
    S = service_module()
    H = helpers_module()
    from gallia.services.uds.core import exception as E
    spec = iso.REQUESTS[cname]
    sid = spec["sid"]
    params = cs.param_alternatives(cls)

    def harness(I: Interp) -> None:
        args = [cs.make_arg(I, name, alts[name], S) for name, kinds, default in params]
        if cname == "DefineByMemoryAddressRequest":
            # the group width must be concrete for the request re-parse; matching does not
            # depend on it (C01 covers every width)
            args = [VInt(0x22) if n == "address_and_length_format_identifier" else a
                    for (n, _, _), a in zip(params, args)]
        try:
            q = I.call(cls, *args)
            qpdu = I.getattr_v(q, "pdu")
        except PyExc:
            return  # not a request a user can construct and send
        assert isinstance(q, VObj)
        # requests the dynamic request parser does not type are C01 findings; here the
        # statement's finer echo is defined for typed requests only
        p = I.fresh_bytes("reply", inp=True, minlen=1)
        b0 = p.t[0]
        I.assume(z3.And(b0 >= 0, b0 <= 255))
        if family == "negative":
            I.assume(b0 == 0x7F)
        elif family in ("own", "own-raw"):
            I.assume(b0 == sid + 0x40)
            if sid == 0x19:
                # dict-backed DTC lists: bounded to <= 2 records (labelled on the unit)
                I.assume(models.seq_len(p.t) <= (7 if TIER == "quick" else 11))
        else:
            I.assume(z3.And(b0 != 0x7F, b0 != sid + 0x40))
        I.ghost["D"] = None
        q_sent: V = q
        typed_spec = None
        fam = family
        if family == "own-raw":
            # the same bytes sent as a raw request (send_raw, scanners): the statement classifies
            # a reply against the request's *bytes*, so the outcome must be that of the typed
            # request whenever the request parser types these bytes (C01 R-dyn)
            try:
                pre = I.call(S.UDSRequest.parse_dynamic, qpdu)
            except PyExc:
                return
            typed_spec = isinstance(pre, VObj) and pre.cls is cls
            I.ghost["parsed_request"] = None
            q_sent = I.call(S.RawRequest, qpdu)
            fam = "own"
        try:
            r = I.call(H.parse_pdu, p, q_sent)
            outcome = "return"
            exc = None
        except PyExc as e:
            r = None
            exc = e.exc
            outcome = ("mismatch" if issubclass(exc.cls, E.RequestResponseMismatch) else
                       "malformed" if issubclass(exc.cls, E.MalformedResponse) else "other")
        D = I.ghost.get("D")
        preq = I.ghost.get("parsed_request")
        typed_req = isinstance(preq, VObj) and preq.cls is cls
        if typed_spec is not None:
            typed_req = typed_spec
        ln = models.seq_len(p.t)
        # ---- spec classification on this path
        neg_for: Any = z3.BoolVal(False)
        pos_genuine: Any = z3.BoolVal(False)
        foreign: Any = z3.And(b0 != 0x7F, b0 != sid + 0x40)
        if family == "negative":
            foreign = z3.And(ln >= 2, p.t[1] != sid)
            if isinstance(D, VObj) and D.cls is S.NegativeResponse:
                neg_for = I.getattr_v(D, "request_service_id").t == sid
        undecodable = z3.BoolVal(False)
        if D == "exc":
            if fam == "own":
                undecodable = z3.BoolVal(True)
            elif family == "negative":
                undecodable = z3.And(ln >= 2, p.t[1] == sid)
        if fam == "own" and isinstance(D, VObj) and typed_req:
            rs = iso.RESPONSES.get(D.cls.__name__)
            if rs is not None and not rs.get("raw") and not rs.get("negative"):
                pos_genuine = echo(I, sid, q, D, False)
                foreign = z3.Not(echo(I, sid, q, D, True))
        genuine = z3.Or(neg_for, pos_genuine)
        if outcome == "return":
            I.prove("P-return-only-if(not-foreign-not-undecodable)",
                    z3.Not(z3.Or(foreign, undecodable)), f"D={_d(D)}")
            assert isinstance(r, VObj)
            try:
                rp = I.getattr_v(r, "pdu")
                I.prove("P-result-bytes(result.pdu-is-the-reply)", models.bytes_eq(I, rp.t, p.t))
            except PyExc as e:
                I.fail("P-result-bytes(result.pdu-is-the-reply)", e.exc.cls.__name__)
            I.prove("P-trigger(result.trigger_request-is-the-request)",
                    z3.BoolVal(r.fields.get("trigger_request") is q_sent))
            # never an answer of another service
            if not (isinstance(r, VObj) and r.cls is S.NegativeResponse):
                I.prove("P-service(accepted-positive-reply-has-sid+0x40)", b0 == sid + 0x40)
        elif outcome == "mismatch":
            I.prove("P-mismatch-only-if(not-genuine-not-undecodable)",
                    z3.Not(z3.Or(genuine, undecodable)), f"D={_d(D)}")
        elif outcome == "malformed":
            I.prove("P-malformed-only-if(not-genuine-not-foreign)",
                    z3.Not(z3.Or(genuine, foreign)), f"D={_d(D)}")
        else:
            I.prove("P-other-error-only-if(unclassified-reply)",
                    z3.Not(z3.Or(genuine, foreign, undecodable)),
                    f"{exc.cls.__name__} D={_d(D)}")
    return harness


def _d(D: Any) -> str:
    return D.cls.__name__ if isinstance(D, VObj) else str(D)


def install(ex: Explorer) -> None:
    """Transparent wrappers that record the parser outcomes in ghost state."""
    S = service_module()
    uc.install(ex)
    real_resp = S.UDSResponse.__dict__["parse_dynamic"].__func__
    real_req = S.UDSRequest.__dict__["parse_dynamic"].__func__

    def resp_contract(I: Interp, pdu: V) -> V:
        try:
            r = I.exec_function(real_resp, [pdu], {}, S.UDSResponse)
        except PyExc:
            I.ghost["D"] = "exc"
            raise
        I.ghost["D"] = r
        return r

    def req_contract(I: Interp, pdu: V) -> V:
        r = I.exec_function(real_req, [pdu], {}, S.UDSRequest)
        I.ghost["parsed_request"] = r
        return r
    ex.contracts[real_resp] = resp_contract
    ex.contracts[real_req] = req_contract


class ForeignTypedResponse:
    """Stand-in for *any* typed positive response of a service other than the request's.

    What parse_pdu may observe of such an object is fixed by obligations proved elsewhere:
    `matches(request)` is False for a request of another service (units matches/*, below),
    `pdu` is the received byte string (C02 A-exact) and `service_id` is pdu[0] - 0x40
    (C02 A-service)."""

    def __init__(self, pdu: bytes) -> None:
        self._pdu = pdu
        self.trigger_request = None

    @property
    def pdu(self) -> bytes:
        return self._pdu

    @property
    def service_id(self) -> int:
        return self._pdu[0] - 0x40

    def matches(self, request: object) -> bool:
        return False


def install_other(ex: Explorer) -> None:
    """Reply family 'other first byte': the response parser is replaced by its contract."""
    S = service_module()
    install(ex)
    real_resp = S.UDSResponse.__dict__["parse_dynamic"].__func__

    def resp_contract(I: Interp, pdu: V) -> V:
        k = I.choose([z3.BoolVal(True)] * 3)
        if k == 0:
            I.ghost["D"] = "exc"
            I.raise_py(ValueError, "response parser rejects the reply")
        if k == 1:
            r = I.call(S.RawPositiveResponse, pdu)
        else:
            r = I.call(ForeignTypedResponse, pdu)
        I.ghost["D"] = r
        I.ex.assumptions.add("reply family 'other': UDSResponse.parse_dynamic by contract "
                             "(raises | raw response | typed response of another service)")
        return r
    ex.contracts[real_resp] = resp_contract


def matches_foreign_harness(rname: str, rcls: type):
    """C.matches(q) is False for every request q of a service other than C's."""
    S = service_module()

    def harness(I: Interp) -> None:
        resp = VObj(rcls, {}, lazy=True)
        for qname, qcls in request_classes().items():
            if qcls.SERVICE_ID is None or qcls.SERVICE_ID == rcls.SERVICE_ID:
                continue
            q = VObj(qcls, {}, lazy=True)
            try:
                m = I.call_v(I.getattr_v(resp, "matches"), [q], {})
            except PyExc as e:
                I.fail(f"M-foreign({qname})", e.exc.cls.__name__)
                continue
            t = I.truth(m)
            I.prove(f"M-foreign({qname})",
                    z3.Not(t) if not isinstance(t, bool) else z3.BoolVal(not t))
    return harness


def registry_harness(I: Interp) -> None:
    S = service_module()
    from gallia.services.uds.core import exception as E
    from gallia.services.uds.core.constants import UDSErrorCodes
    reg = E.UnexpectedNegativeResponse._CONCRETE_EXCEPTIONS
    for code in UDSErrorCodes:
        ok = code in reg and getattr(reg[code], "RESPONSE_CODE", None) == code
        I.prove(f"X-registry({code.name}-has-its-exception-class)", z3.BoolVal(bool(ok)))
    # parse_dynamic returns the registered class carrying request and response
    q = VObj(S.RawRequest, {"_pdu": I.fresh_bytes("q", minlen=1)})
    for code in list(UDSErrorCodes)[:3]:
        if code not in reg:
            continue
        resp = VObj(S.NegativeResponse, {"request_service_id": I.fresh_int("sid", 0, 255),
                                         "response_code": VInt(int(code), UDSErrorCodes),
                                         "trigger_request": q})
        e = I.call_v(I.getattr_v(VConst(E.UnexpectedNegativeResponse), "parse_dynamic"),
                     [q, resp, NONE], {})
        I.prove(f"X-parse_dynamic({code.name}-yields-its-class-with-request-and-response)",
                z3.BoolVal(isinstance(e, VObj) and e.cls is reg[code]
                           and e.fields.get("request") is q and e.fields.get("response") is resp))


def build_units(tier: str) -> list[Unit]:
    global TIER
    TIER = tier
    units: list[Unit] = [Unit("registry/UnexpectedNegativeResponse", registry_harness)]
    for cname, cls in request_classes().items():
        if cname in iso.INTERNAL_REQUEST_BASES or cname not in iso.REQUESTS:
            continue
        if iso.REQUESTS[cname].get("raw"):
            continue
        alts_all = alternatives(cls)
        # reply matching depends on the request's fields only through its attributes: the
        # int alternative of int|Sequence parameters and a given format identifier suffice,
        # plus the list alternative for ReadDataByIdentifier
        chosen = []
        for a in alts_all:
            if "intlist" in a.values() and cname != "ReadDataByIdentifierRequest":
                continue
            if a.get("address_and_length_format_identifier") == "none":
                continue
            if a.get("memory_size") == "none":
                continue
            if a.get("dtc_mask_record") == "bytes":
                continue
            chosen.append(a)
        for alts in chosen:
            tag = ",".join(f"{k}={v}" for k, v in alts.items())
            for fam in ("negative", "own", "own-raw", "other"):
                units.append(Unit(f"{cname}/{tag}/{fam}", make_harness(cname, cls, alts, fam),
                                  setup=install_other if fam == "other" else install,
                                  bounded="replies 0x59 with <= 1 (quick) / 2 (thorough) DTC records"
                                  if fam in ("own", "own-raw")
                                  and iso.REQUESTS[cname]["sid"] == 0x19 else ""))
    from .c02 import response_classes
    for rname, rcls in response_classes().items():
        if rcls.SERVICE_ID is None or rname in iso.INTERNAL_RESPONSE_BASES \
                or rcls.SERVICE_ID == 0x7F:
            continue
        units.append(Unit(f"matches/{rname}", matches_foreign_harness(rname, rcls)))
    from .c01 import purity_harness
    units.append(Unit("purity/codec-functions", purity_harness))
    units.append(Unit("RawRequest/negative", raw_harness("negative"), setup=install))
    units.append(Unit("RawRequest/positive", raw_harness("positive"), setup=install))
    return units


def raw_harness(family: str):
    """Raw requests whose bytes the request parser does not type: only the service id is
    compared (statement: 'incl. raw requests')."""
    S = service_module()
    H = helpers_module()
    from gallia.services.uds.core import exception as E

    def harness(I: Interp) -> None:
        qb = I.fresh_bytes("request", inp=True, minlen=1)
        sid = qb.t[0]
        I.assume(z3.And(sid >= 0, sid <= 255))
        # a service the registry does not know: parse_dynamic keeps the request raw
        known = sorted(int(k) for k in S.UDSService._SERVICES if k is not None)
        I.assume(z3.And(*[sid != k for k in known]))
        q = I.call(S.RawRequest, qb)
        p = I.fresh_bytes("reply", inp=True, minlen=1)
        b0 = p.t[0]
        I.assume(z3.And(b0 >= 0, b0 <= 255))
        I.assume(b0 == 0x7F if family == "negative" else b0 != 0x7F)
        I.assume(z3.Implies(b0 == 0x59, models.seq_len(p.t) <= (7 if TIER == "quick" else 11)))
        I.ghost["D"] = None
        ln = models.seq_len(p.t)
        try:
            r = I.call(H.parse_pdu, p, q)
            outcome, exc = "return", None
        except PyExc as e:
            exc = e.exc
            outcome = ("mismatch" if issubclass(exc.cls, E.RequestResponseMismatch) else
                       "malformed" if issubclass(exc.cls, E.MalformedResponse) else "other")
        D = I.ghost.get("D")
        if family == "negative":
            foreign = z3.And(ln >= 2, p.t[1] != sid)
            neg_for = z3.BoolVal(False)
            if isinstance(D, VObj) and D.cls is S.NegativeResponse:
                neg_for = I.getattr_v(D, "request_service_id").t == sid
            undecodable = z3.And(ln >= 2, p.t[1] == sid) if D == "exc" else z3.BoolVal(False)
            genuine = neg_for
        else:
            foreign = b0 != sid + 0x40
            undecodable = z3.BoolVal(D == "exc") if True else None
            undecodable = z3.And(undecodable, b0 == sid + 0x40)
            genuine = z3.And(b0 == sid + 0x40, z3.BoolVal(isinstance(D, VObj)))
        if outcome == "return":
            I.prove("P-return-only-if(not-foreign-not-undecodable)",
                    z3.Not(z3.Or(foreign, undecodable)), f"D={_d(D)}")
        elif outcome == "mismatch":
            I.prove("P-mismatch-only-if(not-genuine-not-undecodable)",
                    z3.Not(z3.Or(genuine, undecodable)), f"D={_d(D)}")
        elif outcome == "malformed":
            I.prove("P-malformed-only-if(not-genuine-not-foreign)",
                    z3.Not(z3.Or(genuine, foreign)), f"D={_d(D)}")
        else:
            I.prove("P-other-error-only-if(unclassified-reply)",
                    z3.Not(z3.Or(genuine, foreign, undecodable)), f"{exc.cls.__name__}")
    return harness


# --------------------------------------------------------------------------- native side
def native_classify(q: Any, reply: bytes) -> tuple[str, dict[str, bool]]:
    """(outcome of the real parse_pdu, spec classification) for concrete inputs."""
    S = service_module()
    H = helpers_module()
    from gallia.services.uds.core import exception as E
    try:
        H.parse_pdu(reply, q)
        outcome = "return"
    except E.RequestResponseMismatch:
        outcome = "mismatch"
    except E.MalformedResponse:
        outcome = "malformed"
    except Exception as e:  # noqa: BLE001
        outcome = "other:" + type(e).__name__
    sid = q.service_id
    try:
        D: Any = S.UDSResponse.parse_dynamic(reply)
    except Exception:  # noqa: BLE001
        D = "exc"
    b0 = reply[0]
    neg_for = pos_genuine = False
    if b0 == 0x7F:
        foreign = len(reply) >= 2 and reply[1] != sid
        if isinstance(D, S.NegativeResponse):
            neg_for = D.request_service_id == sid
        undec = D == "exc" and len(reply) >= 2 and reply[1] == sid
    elif b0 == sid + 0x40:
        foreign = False
        undec = D == "exc"
        pq = S.UDSRequest.parse_dynamic(q.pdu)
        if D != "exc" and not isinstance(D, (S.RawPositiveResponse,)) and not isinstance(
                pq, S.RawRequest) and sid in iso.ECHO:
            def val(o: Any, ex_: str) -> Any:
                if ex_.startswith("len("):
                    return len(getattr(o, ex_[4:-1]))
                if ex_.endswith("[0]"):
                    return getattr(o, ex_[:-3])[0]
                return int(getattr(o, ex_))
            pairs = iso.ECHO[sid]
            try:
                eq = [val(q, a) == val(D, b) for a, b in pairs]
            except Exception:  # noqa: BLE001
                eq = [False]
            pos_genuine = all(eq)
            foreign = not all(eq[:PRIMARY.get(sid, len(eq))])
        elif isinstance(pq, S.RawRequest) and D != "exc":
            pos_genuine = True
    else:
        foreign, undec = True, False
    return outcome, {"genuine": neg_for or pos_genuine, "foreign": foreign, "undecodable": undec}


def native_violation(outcome: str, c: dict[str, bool]) -> bool:
    if outcome == "return":
        return c["foreign"] or c["undecodable"]
    if outcome == "mismatch":
        return c["genuine"] or c["undecodable"]
    if outcome == "malformed":
        return c["genuine"] or c["foreign"]
    return c["genuine"] or c["foreign"] or c["undecodable"]


def build_request(unit: str, model: dict) -> Any:
    S = service_module()
    cname = unit.split("/")[0]
    if cname == "RawRequest":
        return S.RawRequest(py_of(model.get("request")))
    cls = getattr(S, cname)
    alts = dict(x.split("=") for x in unit.split("/")[1].split(","))
    params = cs.param_alternatives(cls)
    pyargs = [None if alts[n] == "none" else py_of(model.get(n)) for n, _, _ in params]
    if unit.endswith("/own-raw"):
        return S.RawRequest(cls(*pyargs).pdu)
    return cls(*pyargs)


def native_replay(unit: str, obligation: str, model: dict) -> tuple[bool, str]:
    if unit.startswith("purity/"):
        from .c01 import native_order_dependence
        return native_order_dependence()
    if unit.startswith("registry/"):
        from gallia.services.uds.core import exception as E
        from gallia.services.uds.core.constants import UDSErrorCodes
        reg = E.UnexpectedNegativeResponse._CONCRETE_EXCEPTIONS
        missing = [c.name for c in UDSErrorCodes if c not in reg]
        return bool(missing), f"UDSErrorCodes without UnexpectedNegativeResponse subclass: {missing}"
    try:
        q = build_request(unit, model)
    except Exception as e:  # noqa: BLE001
        return False, f"request not constructible: {e}"
    reply = py_of(model.get("reply"))
    if not isinstance(reply, bytes) or not reply:
        return False, "no concrete reply"
    outcome, c = native_classify(q, reply)
    bad = native_violation(outcome, c)
    return bad, (f"parse_pdu({reply.hex()}, {q!r}) -> {outcome}; the reply is "
                 f"{'genuine ' if c['genuine'] else ''}{'foreign ' if c['foreign'] else ''}"
                 f"{'undecodable-own ' if c['undecodable'] else ''}"
                 f"{'(unclassified)' if not any(c.values()) else ''}")


def native_search(unit: str, obligation: str, seed: int) -> dict | None:
    S = service_module()
    rnd = random.Random(seed + 13)
    if unit.startswith("registry/") or unit.startswith("purity/"):
        return {}
    cname = unit.split("/")[0]
    fam = unit.split("/")[-1]
    t_end = time.time() + 6
    want = {"P-return": "return", "P-mismatch": "mismatch", "P-malformed": "malformed",
            "P-other": "other"}
    for _ in range(20000):
        if time.time() > t_end:
            break
        try:
            if cname == "RawRequest":
                model: dict = {"request": {"bytes": bytes([rnd.choice([0x01, 0x29, 0x83, 0xBA]),
                                                         rnd.randrange(256)]).hex()}}
            else:
                cls = getattr(S, cname)
                alts = dict(x.split("=") for x in unit.split("/")[1].split(","))
                model = {}
                for n, _, _ in cs.param_alternatives(cls):
                    a = random_arg(rnd, alts[n])
                    model[n] = {"bytes": a.hex()} if isinstance(a, bytes) else a
            q = build_request(unit, model)
            sid = q.service_id
        except Exception:  # noqa: BLE001
            continue
        n = rnd.choice([1, 2, 3, 3, 4, 5, 6, 8])
        b = bytearray(rnd.choice([0, 1, sid, sid + 0x40 & 0xFF, 0x7F, 0x10, 0x11, 0x22, 0x31,
                                  rnd.randrange(256)]) for _ in range(n))
        b[0] = 0x7F if fam == "negative" else (sid + 0x40) & 0xFF if fam in (
            "own", "own-raw") else b[0]
        if len(b) > 1 and rnd.random() < 0.6:
            b[1] = sid if fam == "negative" else b[1]
        outcome, c = native_classify(q, bytes(b))
        if native_violation(outcome, c):
            k = next((v for p, v in want.items() if obligation.startswith(p)), None)
            if k is None or outcome.startswith(k):
                model["reply"] = {"bytes": bytes(b).hex()}
                return model
    return None


TRUSTED = [
    "pyvc VC generator (symbolic execution of the real AST)",
    "z3 5.1.0 (API); z3 4.8.12 / cvc5 1.0.3 CLI for queries z3 leaves open",
    "CPython semantics as modelled in pyvc/models.py (Enum lookup, dict lookup, isinstance, "
    "slicing, struct.pack)",
    "echo table contracts/iso14229.py::ECHO (from the statement of C03 and ISO 14229-1)",
]


def main(tier: str, seed: int, only: str | None = None, jobs: int = 16) -> int:
    chk = Check("C03", "contracts.c03", tier, seed)
    units = build_units(tier)
    if only:
        units = [u for u in units if only in u.uid]
    results = run_units(units, jobs)
    chk.trusted_base = TRUSTED
    chk.assumptions = [
        "'decodable' is what the response parser accepts (its own contract is C02)",
        "for int|Sequence parameters the int alternative is used (ReadDataByIdentifier: both); "
        "format identifiers are given explicitly (the computed one is C01's E-minimal)",
        "raw requests: service ids unknown to the registry (typed raw bytes behave as the typed "
        "request units)",
    ]
    return chk.finish(results, native_replay, native_search)
