"""C20 - target URIs and range expressions denote exactly what the user wrote.

Proved (string terms, z3 seq/string theory):
    net.join_host_port          result == "[h]:p" if ":" in h else "h:p"   (statement / RFC 3986)
    TargetURI.from_parts        the 6-tuple handed to urlunparse is (scheme, netloc, "", "", q, "")
                                with netloc = host | join_host_port(host, port), q = urlencode(args)
    TargetURI.qs_flat           first value per key (dicts with <= 3 keys: bounded, labelled)
    utils.auto_int              == int(arg, 0)
Bounded stand-in (labelled, not counted as proved): utils.unravel / unravel_2d are run natively on
every expression of the range grammar up to a stated size against an independent denotational
semantics written from the statement (sorted union of numbers and inclusive ranges; bare outer key
= all).  urllib.parse, ipaddress and pydantic are trusted behind their contracts.
"""
from __future__ import annotations

import itertools
from typing import Any

import z3

from pyvc import models
from pyvc.engine import Explorer, Interp, PyExc
from pyvc.runner import Check, Unit, run_units
from pyvc.values import NONE, V, VBool, VConst, VDict, VInt, VList, VObj, VStr, VTuple, wrap


def join_harness(I: Interp) -> None:
    from gallia import net
    host = VStr(t=z3.String("host"))
    port = I.fresh_int("port", 0, 65535, inp=True)
    I.inputs["host"] = host
    r = I.call(net.join_host_port, host, port)
    assert isinstance(r, VStr)
    h, p = host.t, z3.IntToStr(port.t)
    spec = z3.If(z3.Contains(h, z3.StringVal(":")),
                 z3.Concat(z3.StringVal("["), h, z3.StringVal("]:"), p),
                 z3.Concat(h, z3.StringVal(":"), p))
    I.prove("J-join_host_port(bracketed-iff-colon-in-host)", models.str_term(r) == spec)
    # lossless: the port is the decimal number after the last ':' of the result
    I.prove("J-port-suffix", z3.SuffixOf(z3.Concat(z3.StringVal(":"), p), models.str_term(r)))


def split_harness(I: Interp) -> None:
    """`net.split_host_port` over the contracts of ipaddress.ip_address (returns for an address
    literal, ValueError otherwise) and urlparse("//" + s) (hostname, netloc, port: int | None):
    the port of the string is returned whenever there is one - port 0 included -, the default only
    when there is none."""
    import ipaddress
    import urllib.parse as up
    from gallia import net
    hp = VStr(t=z3.String("hostport"))
    I.inputs["hostport"] = hp
    default: V = NONE if I.choose([z3.BoolVal(True)] * 2) == 0 else \
        I.fresh_int("default_port", 0, 65535, inp=True)
    is_ip = I.choose([z3.BoolVal(True)] * 2) == 1
    canon = VStr(t=z3.String("canonical_ip"))
    I.assume(z3.Length(canon.t) > 0)

    def c_ip(I2: Interp, a: list[V], k: dict[str, V]) -> V:
        if not is_ip:
            I2.raise_py(ValueError, "does not appear to be an IPv4 or IPv6 address")
        return VObj(object, {}, lazy=True, tag="ipaddr")
    models.MODELS[ipaddress.ip_address] = c_ip
    orig_str = models.MODELS[str]
    models.MODELS[str] = lambda I2, a, k: canon if (
        a and isinstance(a[0], VObj) and a[0].tag == "ipaddr") else orig_str(I2, a, k)
    has_port = I.choose([z3.BoolVal(True)] * 2) == 1
    uport: V = I.fresh_int("port_in_string", 0, 65535, inp=True) if has_port else NONE
    uhost = VStr(t=z3.String("hostname_in_string"))
    I.assume(z3.Length(uhost.t) > 0)
    models.MODELS[up.urlparse] = lambda I2, a, k: VObj(
        up.ParseResult, {"hostname": uhost, "netloc": hp, "port": uport}, lazy=True)
    try:
        r = I.call(net.split_host_port, hp, default)
    except PyExc as e:
        I.fail("S-split_host_port-does-not-raise", e.exc.cls.__name__)
        return
    finally:
        models.MODELS[str] = orig_str
    host, port = r.items
    if is_ip:
        I.prove("S-address-literal-has-no-port(default-applies)",
                z3.BoolVal(port is default) if not isinstance(port, VInt) or not isinstance(
                    default, VInt) else port.t == default.t)
        return
    I.prove("S-host-is-the-hostname-of-the-string", models.str_term(host) == uhost.t)
    if has_port:
        I.prove("S-port-of-the-string-is-returned(0-included)",
                port.t == uport.t if isinstance(port, VInt) else z3.BoolVal(False),
                "port 0 is falsy")
    else:
        I.prove("S-default-port-only-when-the-string-has-none",
                z3.BoolVal(port is default) if not isinstance(port, VInt) or not isinstance(
                    default, VInt) else port.t == default.t)


def install(ex: Explorer) -> None:
    import urllib.parse as up

    def c_urlunparse(I: Interp, args: list[V], kwargs: dict[str, V]) -> V:
        I.ghost["urlunparse"] = args[0]
        return VStr(t=z3.String(I.fresh_name("raw_uri")))

    def c_urlencode(I: Interp, args: list[V], kwargs: dict[str, V]) -> V:
        I.ghost["urlencode"] = args[0]
        r = VStr(t=z3.String(I.fresh_name("query")))
        I.ghost["urlencode_result"] = r
        return r

    def c_urlparse(I: Interp, args: list[V], kwargs: dict[str, V]) -> V:
        return VObj(up.ParseResult, {"query": VStr(t=z3.String(I.fresh_name("q")))}, lazy=True)

    def c_parse_qs(I: Interp, args: list[V], kwargs: dict[str, V]) -> V:
        return VDict([])
    models.MODELS[up.urlunparse] = c_urlunparse
    models.MODELS[up.urlencode] = c_urlencode
    models.MODELS[up.urlparse] = c_urlparse
    models.MODELS[up.parse_qs] = c_parse_qs


def from_parts_harness(with_port: bool):
    def harness(I: Interp) -> None:
        from gallia.transports.base import TargetURI
        from gallia import net
        scheme = VStr(t=z3.String("scheme"))
        host = VStr(t=z3.String("host"))
        port: V = I.fresh_int("port", 0, 65535, inp=True) if with_port else NONE
        args = VDict([(VStr("k"), VStr(t=z3.String("v")))])
        I.inputs["host"] = host
        t = I.call_v(I.getattr_v(VConst(TargetURI), "from_parts"), [scheme, host, port, args], {})
        tup = I.ghost.get("urlunparse")
        ok = isinstance(tup, VTuple) and len(tup.items) == 6
        I.prove("U-urlunparse-gets-a-6-tuple", z3.BoolVal(ok))
        if not ok:
            return
        sc, netloc, path, params, query, frag = tup.items
        I.prove("U-scheme", models.str_term(sc) == scheme.t)
        # RFC 3986: an IPv6 literal in the authority is bracketed, with or without a port
        # (statement: the URI parses back to the same host and port)
        h = host.t
        colon = z3.Contains(h, z3.StringVal(":"))
        if with_port:
            p = z3.IntToStr(port.t)
            spec = z3.If(colon, z3.Concat(z3.StringVal("["), h, z3.StringVal("]:"), p),
                         z3.Concat(h, z3.StringVal(":"), p))
            I.prove("U-netloc(host-and-port,bracketed-iff-colon-in-host)",
                    models.str_term(netloc) == spec)
        else:
            spec = z3.If(colon, z3.Concat(z3.StringVal("["), h, z3.StringVal("]")), h)
            I.prove("U-netloc(host-only,bracketed-iff-colon-in-host)",
                    models.str_term(netloc) == spec)
        I.prove("U-path-params-fragment-empty",
                z3.BoolVal(all(isinstance(x, VStr) and x.s == "" for x in (path, params, frag))))
        I.prove("U-query-is-urlencode(args)",
                z3.BoolVal(query is I.ghost.get("urlencode_result")
                           and I.ghost.get("urlencode") is args))
        I.prove("U-raw-is-the-unparsed-uri", z3.BoolVal(isinstance(t, VObj)
                                                       and "raw" in t.fields))
    return harness


def qs_flat_harness(k: int):
    def harness(I: Interp) -> None:
        from gallia.transports.base import TargetURI
        keys = [VStr(f"key{i}") for i in range(k)]
        firsts = [VStr(t=z3.String(f"first{i}")) for i in range(k)]
        qs = VDict([(keys[i], VList([firsts[i], VStr(t=z3.String(f"second{i}"))]))
                    for i in range(k)])
        t = VObj(TargetURI, {"qs": qs})
        d = I.getattr_v(t, "qs_flat")
        ok = isinstance(d, VDict) and len(d.items) == k and all(
            d.items[i][0].s == keys[i].s and d.items[i][1] is firsts[i] for i in range(k))
        I.prove(f"Q-qs_flat-first-value-per-key({k}-keys)", z3.BoolVal(ok))
    return harness


def auto_int_harness(I: Interp) -> None:
    from gallia import utils
    for text in ("0x10", "16", "0o20", "0b10000", "0", "-3", "0X1f"):
        r = I.call(utils.auto_int, VStr(text))
        I.prove(f"A-auto_int({text})", r.t == int(text, 0))
    for bad in ("", "1 2", "0x", "abc", "08"):
        try:
            I.call(utils.auto_int, VStr(bad))
            I.fail(f"A-auto_int-rejects({bad!r})")
        except PyExc as e:
            I.prove(f"A-auto_int-rejects({bad!r})", z3.BoolVal(issubclass(e.exc.cls, ValueError)))


# --------------------------------------------------------------------------- bounded stand-in
def denote_1d(expr: list[tuple[int, int | None]]) -> list[int]:
    s: set[int] = set()
    for a, b in expr:
        if b is None:
            s.add(a)
        else:
            s.update(range(a, b + 1))
    return sorted(s)


def spell(n: int, style: int) -> str:
    return [str(n), hex(n), oct(n), bin(n)][style % 4]


def ranges_standin(tier: str, seed: int) -> dict:
    """All 1-d expressions with <= 3 elements over the values {0,1,2,5,16} (singletons and ranges
    incl. reversed and single-element ones, four spellings) and all 2-d expressions with <= 2
    outer elements built from them; compared with the denotational semantics above."""
    from gallia import utils
    vals = [0, 1, 2, 5, 16]
    elems: list[tuple[int, int | None]] = [(a, None) for a in vals] + \
        [(a, b) for a in vals for b in vals]
    n = 0
    bad: list[str] = []
    maxlen = 2 if tier == "quick" else 3
    exprs_1d = []
    for k in range(1, maxlen + 1):
        for combo in itertools.product(elems, repeat=k):
            exprs_1d.append(list(combo))
    for i, ex_ in enumerate(exprs_1d):
        text = ",".join(spell(a, i + j) if b is None else f"{spell(a, i + j)}-{spell(b, i)}"
                        for j, (a, b) in enumerate(ex_))
        n += 1
        try:
            got = utils.unravel(text)
        except Exception as e:  # noqa: BLE001
            bad.append(f"unravel({text!r}) raised {type(e).__name__}: {e}")
            continue
        if got != denote_1d(ex_):
            bad.append(f"unravel({text!r}) == {got}, denotes {denote_1d(ex_)}")
    for ws in ("", " ", "  "):
        n += 1
        if utils.unravel(ws) != []:
            bad.append(f"unravel({ws!r}) != []")
    # two-dimensional
    small = [e for e in exprs_1d if len(e) <= 1][:12]
    outer_opts = [(o, i) for o in small for i in small + [None]]
    for k in range(1, 3):
        for combo in itertools.product(outer_opts[:: 7 if tier == "quick" else 3], repeat=k):
            text = " ".join(
                ",".join(str(a) if b is None else f"{a}-{b}" for a, b in o) +
                ("" if i is None else ":" + ",".join(str(a) if b is None else f"{a}-{b}"
                                                     for a, b in i))
                for o, i in combo)
            want: dict[int, set[int] | None] = {}
            for o, i in combo:
                for x in denote_1d(o):
                    if i is None:
                        want[x] = None
                    elif x not in want:
                        want[x] = set(denote_1d(i))
                    elif want[x] is not None:
                        want[x] |= set(denote_1d(i))  # type: ignore[operator]
            exp = {x: (None if want[x] is None else sorted(want[x])) for x in sorted(want)}
            n += 1
            try:
                got2 = utils.unravel_2d(text)
            except Exception as e:  # noqa: BLE001
                bad.append(f"unravel_2d({text!r}) raised {type(e).__name__}: {e}")
                continue
            if got2 != exp or list(got2) != list(exp):
                bad.append(f"unravel_2d({text!r}) == {got2}, denotes {exp}")
    return {"evaluations": n, "violations": bad[:20], "n_bad": len(bad)}


def standin_unit(tier: str, seed: int):
    def harness(I: Interp) -> None:
        r = ranges_standin(tier, seed)
        I.ghost["standin"] = r
        I.ex.extra.update({"evaluations": r["evaluations"],
                           "distinct_nontrivial": r["evaluations"], "exhaustive": True,
                           "samples": r["violations"][:2] or ["0x10-0x2f,0x3e", "1-3:5 2"],
                           "rule": "one case = one range expression of the stated grammar "
                                   "(enumerated completely up to the stated size), compared with "
                                   "its denotation; expressions are distinct by construction"})
        I.prove("B-ranges-agree-with-their-denotation(bounded-standin)",
                z3.BoolVal(r["n_bad"] == 0),
                "; ".join(r["violations"][:3]) or f"{r['evaluations']} expressions")
    return harness


def validator_harness(which: str, shape: str):
    """The option layer above unravel/unravel_2d (`Ranges`, `Ranges2D` before-validators): what
    the user wrote as several command-line words denotes what the *joined* expression denotes -
    the validator hands exactly one string to the range parser (all words, in order, joined by
    the separator) and returns its result unchanged; a dict / non-string value passes through."""
    def harness(I: Interp) -> None:
        import typing
        import gallia.command  # noqa: F401
        from gallia import utils
        from gallia.command import config as C
        ann = getattr(C, which)
        f = typing.get_args(ann)[1].func
        parser = utils.unravel_2d if which == "Ranges2D" else utils.unravel
        sep = " " if which == "Ranges2D" else ","
        calls: list[V] = []
        results: list[V] = []

        def model(I2: Interp, a: list[V], k: dict[str, V]) -> V:
            calls.append(a[0])
            if shape not in ("dict", "str"):
                # checked at the call: what the code does with a partial result afterwards
                # need not be within the subset
                parts = [z3.String(f"x{i}") for i in range(int(shape))]
                want = parts[0]
                for p_ in parts[1:]:
                    want = z3.Concat(want, z3.StringVal(sep), p_)
                got = a[0]
                ok = I2.prove("W-all-words-in-order-joined-are-parsed-as-one-expression",
                              models.str_term(got) == want if isinstance(got, VStr)
                              and (got.t is not None or got.s is not None) else z3.BoolVal(False))
                if not ok or len(calls) > 1:
                    if len(calls) > 1:
                        I2.fail("W-the-range-parser-is-called-exactly-once")
                    from pyvc.engine import PathAbort
                    raise PathAbort()
            r = VObj(object, {}, tag=f"denotation-{len(calls)}")
            results.append(r)
            return r
        models.MODELS[utils.unravel_2d] = model if which == "Ranges2D" else models.MODELS.get(
            utils.unravel_2d)
        models.MODELS[parser] = model
        if shape == "dict":
            arg: V = VDict([(VInt(1), NONE)])
        elif shape == "str":
            arg = VStr(t=z3.String("x"))
        else:
            arg = VList([VStr(t=z3.String(f"x{i}")) for i in range(int(shape))])
        try:
            r = I.call(f, arg)
        except PyExc as e:
            I.fail("W-validator-does-not-raise-for-well-formed-words", e.exc.cls.__name__)
            return
        if shape == "dict":
            I.prove("W-a-dict-passes-through-unchanged", z3.BoolVal(r is arg and not calls))
            return
        I.prove("W-the-range-parser-is-called-exactly-once", z3.BoolVal(len(calls) == 1))
        if len(calls) != 1:
            return
        got = calls[0]
        if shape == "str":
            if which == "Ranges2D":
                I.prove("W-the-string-is-parsed-as-written",
                        models.str_term(got) == z3.String("x") if isinstance(got, VStr)
                        else z3.BoolVal(False))
        I.prove("W-the-parser's-result-is-returned-unchanged", z3.BoolVal(r is results[0]))
    return harness


def config_types_harness(I: Interp) -> None:
    """Transport parameters of a target URI are kept as written: no parameter field of a
    transport configuration class is declared with a type that maps unknown values to another
    value (an Enum with a `_missing_` hook coerces e.g. activation_type=0x42 to 0xFF)."""
    import enum
    import importlib
    import pkgutil
    import typing
    import gallia.command  # noqa: F401
    import gallia.transports as TP
    from pydantic import BaseModel
    n = 0
    for mi in pkgutil.iter_modules(TP.__path__):
        try:
            mod = importlib.import_module(f"gallia.transports.{mi.name}")
        except Exception:  # noqa: BLE001  (platform-specific transports)
            continue
        for name, cls in vars(mod).items():
            if not (isinstance(cls, type) and issubclass(cls, BaseModel) and cls is not BaseModel
                    and cls.__module__ == mod.__name__):
                continue
            for fname, fi in cls.model_fields.items():
                def lossy(t: Any) -> list[str]:
                    out: list[str] = []
                    if isinstance(t, type) and issubclass(t, enum.Enum) and \
                            "_missing_" in {k for b in t.__mro__ if b not in (
                                enum.Enum, enum.IntEnum, enum.Flag, enum.IntFlag, object, int)
                                for k in vars(b)}:
                        out.append(t.__name__)
                    for a in typing.get_args(t):
                        out += lossy(a)
                    return out
                bad = lossy(fi.annotation)
                n += 1
                I.prove(f"Y-{name}.{fname}:declared-type-keeps-the-value-the-user-wrote",
                        z3.BoolVal(not bad), f"coercing enum(s): {bad}")
    I.prove("Y-transport-configuration-fields-found", z3.BoolVal(n >= 8), str(n))


def native_validators() -> tuple[bool, str]:
    import typing
    import gallia.command  # noqa: F401
    from gallia import utils
    from gallia.command import config as C
    f2 = typing.get_args(C.Ranges2D)[1].func
    f1 = typing.get_args(C.Ranges)[1].func
    words2 = [["1:1-3", "1:7"], ["2", "2:1,2"], ["2:1,2", "2"], ["1-2:5", "2:6", "3"],
              ["0x01:0x10-0x12", "0x01:0x3e"]]
    for w in words2:
        got, want = f2(list(w)), utils.unravel_2d(" ".join(w))
        if got != want or list(got) != list(want):
            return True, f"Ranges2D{w} == {got}; the expression {' '.join(w)!r} denotes {want}"
    for w in [["1-3", "7"], ["5", "1-2", "5"], ["0x10-0x12", "3"]]:
        got1, want1 = f1(list(w)), utils.unravel(",".join(w))
        if got1 != want1:
            return True, f"Ranges{w} == {got1}; the expression denotes {want1}"
    return False, "validators agree with the joined expression on the sampled word lists"


def native_config_types() -> tuple[bool, str]:
    import gallia.command  # noqa: F401
    from gallia.transports.base import TargetURI
    from gallia.transports.doip import DoIPConfig
    from gallia.transports.hsfz import HSFZConfig
    for cls, uri in ((DoIPConfig, "doip://127.0.0.1:13400?src_addr=0x0e00&target_addr=0x1d&"
                                  "activation_type={v}&protocol_version=3"),
                     (HSFZConfig, "hsfz://127.0.0.1:6801?src_addr={v}&dst_addr=0x10&"
                                  "ack_timeout=1000")):
        for v in (0x00, 0x01, 0x02, 0x42, 0x7F, 0xE0, 0xE5, 0xF3):
            t = TargetURI(uri.format(v=hex(v)))
            cfg = cls(**t.qs_flat)
            for k, raw in t.qs_flat.items():
                got = getattr(cfg, k)
                if isinstance(got, int) and int(got) != int(raw, 0):
                    return True, (f"{t.raw}: parameter {k}={raw} is configured as "
                                  f"{int(got):#x}")
    return False, "parameters of the sampled URIs are kept"



def build_units(tier: str, seed: int = 0) -> list[Unit]:
    units = [Unit("net/join_host_port", join_harness), Unit("net/split_host_port", split_harness),
             Unit("TargetURI/from_parts/with-port", from_parts_harness(True), setup=install),
             Unit("TargetURI/from_parts/without-port", from_parts_harness(False), setup=install),
             Unit("utils/auto_int", auto_int_harness)]
    for k in range(0, 4):
        units.append(Unit(f"TargetURI/qs_flat/keys={k}", qs_flat_harness(k),
                          bounded="query strings with <= 3 distinct keys"))
    for which in ("Ranges2D", "Ranges"):
        for shape in ("1", "2", "3", "str", "dict"):
            if which == "Ranges" and shape == "str":
                continue  # value.split() of an arbitrary string: left to the stand-in
            units.append(Unit(f"ranges/option-validator/{which}/{shape}",
                              validator_harness(which, shape),
                              bounded="" if shape in ("str", "dict") else
                              "argument lists of 1, 2 and 3 words"))
    units.append(Unit("config/transport-parameter-types", config_types_harness))
    units.append(Unit("ranges/bounded-standin", standin_unit(tier, seed),
                      bounded="range grammar: <= 2 (quick) / 3 (thorough) elements over 5 values, "
                              "4 spellings; 2-d: <= 2 outer elements"))
    return units


def native_roundtrip() -> tuple[bool, str]:
    """join/split and from_parts/parse round trips over hosts x ports (0 and none included)."""
    import gallia.command  # noqa: F401
    from gallia import net
    from gallia.transports.base import TargetURI
    hosts = ["example.org", "127.0.0.1", "::1", "fe80::1", "2001:db8::8a2e:370:7334"]
    for host in hosts:
        for port in (0, 1, 80, 13400, 65535):
            got = net.split_host_port(net.join_host_port(host, port))
            if got != (host, port):
                return True, (f"split_host_port(join_host_port({host!r}, {port})) == {got}")
        for port in (None, 0, 6801):
            try:
                u = TargetURI.from_parts("tcp-lines", host, port, {"k": "v"})
                back = (u.hostname, u.port)
            except Exception as e:  # noqa: BLE001
                return True, (f"TargetURI.from_parts('tcp-lines', {host!r}, {port}, ...) gives "
                              f"{u.raw!r}, which does not parse back: {type(e).__name__}: {e}")
            if back != (host, port):
                return True, (f"TargetURI.from_parts('tcp-lines', {host!r}, {port}, ...) == "
                              f"{u.raw!r} parses back to {back}")
    u = TargetURI.from_parts("isotp", "vcan0", None, {"tx_padding": 0, "is_fd": False, "n": 7})
    flat = u.qs_flat
    if flat != {"tx_padding": "0", "is_fd": "False", "n": "7"}:
        return True, (f"TargetURI.from_parts(..., {{'tx_padding': 0, 'is_fd': False, 'n': 7}}) == "
                      f"{u.raw!r}: parameters parse back as {flat}")
    return False, "hosts x ports x parameters round trip"


def native_replay(unit: str, obligation: str, model: dict) -> tuple[bool, str]:
    from gallia import net
    if unit == "net/split_host_port" or unit.startswith("TargetURI/from_parts"):
        return native_roundtrip()
    if unit.startswith("net/") or unit.startswith("TargetURI/from_parts"):
        for host in ("::1", "fe80::1", "example.org", "127.0.0.1"):
            for port in (0, 80, 13400, 65535):
                want = f"[{host}]:{port}" if ":" in host else f"{host}:{port}"
                got = net.join_host_port(host, port)
                if got != want:
                    return True, f"join_host_port({host!r}, {port}) == {got!r}, expected {want!r}"
        return False, "join_host_port agrees with the spec on the sampled hosts"
    if unit.startswith("config/"):
        return native_config_types()
    if unit.startswith("ranges/option-validator/"):
        return native_validators()
    if unit.startswith("ranges/"):
        r = ranges_standin("quick", 0)
        return r["n_bad"] > 0, "; ".join(r["violations"][:5]) or "no disagreement"
    return False, "no native replay"


def native_search(unit: str, obligation: str, seed: int) -> dict | None:
    return {}


TRUSTED = [
    "pyvc VC generator; z3 5.1.0 string theory (str.++, str.contains, int.to.str)",
    "urllib.parse.urlunparse/urlencode/urlparse/parse_qs, ipaddress, pydantic validators "
    "(behind contracts: only what gallia hands to them is checked)",
    "int(s, 0) accepts decimal, 0x, 0o, 0b spellings (CPython)",
]


def main(tier: str, seed: int, only: str | None = None, jobs: int = 16) -> int:
    chk = Check("C20", "contracts.c20", tier, seed)
    units = build_units(tier, seed)
    if only:
        units = [u for u in units if only in u.uid]
    results = run_units(units, jobs)
    chk.trusted_base = TRUSTED
    chk.assumptions = [
        "ports are in 0..65535 (str(port) is the decimal numeral)",
        "split direction (urlparse, ipaddress) is trusted; only the join direction and the "
        "composition in from_parts are proved",
        "unravel/unravel_2d: bounded stand-in by exhaustive enumeration of a stated grammar "
        "fragment against an independent denotational semantics - not counted as proved",
    ]
    return chk.finish(results, native_replay, native_search)
