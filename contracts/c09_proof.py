"""C09 - deductive part: contracts on the real `SessionsScanner` methods (DESIGN 5/C09, "as built").

The ECU is a *ghost* object: an uninterpreted transition relation `T(c, s)` and a ghost current
session `cur`.  The contract of `ecu.set_session(s, ...)` (the only way the scanner talks to the
ECU, apart from the optional reset) is the statement's ECU model:

    T(cur, s)      -> a positive DiagnosticSessionControlResponse, cur := s
    not T(cur, s)  -> a NegativeResponse with an arbitrary NRC, cur unchanged

Nothing about `T` is assumed, so every obligation holds for all directed graphs, all depths, all
skip lists and both settings of `thorough` - no bound.  What is proved:

  helper/set_session_with_hooks_handling   requests only the given session, without the database,
        first without hooks; the returned answer tells the truth about the ghost session
  helper/_recover_stack                    requests exactly the stack, in order; True only if the
        ECU then is in the stack's last session; never raises
  main/*                                   Hoare rule on the three nested loops of `main` (one
        arbitrary iteration each, invariants below) and on the two report loops:
        soundness   every reported session was entered by a positive answer while the ECU was
                    in the last session of the reported stack, the reported stack is a real path
                    of the graph from the default session with <= depth changes in total;
        skip        a session of the skip list is never probed and never part of a stack;
        coverage    (per iteration) every non-skipped session 1..0x7F is probed exactly once from
                    every processed stack, a frontier stack is left out only when its last session
                    was searched before (and not thorough), the level loop runs while the depth
                    allows and the frontier is not empty;
        termination variant depth - current_depth of the level loop (the inner loops are `for`
                    loops over finite lists);
        report      `result` is strictly increasing (sorted, no duplicates), every positive entry's
                    session ends up in it, each first entry is stored with its own stack.
The *global* step from the per-iteration coverage obligations to "every session within `depth`
changes is found" (induction over BFS levels) is not machine-checked here; it stays with the
bounded stand-in of contracts/c09.py.
"""
from __future__ import annotations

import asyncio
import sys
from typing import Any

import z3

from pyvc import loops, models
from pyvc.engine import Frame, Interp, PyExc
from pyvc.values import (NONE, V, VBool, VConst, VDict, VInt, VList, VObj, VStr, VSymMap, VTuple)

from . import transport_env as te
from .c15 import Stub, coro

T = z3.Function("T", z3.IntSort(), z3.IntSort(), z3.BoolSort())
SKIP = z3.Function("SKIP", z3.IntSort(), z3.BoolSort())
SFNS, SFNSIAS, CNC = 0x12, 0x7E, 0x22


def mods() -> Any:
    import gallia.command  # noqa: F401
    from gallia.commands.scan.uds import sessions
    from gallia.services.uds.core import service as S
    from gallia.services.uds.core.constants import UDSErrorCodes
    return sessions, S, UDSErrorCodes


def neg(I: Interp, S: Any, E: Any, code: Any) -> VObj:
    return VObj(S.NegativeResponse, {"request_service_id": VInt(0x10),
                                     "response_code": VInt(code, E)})


def pos(I: Interp, S: Any, s: Any) -> VObj:
    return VObj(S.DiagnosticSessionControlResponse, {"diagnostic_session_type": VInt(s)},
                lazy=True, tag="dsc-positive")


def ecu_contract(I: Interp, raising: bool = False) -> None:
    """`ecu.set_session` against the ghost graph; the log keeps (session, skip_hooks, use_db,
    cur before, positive?)."""
    sessions, S, E = mods()
    I.ghost.setdefault("requests", [])

    def set_session(I2: Interp, recv: V, args: list[V], kwargs: dict[str, V]) -> V:
        def go() -> V:
            s = models.as_int(I2, args[0] if args else kwargs["level"])
            cfg = kwargs.get("config", NONE)
            skip_hooks = cfg.fields.get("skip_hooks") if isinstance(cfg, VObj) else None
            cur = I2.ghost["cur"]
            k = I2.choose([z3.BoolVal(True)] * (6 if raising else 4))
            entry = {"session": s, "skip_hooks": skip_hooks, "use_db": kwargs.get("use_db"),
                     "cur": cur, "positive": k == 0}
            I2.ghost["requests"] = I2.ghost["requests"] + [entry]
            if k == 0:
                I2.assume(T(cur, s))
                I2.ghost["cur"] = s
                return pos(I2, S, s)
            if k >= 4:
                # outside the statement's ECU model (used for no-raise obligations only)
                I2.ghost["cur"] = I2.fresh_int("cur_unknown").t
                I2.raise_py(TimeoutError if k == 4 else ConnectionError, "ecu")
            I2.assume(z3.Not(T(cur, s)))
            if k == 1:
                return neg(I2, S, E, SFNS)
            if k == 2:
                return neg(I2, S, E, CNC)
            c = I2.fresh_int("nrc", 0, 255)
            I2.assume(z3.And(c.t != SFNS, c.t != CNC))
            return neg(I2, S, E, c.t)
        return coro(go)
    I.ex.stubs[("ecu", "set_session")] = set_session


def is_positive(S: Any, r: V) -> bool:
    return isinstance(r, VObj) and issubclass(r.cls, S.DiagnosticSessionControlResponse)


# ---------------------------------------------------------------- set_session_with_hooks_handling
def hooks_helper_harness(I: Interp) -> None:
    sessions, S, E = mods()
    session = I.fresh_int("session", 0, 0x7F, inp=True)
    use_hooks = I.fresh_bool("use_hooks", inp=True)
    cur0 = I.fresh_int("cur", 0, 0x7F, inp=True).t
    I.ghost["cur"] = cur0
    ecu_contract(I)
    scanner = VObj(sessions.SessionsScanner, {"ecu": te.stub("ecu"),
                                              "config": te.stub("cfg")})
    try:
        r = I.await_v(I.call_v(I.getattr_v(scanner, "set_session_with_hooks_handling"),
                               [session, use_hooks], {}))
    except PyExc as e:
        I.fail("H-no-exception-of-its-own", e.exc.cls.__name__)
        return
    reqs = I.ghost["requests"]
    I.prove("H-between-one-and-two-requests", z3.BoolVal(1 <= len(reqs) <= 2))
    I.prove("H-requests-only-the-given-session",
            z3.And(*[q["session"] == session.t for q in reqs]))
    I.prove("H-never-consults-the-database(use_db=False)", z3.BoolVal(all(
        isinstance(q["use_db"], VBool) and q["use_db"].concrete() is False for q in reqs)))
    I.prove("H-first-attempt-without-hooks", z3.BoolVal(
        isinstance(reqs[0]["skip_hooks"], VBool) and reqs[0]["skip_hooks"].concrete() is True))
    if len(reqs) == 2:
        I.prove("H-second-attempt-only-with-hooks-enabled-and-runs-the-hooks", z3.And(
            I.truth(use_hooks), z3.BoolVal(
                isinstance(reqs[1]["skip_hooks"], VBool)
                and reqs[1]["skip_hooks"].concrete() is False)))
    entered = any(q["positive"] for q in reqs)
    I.prove("H-answer-is-positive-iff-the-ECU-entered-the-session",
            z3.BoolVal(is_positive(S, r) == entered))
    if is_positive(S, r):
        I.prove("H-positive-answer:ECU-is-in-the-requested-session", I.ghost["cur"] == session.t)
    else:
        I.prove("H-negative-answer:ECU-session-unchanged", I.ghost["cur"] == cur0)
        I.prove("H-negative-answer-is-a-NegativeResponse", z3.BoolVal(
            isinstance(r, VObj) and issubclass(r.cls, S.NegativeResponse)))


# ---------------------------------------------------------------- ECU.set_session (scan mode)
def ecu_set_session_harness(I: Interp) -> None:
    """`ECU.set_session(level, config, use_db=False)` as the scanner calls it: the request always
    reaches the ECU - whatever the client believes about the current session - exactly once,
    and the ECU's answer is what the caller gets."""
    sessions, S, E = mods()
    from gallia.services.uds import ecu as ecu_mod
    from gallia.services.uds.core.client import UDSClient, UDSRequestConfig
    level = I.fresh_int("level", 0, 0x7F, inp=True)
    skip_hooks = I.fresh_bool("skip_hooks", inp=True)
    cur0 = I.fresh_int("cur", 0, 0x7F, inp=True).t
    I.ghost["cur"] = cur0
    I.ghost["requests"] = []
    I.ghost["hooks"] = []
    I.ghost["db_lookups"] = 0

    def dsc(I2: Interp, self_: V, *args: V, **kwargs: V) -> V:
        def go() -> V:
            a = list(args)
            s = models.as_int(I2, a[0] if a else kwargs["diagnostic_session_type"])
            cur = I2.ghost["cur"]
            k = I2.choose([z3.BoolVal(True)] * 2)
            I2.ghost["requests"] = I2.ghost["requests"] + [
                {"session": s, "config": kwargs.get("config", NONE), "positive": k == 0,
                 "hooks_before": list(I2.ghost["hooks"])}]
            if k == 0:
                I2.assume(T(cur, s))
                I2.ghost["cur"] = s
                r = pos(I2, S, s)
            else:
                I2.assume(z3.Not(T(cur, s)))
                r = neg(I2, S, E, I2.fresh_int("nrc", 0, 255).t)
            I2.ghost["answer"] = r
            return r
        return coro(go)
    I.ex.contracts[UDSClient.diagnostic_session_control] = dsc

    def hook(name: str):
        def c(I2: Interp, self_: V, *args: V, **kwargs: V) -> V:
            def go() -> V:
                I2.ghost["hooks"] = I2.ghost["hooks"] + [name]
                return VBool(True)
            return coro(go)
        return c
    I.ex.contracts[ecu_mod.ECU.set_session_pre] = hook("pre")
    I.ex.contracts[ecu_mod.ECU.set_session_post] = hook("post")

    def lookup(I2: Interp, recv: V, args: list[V], kwargs: dict[str, V]) -> V:
        def go() -> V:
            I2.ghost["db_lookups"] += 1
            return NONE
        return coro(go)
    I.ex.stubs[("db", "get_session_transition")] = lookup
    has_db = I.choose([z3.BoolVal(True)] * 2) == 0
    # what the client believes: any session, locked or unlocked - it must not matter
    believed = I.fresh_int("believed_session", 0, 0x7F, inp=True)
    unlocked = I.choose([z3.BoolVal(True)] * 2) == 0
    state = VObj(ecu_mod.ECUState, {"session": believed, "security_access_level":
                                    I.fresh_int("level_sa", 0, 0x7F) if unlocked else NONE})
    cfg = I.instantiate(UDSRequestConfig, [], {"skip_hooks": skip_hooks})
    ecu = VObj(ecu_mod.ECU, {"db_handler": te.stub("db") if has_db else NONE, "state": state},
               lazy=True, tag="ecu-object")
    try:
        r = I.await_v(I.call_v(I.getattr_v(ecu, "set_session"), [level],
                               {"config": cfg, "use_db": VBool(False)}))
    except PyExc as e:
        I.fail("S-no-exception-of-its-own", e.exc.cls.__name__)
        return
    reqs = I.ghost["requests"]
    I.prove("S-the-session-change-is-always-requested-from-the-ECU:exactly-once",
            z3.BoolVal(len(reqs) == 1))
    if len(reqs) != 1:
        return
    I.prove("S-requests-the-given-session", reqs[0]["session"] == level.t)
    I.prove("S-request-carries-the-caller's-config", z3.BoolVal(reqs[0]["config"] is cfg))
    I.prove("S-answer-is-the-ECU's-answer", z3.BoolVal(r is I.ghost["answer"]))
    I.prove("S-no-database-lookup-in-scan-mode", z3.BoolVal(I.ghost["db_lookups"] == 0))
    sh = I.truth(skip_hooks)
    sh = z3.BoolVal(sh) if isinstance(sh, bool) else sh
    I.prove("S-pre-hook-iff-hooks-are-not-skipped", z3.BoolVal(
        reqs[0]["hooks_before"] == ["pre"]) == z3.Not(sh))
    I.prove("S-post-hook-iff-entered-and-hooks-are-not-skipped", z3.BoolVal(
        "post" in I.ghost["hooks"]) == z3.And(z3.Not(sh), z3.BoolVal(reqs[0]["positive"])))


# ---------------------------------------------------------------- _recover_stack
def helper_contract(I: Interp, raising: bool) -> None:
    """Contract of set_session_with_hooks_handling as proved above (callers see only this)."""
    sessions, S, E = mods()
    I.ghost.setdefault("probes", [])

    def c(I2: Interp, self_: V, session: V, use_hooks: V = NONE) -> V:
        def go() -> V:
            s = models.as_int(I2, session)
            cur = I2.ghost["cur"]
            k = I2.choose([z3.BoolVal(True)] * (5 if raising else 4))
            I2.ghost["probes"] = I2.ghost["probes"] + [
                {"session": s, "use_hooks": use_hooks, "cur": cur, "positive": k == 0,
                 "kind": ["positive", "sfns", "cnc", "other", "raise"][k]}]
            if k == 0:
                I2.assume(T(cur, s))
                I2.ghost["cur"] = s
                return pos(I2, S, s)
            if k == 4:
                I2.ghost["cur"] = I2.fresh_int("cur_unknown").t
                I2.raise_py(TimeoutError if I2.choose([z3.BoolVal(True)] * 2) == 0
                            else ConnectionError, "ecu")
            I2.assume(z3.Not(T(cur, s)))
            if k == 1:
                return neg(I2, S, E, SFNS)
            if k == 2:
                return neg(I2, S, E, CNC)
            code = I2.fresh_int("nrc", 0, 255)
            I2.assume(z3.And(code.t != SFNS, code.t != CNC))
            I2.ghost["last_nrc"] = code.t
            return neg(I2, S, E, code.t)
        return coro(go)
    I.ex.contracts[sessions.SessionsScanner.set_session_with_hooks_handling] = c


STACK = z3.Function("STACK", z3.IntSort(), z3.IntSort())


def recover_harness(I: Interp) -> None:
    sessions, S, E = mods()
    n = I.fresh_int("len_stack", 0, None, inp=True)
    stack = VList(None, n.t, lambda j: VInt(STACK(j)))
    use_hooks = I.fresh_bool("use_hooks", inp=True)
    cur0 = I.fresh_int("cur", 0, 0x7F, inp=True).t
    I.ghost["cur"] = cur0
    helper_contract(I, raising=True)
    slept: list[V] = []
    models.MODELS[asyncio.sleep] = lambda I2, a, k: coro(lambda: (slept.append(a[0]), NONE)[1])
    scanner = VObj(sessions.SessionsScanner, {
        "ecu": te.stub("ecu"), "config": VObj(Stub, {"sleep": VInt(0)}, lazy=True, tag="cfg")})
    st: dict[str, Any] = {}

    def havoc(I2: Interp, fr: Frame) -> None:
        I2.ghost["cur"] = I2.fresh_int("cur_k").t
        I2.ghost["probes"] = []
        for nme in ("resp", "e"):
            fr.env.pop(nme, None)
            fr.poison.add(nme)

    def inv(I2: Interp, fr: Frame) -> list[tuple[str, Any]]:
        k = models.as_int(I2, fr.env["__k0"])
        out = [("ECU-is-in-the-last-recovered-session", z3.Implies(
            k > 0, I2.ghost["cur"] == STACK(k - 1))),
               ("ECU-untouched-before-the-first-element", z3.Implies(
                   k == 0, I2.ghost["cur"] == cur0))]
        if I2.ghost["__loop_phase"] == "preserved":
            pr = I2.ghost["probes"]
            out.append(("one-request-per-stack-element:the-element-itself", z3.And(
                z3.BoolVal(len(pr) == 1), pr[0]["session"] == STACK(k - 1) if pr
                else z3.BoolVal(False))))
            out.append(("continues-only-after-a-positive-answer",
                        z3.BoolVal(bool(pr) and pr[0]["positive"])))
            out.append(("hooks-setting-is-passed-on",
                        z3.BoolVal(bool(pr) and pr[0]["use_hooks"] is use_hooks)))
        return out
    I.ex.loop_contracts[("SessionsScanner._recover_stack", 0)] = loops.LoopContract(havoc, inv)
    try:
        r = I.await_v(I.call_v(I.getattr_v(scanner, "_recover_stack"), [stack, use_hooks], {}))
    except PyExc as e:
        I.fail("R-recover-stack-never-raises", e.exc.cls.__name__)
        return
    ok = I.truth(r)
    ok = z3.BoolVal(ok) if isinstance(ok, bool) else ok
    pr = I.ghost["probes"]
    # after the loop (k = n): the invariant gives the position; a False return comes from inside
    # an iteration (its single request was not positive or raised)
    if z3.is_true(z3.simplify(ok)):
        I.prove("R-success:ECU-is-in-the-stack's-last-session",
                z3.Implies(n.t > 0, I.ghost["cur"] == STACK(n.t - 1)))
        I.prove("R-success-with-an-empty-stack-leaves-the-ECU-alone",
                z3.Implies(n.t == 0, I.ghost["cur"] == cur0))
    else:
        I.prove("R-failure-only-after-a-refused-or-failed-request",
                z3.BoolVal(len(pr) == 1 and not pr[0]["positive"]))



# ---------------------------------------------------------------- main
def _fresh_fn(I: Interp, base: str, *sorts: Any) -> Any:
    return z3.Function(I.fresh_name(base), *sorts)


def good_stack_facts(I: Interp, sel: Any, level: Any) -> list[Any]:
    """GOOD(stack, level): a real path of the graph from the default session with `level`
    session changes, no skipped session on it (the base excepted)."""
    j = z3.Int(I.fresh_name("gj"))
    return [sel(0) == 1, level >= 0,
            z3.ForAll([j], z3.Implies(z3.And(0 <= j, j < level), T(sel(j), sel(j + 1)))),
            z3.ForAll([j], z3.Implies(z3.And(1 <= j, j <= level), z3.Not(SKIP(sel(j))))),
            z3.ForAll([j], z3.Implies(z3.And(0 <= j, j <= level),
                                      z3.And(1 <= sel(j), sel(j) <= 0x7F)))]


class Stack(VList):
    """A frontier stack: functional list over an uninterpreted element function."""
    __slots__ = ("sel", "level")


def mk_stack(I: Interp, name: str, level: Any) -> Stack:
    sel = _fresh_fn(I, name, z3.IntSort(), z3.IntSort())
    st = Stack(None, level + 1, lambda j: VInt(sel(j)))
    st.sel, st.level = sel, level
    for f in good_stack_facts(I, sel, level):
        I.assume(f)
    return st


def elt(I: Interp, lst: VList, j: Any) -> Any:
    return models.as_int(I, lst.at(j))


def prove_good(I: Interp, name: str, lst: V, level: Any) -> None:
    """GOOD(lst, level) as obligations (Skolem index for the quantified parts)."""
    if not isinstance(lst, VList):
        I.fail(name + ":is-a-list", repr(lst))
        return
    I.prove(name + ":length-is-changes+1", lst.length() == level + 1)
    j = I.fresh_int("skj").t
    I.note_index(j)
    I.prove(name + ":starts-in-the-default-session", elt(I, lst, z3.IntVal(0)) == 1)
    I.prove(name + ":every-step-is-a-transition-of-the-graph", z3.Implies(
        z3.And(0 <= j, j < level), T(elt(I, lst, j), elt(I, lst, j + 1))))
    I.prove(name + ":no-skipped-session-on-it", z3.Implies(
        z3.And(1 <= j, j <= level), z3.Not(SKIP(elt(I, lst, j)))))
    I.prove(name + ":sessions-in-range", z3.Implies(
        z3.And(0 <= j, j <= level), z3.And(1 <= elt(I, lst, j), elt(I, lst, j) <= 0x7F)))


class Tracked:
    """A havocked list with a type invariant on its elements: `fresh()` replaces the contents
    in place (aliases stay aliases), `appended()` returns what the code added since."""

    def __init__(self, name: str):
        self.name = name
        self.obj: VList | None = None
        self.n0: Any = None

    def fresh(self, I: Interp, obj: VList, get: Any, member: Any = None,
              kind: str = "list") -> None:
        n = I.fresh_int("n_" + self.name, 0).t
        obj.become(VList(None, n, get, kind=kind, member=member))
        self.obj, self.n0 = obj, n

    def appended(self, I: Interp, cur: V) -> list[V]:
        from pyvc.values import Unsupported
        if cur is not self.obj:
            raise Unsupported(f"{self.name} was rebound to another object")
        assert self.obj is not None
        c = z3.simplify(self.obj.length() - self.n0)
        if not z3.is_int_value(c) or c.as_long() < 0:
            raise Unsupported(f"{self.name}: length changed by {c}")
        return [self.obj.at(self.n0 + i) for i in range(c.as_long())]


def loop_roles(cls: type) -> dict[tuple[str, int], str]:
    """(qualname, loop ordinal) -> role, for every loop of the class that has a role: decided by
    what the loop walks (source order inside each function as in pyvc.loops.loop_key)."""
    import ast
    import inspect
    import textwrap
    out: dict[tuple[str, int], str] = {}
    n_sorted = 0
    for name, fn in vars(cls).items():
        if not inspect.isfunction(fn):
            continue
        node = ast.parse(textwrap.dedent(inspect.getsource(fn))).body[0]
        ordinal = -1

        def visit(n: Any) -> None:
            nonlocal ordinal, n_sorted
            if isinstance(n, (ast.For, ast.AsyncFor, ast.While)):
                ordinal += 1
                role = None
                it = ast.unparse(n.iter) if not isinstance(n, ast.While) else ""
                if isinstance(n, ast.While) and "depth" in ast.unparse(n.test):
                    role = "levels"
                elif it.startswith("found["):
                    role = "stacks"
                elif it == "sessions":
                    role = "probe"
                elif it.startswith("sorted(") and "negative" in it:
                    role = "report-negative"
                elif it.startswith("sorted("):
                    role = "report"
                if role and name != "_recover_stack":
                    out[(fn.__qualname__, ordinal)] = role
            for c in ast.iter_child_nodes(n):
                visit(c)
        visit(node)
    return out


def main_harness(reset: bool):
    def harness(I: Interp) -> None:
        sessions_mod, S, E = mods()
        depth = I.fresh_int("depth", None, None, inp=True)
        thorough = I.fresh_bool("thorough", inp=True)
        with_hooks = I.fresh_bool("with_hooks", inp=True)
        skip = VList(None, z3.Int("n_skip"), lambda j: VInt(z3.Int("unused")),
                     member=lambda v: SKIP(models.as_int(I, v)))
        cfg = VObj(Stub, {"depth": depth, "thorough": thorough, "with_hooks": with_hooks,
                          "skip": skip, "reset": VInt(1) if reset else NONE,
                          "timeout": NONE, "sleep": VInt(0)}, lazy=True, tag="cfg")
        I.ghost["cur"] = I.fresh_int("cur_start", 1, 0x7F).t
        I.ghost["recovers"] = []
        I.ghost["stored"] = []
        helper_contract(I, raising=False)

        def recover(I2: Interp, self_: V, stack: V, use_hooks: V = NONE) -> V:
            def go() -> V:
                ok = I2.choose([z3.BoolVal(True)] * 2) == 0
                I2.ghost["recovers"] = I2.ghost["recovers"] + [
                    {"stack": stack, "use_hooks": use_hooks, "ok": ok,
                     "probes_before": len(I2.ghost["probes"])}]
                if ok and isinstance(stack, VList):
                    n = stack.length()
                    last = elt(I2, stack, n - 1)
                    I2.ghost["cur"] = z3.If(n > 0, last, I2.ghost["cur"])
                else:
                    I2.ghost["cur"] = I2.fresh_int("cur_unknown").t
                return VBool(ok)
            return coro(go)
        I.ex.contracts[sessions_mod.SessionsScanner._recover_stack] = recover

        def unknown_session(I2: Interp, recv: V, args: list[V], kwargs: dict[str, V]) -> V:
            def go() -> V:
                I2.ghost["cur"] = I2.fresh_int("cur_after_reset").t
                I2.ghost["resets"] = I2.ghost.get("resets", 0) + 1
                k = I2.choose([z3.BoolVal(True)] * 4)
                if k == 2:
                    I2.raise_py(TimeoutError, "reset")
                if k == 3:
                    I2.raise_py(ConnectionError, "reset")
                return neg(I2, S, E, CNC) if k == 1 else VObj(S.ECUResetResponse, {}, lazy=True)
            return coro(go)
        I.ex.stubs[("ecu", "ecu_reset")] = unknown_session
        I.ex.stubs[("ecu", "wait_for_ecu")] = lambda I2, r, a, k: coro(lambda: VBool(True))
        I.ex.stubs[("ecu", "reconnect")] = lambda I2, r, a, k: coro(lambda: NONE)

        def store(I2: Interp, recv: V, args: list[V], kwargs: dict[str, V]) -> V:
            def go() -> V:
                I2.ghost["stored"] = I2.ghost["stored"] + [(args[0], args[1])]
                return NONE
            return coro(go)
        I.ex.stubs[("db", "insert_session_transition")] = store
        models.MODELS[sys.exit] = lambda I2, a, k: I2.raise_py(SystemExit)
        models.MODELS[asyncio.sleep] = lambda I2, a, k: coro(lambda: NONE)
        has_db = I.choose([z3.BoolVal(True)] * 2) == 0
        result = VList([])
        scanner = VObj(sessions_mod.SessionsScanner, {
            "ecu": te.stub("ecu"), "config": cfg, "result": result,
            "db_handler": te.stub("db") if has_db else NONE})

        # ---- tracked containers and their element invariants --------------------------------
        kname: dict[str, str] = {}
        tr = {n: Tracked(n) for n in ("frontier", "positive_results", "negative_results",
                                      "searched_sessions", "activated_sessions", "result")}
        st: dict[str, Any] = {}

        def mk_entry(I2: Interp, prefix: str, j: Any, positive: bool) -> VDict:
            """an element of positive_results: SOUND(entry) - its stack is a real path with
            fewer than `depth` changes and the graph has the edge last(stack) -> session"""
            key = (prefix, j.get_id())
            if key in st.setdefault("entries", {}):
                return st["entries"][key]
            lvl = I2.fresh_int(prefix + "_lvl", 0).t
            stack = mk_stack(I2, prefix + "_stk", lvl)
            s = I2.fresh_int(prefix + "_s", 1, 0x7F).t
            I2.assume(z3.Not(SKIP(s)))
            if positive:
                I2.assume(z3.And(T(stack.sel(lvl), s), lvl + 1 <= depth.t))
                err: V = NONE
            else:
                err = VInt(I2.fresh_int(prefix + "_nrc", 0, 255).t, E)
            d = VDict([(VStr("session"), VInt(s)), (VStr("stack"), stack), (VStr("error"), err)])
            st["entries"][key] = d
            return d

        def entry_field(d: V, name: str) -> V:
            assert isinstance(d, VDict)
            for k, v in d.items:
                if isinstance(k, VStr) and k.s == name:
                    return v
            raise KeyError(name)

        def cur_depth(fr: Frame) -> Any:
            return models.as_int(I, fr.env["current_depth"])

        def havoc_lists(I2: Interp, fr: Frame, frontier: bool = True) -> None:
            cd = models.as_int(I2, fr.env["current_depth"])
            if frontier:
                fl = models.getitem(I2, fr.env["found"], fr.env["current_depth"])
                assert isinstance(fl, VList)
                tr["frontier"].fresh(I2, fl, lambda j: mk_stack(I2, "new_stk", cd))
            tr["positive_results"].fresh(I2, fr.env["positive_results"],
                                         lambda j: mk_entry(I2, "pos", j, True))
            tr["negative_results"].fresh(I2, fr.env["negative_results"],
                                         lambda j: mk_entry(I2, "neg", j, False))
            searched = _fresh_fn(I2, "SEARCHED", z3.IntSort(), z3.BoolSort())
            tr["searched_sessions"].fresh(
                I2, fr.env["searched_sessions"], lambda j: VInt(I2.fresh_int("searched_elt").t),
                member=lambda v: searched(models.as_int(I2, v)))
            activated = _fresh_fn(I2, "ACTIVATED", z3.IntSort(), z3.BoolSort())
            tr["activated_sessions"].fresh(
                I2, fr.env["activated_sessions"], lambda j: VInt(I2.fresh_int("act_elt").t),
                member=lambda v: activated(models.as_int(I2, v)), kind="set")
            st["searched0"], st["activated0"] = searched, activated
            I2.ghost["cur"] = I2.fresh_int("cur_h", 1, 0x7F).t
            I2.ghost["probes"] = []
            I2.ghost["recovers"] = []
            I2.ghost["resets"] = 0

        def check_types(I2: Interp, fr: Frame, where: str) -> None:
            """type invariants of the containers: everything the code added since the last
            havoc must satisfy the element invariant"""
            cd = models.as_int(I2, fr.env["current_depth"])
            if tr["frontier"].obj is not None:
                fl = models.getitem(I2, fr.env["found"], fr.env["current_depth"])
                for x in tr["frontier"].appended(I2, fl):
                    prove_good(I2, f"{where}:new-frontier-stack", x, cd)
            for x in tr["positive_results"].appended(I2, fr.env["positive_results"]):
                sound_entry(I2, fr, where, x)

        def sound_entry(I2: Interp, fr: Frame, where: str, x: V) -> None:
            cd = models.as_int(I2, fr.env["current_depth"])
            nm = f"{where}:new-positive-entry"
            if not isinstance(x, VDict):
                I2.fail(nm + ":is-a-dict", repr(x))
                return
            s = models.as_int(I2, entry_field(x, "session"))
            stk = entry_field(x, "stack")
            prove_good(I2, nm + ":stack", stk, cd - 1)
            assert isinstance(stk, VList)
            I2.prove(nm + ":the-graph-has-the-edge-last(stack)->session",
                     T(elt(I2, stk, stk.length() - 1), s))
            I2.prove(nm + ":within-the-depth-limit", cd <= depth.t)
            I2.prove(nm + ":session-is-not-skipped-and-in-range",
                     z3.And(z3.Not(SKIP(s)), 1 <= s, s <= 0x7F))

        # ---- loop 0: levels ------------------------------------------------------------------
        def havoc0(I2: Interp, fr: Frame) -> None:
            fr.env["current_depth"] = I2.fresh_int("current_depth", 0)
            cd = fr.env["current_depth"].t
            lists: dict[int, VList] = {}

            def level(k: V) -> V:
                kt = z3.simplify(models.as_int(I2, k))
                if kt.get_id() not in lists:
                    lists[kt.get_id()] = VList(
                        None, I2.fresh_int("n_level", 0).t,
                        lambda j, kt=kt: mk_stack(I2, "lvl_stk", kt))
                return lists[kt.get_id()]
            fr.env["found"] = VSymMap(
                z3.Int(I2.fresh_name("n_found")), lambda j: VInt(j),
                lambda k: z3.And(models.as_int(I2, k) >= 0, models.as_int(I2, k) <= cd),
                level, "found")
            tr["frontier"].obj = None
            havoc_lists(I2, fr, frontier=False)
            for nme in ("stack", "session", "resp", "recover_stack", "reset_resp", "e"):
                fr.env.pop(nme, None)
                fr.poison.add(nme)

        def inv0(I2: Interp, fr: Frame) -> list[tuple[str, Any]]:
            cd = cur_depth(fr)
            ph = I2.ghost["__loop_phase"]
            out = [("level-counter-within-the-depth-limit",
                    z3.And(cd >= 0, z3.Or(cd == 0, cd <= depth.t))),
                   ("frontier-of-the-current-level-exists",
                    _b(models.contains(I2, fr.env["found"], fr.env["current_depth"])))]
            if ph == "assume":
                st["cd0"] = cd
            if ph == "init":
                # found[0] == [[defaultSession]]
                f0 = models.getitem(I2, fr.env["found"], VInt(0))
                ok = isinstance(f0, VList) and f0.items is not None and len(f0.items) == 1
                out.append(("scan-starts-from-the-default-session-alone", z3.BoolVal(ok)))
                if ok:
                    prove_good(I2, "init:first-frontier-stack", f0.items[0], z3.IntVal(0))
            if ph == "preserved":
                out.append(("one-level-per-iteration", cd == st["cd0"] + 1))
                check_types(I2, fr, "level-loop")
            return out

        def variant0(I2: Interp, fr: Frame) -> Any:
            return depth.t - cur_depth(fr)

        # ---- loop 1: frontier stacks ---------------------------------------------------------
        def havoc1(I2: Interp, fr: Frame) -> None:
            havoc_lists(I2, fr)
            st["searched1"] = st["searched0"]
            for nme in ("session", "resp", "recover_stack", "reset_resp", "e"):
                fr.env.pop(nme, None)
                fr.poison.add(nme)

        def inv1(I2: Interp, fr: Frame) -> list[tuple[str, Any]]:
            ph = I2.ghost["__loop_phase"]
            out: list[tuple[str, Any]] = []
            if ph == "init":
                check_types(I2, fr, "before-the-stack-loop")
                fl = models.getitem(I2, fr.env["found"], fr.env["current_depth"])
                out.append(("new-level-starts-empty", _b(
                    isinstance(fl, VList) and fl.items is not None and len(fl.items) == 0)))
                out.append(("iterates-the-frontier-of-the-previous-level", z3.BoolVal(
                    st.get("iter:stacks") is models.getitem(
                        I2, fr.env["found"], VInt(cur_depth(fr) - 1)))))
            if ph == "preserved":
                check_types(I2, fr, "stack-loop")
                stack = fr.env["stack"]
                last = elt(I2, stack, stack.length() - 1)
                was = st["searched1"](last)
                processed = st.get("probe_loop_entered", False)
                # (the statement does not ask for the extra work of `thorough`: only leaving a
                # stack out needs a reason)
                out.append(("a-frontier-stack-is-left-out-only-if-its-last-session-was-searched"
                            "-before", z3.Implies(z3.BoolVal(not processed), was)))
                if processed:
                    out.append(("its-last-session-is-marked-as-searched", _b(models.contains(
                        I2, fr.env["searched_sessions"], VInt(last)))))
            return out

        # ---- loop 2: probes ------------------------------------------------------------------
        def havoc2(I2: Interp, fr: Frame) -> None:
            st["probe_loop_entered"] = True
            havoc_lists(I2, fr)
            fr.env["recover_stack"] = I2.fresh_bool("recover_stack")
            for nme in ("resp", "reset_resp", "e"):
                fr.env.pop(nme, None)
                fr.poison.add(nme)

        def inv2(I2: Interp, fr: Frame) -> list[tuple[str, Any]]:
            ph = I2.ghost["__loop_phase"]
            stack = fr.env["stack"]
            last = elt(I2, stack, stack.length() - 1)
            rs = I2.truth(fr.env["recover_stack"])
            rs = z3.BoolVal(rs) if isinstance(rs, bool) else rs
            out = [("without-a-pending-recovery-the-ECU-is-in-the-stack's-last-session",
                    z3.Or(rs, I2.ghost["cur"] == last)),
                   ("the-stack's-last-session-stays-marked-as-searched", _b(models.contains(
                       I2, fr.env["searched_sessions"], VInt(last))))]
            if ph == "init":
                check_types(I2, fr, "before-the-probe-loop")
                out.append(("probes-all-sessions-1..0x7F", z3.And(
                    I2.ghost["__loop_len"] == 0x7F, z3.BoolVal(True))))
                st["probe_loop_entered"] = True
            if ph != "preserved":
                return out
            k = models.as_int(I2, fr.env[kname["probe"]]) - 1
            s = k + 1  # sessions[k]
            out.append(("probe-loop-element-is-the-session-number",
                        models.as_int(I2, fr.env["session"]) == s))
            probes, recs = I2.ghost["probes"], I2.ghost["recovers"]
            skipped = SKIP(s)
            out.append(("a-skipped-session-is-never-requested", z3.Implies(
                skipped, z3.BoolVal(not probes and not recs))))
            out.append(("a-non-skipped-session-is-probed-exactly-once", z3.Implies(
                z3.Not(skipped), z3.BoolVal(len(probes) == 1))))
            out.append(("only-the-current-stack-is-recovered", z3.BoolVal(
                len(recs) <= 1 and all(r["stack"] is stack and r["use_hooks"] is with_hooks
                                       and r["ok"] for r in recs))))
            if probes:
                p = probes[0]
                out.append(("probe-requests-the-loop's-session", p["session"] == s))
                out.append(("probe-happens-in-the-last-session-of-the-stack", p["cur"] == last))
                out.append(("probe-passes-the-hooks-setting",
                            z3.BoolVal(p["use_hooks"] is with_hooks)))
                out.append(("recovery-precedes-the-probe", z3.BoolVal(
                    all(r["probes_before"] == 0 for r in recs))))
                new_pos = tr["positive_results"].appended(I2, fr.env["positive_results"])
                fl = models.getitem(I2, fr.env["found"], fr.env["current_depth"])
                new_front = tr["frontier"].appended(I2, fl)
                new_neg = tr["negative_results"].appended(I2, fr.env["negative_results"])
                act = _b(models.contains(I2, fr.env["activated_sessions"], VInt(s)))
                if p["positive"]:
                    ok = len(new_pos) == 1 and isinstance(new_pos[0], VDict)
                    out.append(("an-entered-session-is-recorded-once", z3.BoolVal(ok)))
                    if ok:
                        out.append(("recorded-with-its-own-stack", z3.And(
                            z3.BoolVal(entry_field(new_pos[0], "stack") is stack),
                            models.as_int(I2, entry_field(new_pos[0], "session")) == s)))
                    instack = _b(models.contains(I2, stack, VInt(s)))
                    out.append(("entered-session-joins-the-next-frontier-unless-it-is-on-the-"
                                "stack-already(cycle)-and-not-thorough",
                                z3.BoolVal(len(new_front) == 1) == z3.Or(
                                    I2.truth(thorough), z3.Not(instack))))
                    out.append(("entered-session-is-marked-activated", act))
                    out.append(("stack-is-recovered-before-the-next-probe", rs))
                    out.append(("no-negative-entry-for-an-entered-session",
                                z3.BoolVal(not new_neg)))
                else:
                    out.append(("a-refused-session-is-not-reported",
                                z3.BoolVal(not new_pos and not new_front)))
                    out.append(("subFunctionNotSupported-is-not-recorded-at-all",
                                z3.BoolVal((len(new_neg) == 0) == (p["kind"] == "sfns"))))
                    out.append(("activated-set-unchanged-by-a-refusal",
                                act == st["activated0"](s)))
            check_types(I2, fr, "probe-loop")
            return out

        # ---- loops 3 / 4: report -------------------------------------------------------------
        OS = _fresh_fn(I, "SORTED_SESSION", z3.IntSort(), z3.IntSort())

        def my_sorted(I2: Interp, args: list[V], kwargs: dict[str, V]) -> V:
            """trusted contract of sorted(entries, key=session): a permutation of the entries
            (each satisfies the element invariant) with non-decreasing keys"""
            src = args[0]
            positive = src is tr["positive_results"].obj
            if not (positive or src is tr["negative_results"].obj) or "key" not in kwargs:
                return models._sorted(I2, args, kwargs)
            fn = OS if positive else _fresh_fn(I2, "SORTED_NEG", z3.IntSort(), z3.IntSort())

            def get(j: Any) -> V:
                d = mk_entry(I2, "spos" if positive else "sneg", j, positive)
                st.setdefault("owner", {})[id(entry_field(d, "stack"))] = j
                I2.assume(models.as_int(I2, entry_field(d, "session")) == fn(j))
                return d
            j = z3.Int(I2.fresh_name("sj"))
            n = src.length()
            I2.assume(z3.ForAll([j], z3.Implies(z3.And(0 <= j, j + 1 < n), fn(j) <= fn(j + 1))))
            I2.assume(z3.ForAll([j], z3.Implies(z3.And(0 <= j, j < n),
                                                z3.And(1 <= fn(j), fn(j) <= 0x7F))))
            out = VList(None, n, get)
            st["sorted_pos" if positive else "sorted_neg"] = out
            return out
        models.MODELS[sorted] = my_sorted
        RES = _fresh_fn(I, "RESULT", z3.IntSort(), z3.IntSort())

        def havoc3(I2: Interp, fr: Frame) -> None:
            res = I2.getattr_v(scanner, "result")
            assert isinstance(res, VList)
            tr["result"].fresh(I2, res, lambda j: VInt(RES(j)))
            fr.env["previous_session"] = I2.fresh_int("previous_session", 0)
            I2.ghost["stored"] = []
            for nme in ("session", "res"):
                fr.env.pop(nme, None)
                fr.poison.add(nme)

        def inv3(I2: Interp, fr: Frame) -> list[tuple[str, Any]]:
            ph = I2.ghost["__loop_phase"]
            k = models.as_int(I2, fr.env[kname["report"]])
            res = I2.getattr_v(scanner, "result")
            prev = models.as_int(I2, fr.env["previous_session"])
            n = res.length()
            out = [("nothing-reported-before-the-first-entry",
                    z3.Implies(k == 0, z3.And(n == 0, prev == 0)))]
            if res.items is None or res.items:
                out.append(("last-reported-session-is-the-entry-just-handled", z3.Implies(
                    k > 0, z3.And(n > 0, elt(I2, res, n - 1) == OS(k - 1), prev == OS(k - 1)))))
            else:
                out.append(("last-reported-session-is-the-entry-just-handled", k == 0))
            if ph == "init":
                out.append(("report-loop-walks-the-sorted-positive-entries", z3.BoolVal(
                    st.get("iter:report") is st.get("sorted_pos") and st.get("iter:report") is not None)))
            if ph == "preserved":
                new = tr["result"].appended(I2, res)
                n0 = tr["result"].n0
                first = z3.Or(k - 1 == 0, OS(k - 1) != OS(k - 2))
                out.append(("a-session-is-reported-at-its-first-entry-only",
                            z3.BoolVal(len(new) == 1) == first))
                if new:
                    v = models.as_int(I2, new[0])
                    out.append(("reported-value-is-the-entry's-session", v == OS(k - 1)))
                    out.append(("result-strictly-increasing(sorted,no-duplicates)",
                                z3.Implies(n0 > 0, v > RES(n0 - 1))))
                stored = I2.ghost["stored"]
                if has_db:
                    out.append(("each-reported-session-is-stored-once",
                                z3.BoolVal(len(stored) == len(new))))
                    if stored:
                        owner = st.get("owner", {}).get(id(stored[0][1]))
                        out.append(("stored-with-the-stack-of-its-own-entry", z3.And(
                            owner == k - 1 if owner is not None else z3.BoolVal(False),
                            models.as_int(I2, stored[0][0]) == OS(k - 1))))
            return out

        def havoc4(I2: Interp, fr: Frame) -> None:
            fr.env["previous_session"] = I2.fresh_int("previous_session", 0)
            st["result_n_at_4"] = I2.getattr_v(scanner, "result").length()
            for nme in ("session", "res"):
                fr.env.pop(nme, None)
                fr.poison.add(nme)

        def inv4(I2: Interp, fr: Frame) -> list[tuple[str, Any]]:
            if I2.ghost["__loop_phase"] != "preserved":
                return []
            return [("the-not-activated-report-leaves-the-result-alone",
                     I2.getattr_v(scanner, "result").length() == st["result_n_at_4"])]

        lc0 = loops.LoopContract(havoc0, inv0, variant0)

        def exit0(I2: Interp, fr: Frame) -> list[tuple[str, Any]]:
            cd = cur_depth(fr)
            fl = models.getitem(I2, fr.env["found"], fr.env["current_depth"])
            return [("the-search-stops-only-at-the-depth-limit-or-with-an-empty-frontier",
                     z3.Or(cd >= depth.t, fl.length() == 0))]
        lc0.on_exit = exit0  # type: ignore[attr-defined]
        # the loop contracts are attached by the *role* of a loop (what it walks), wherever in
        # the class the loop lives - a report loop extracted into a helper method keeps its
        # contract
        by_role = {"levels": lc0, "stacks": loops.LoopContract(havoc1, inv1),
                   "probe": loops.LoopContract(havoc2, inv2),
                   "report": loops.LoopContract(havoc3, inv3),
                   "report-negative": loops.LoopContract(havoc4, inv4)}
        for (qn, ordinal), role in loop_roles(sessions_mod.SessionsScanner).items():
            I.ex.loop_contracts[(qn, ordinal)] = by_role[role]
            kname[role] = f"__k{ordinal}"
        roles = loop_roles(sessions_mod.SessionsScanner)
        I.ghost["__iter_hook"] = lambda key, it: st.__setitem__(
            "iter:" + roles.get(key, "?"), it)
        try:
            I.await_v(I.call_v(I.getattr_v(scanner, "main"), [], {}))
        except PyExc as e:
            if not issubclass(e.exc.cls, SystemExit):
                I.fail("M-main-does-not-raise", e.exc.cls.__name__)
            return
    return harness


def _b(x: Any) -> Any:
    return z3.BoolVal(x) if isinstance(x, bool) else x


def proof_units() -> list[Any]:
    from pyvc.runner import Unit
    return [Unit("helper/set_session_with_hooks_handling", hooks_helper_harness),
            Unit("helper/ECU.set_session(scan-mode)", ecu_set_session_harness),
            Unit("helper/_recover_stack", recover_harness),
            Unit("main/no-reset", main_harness(False), max_paths=20000),
            Unit("main/reset", main_harness(True), max_paths=40000)]


