"""C02 - decoded UDS responses expose the received fields and re-encode to the same bytes.

Decode-first (DESIGN 5/C02): for an arbitrary byte string `pdu`, symbolic execution of the real
`UDSResponse.parse_dynamic` (and everything below it: `from_pdu`, `_check_pdu`, `_from_pdu`,
constructors, `pdu`) is split by the first byte into one verification unit per response service.
On every path that returns an object r:
    A-exact    r.pdu == pdu                                  (never silently normalised)
    A-fields   ISO layout of r's public fields == pdu        (fields are the ISO fields)
    A-range    every integer field of r is in its ISO range
    A-service  the class of r is the registry's class for pdu[0] (and sub-function pdu[1])
Encode direction (every valid response of every service): per response class with symbolic
constructor arguments: E-layout, E-refuse, R-dyn (parse_dynamic of the own pdu is typed, same
fields, same bytes).
`_ReadDTCType1Response` keeps (DTC -> status) in a dict: its units are *bounded* to <= 3 records
and labelled so.  `DBHandler.insert_scan_result` stores `bytes_repr(response.pdu)`: DB-pdu.
"""
from __future__ import annotations

import inspect
import random
import struct
import time
from typing import Any

import z3

from pyvc import models
from pyvc.engine import Explorer, Interp, PyExc
from pyvc.runner import Check, Unit, run_units
from pyvc.values import (NONE, IntSeq, Unsupported, V, VBool, VBytes, VConst, VDict, VInt, VList,
                         VObj, VTuple, seq_to_bytes, wrap)

from . import codec_spec as cs
from . import iso14229 as iso
from .c01 import REFUSAL, py_of, random_arg, service_module


def response_classes() -> dict[str, type]:
    S = service_module()
    return {n: c for n, c in vars(S).items()
            if isinstance(c, type) and issubclass(c, S.UDSResponse) and not inspect.isabstract(c)}


def registry_sids() -> list[int]:
    S = service_module()
    return sorted(int(k) for k in S.UDSService._SERVICES if k is not None)


def expected_class_name(I: Interp, r: VObj) -> str:
    return r.cls.__name__


def check_typed(I: Interp, r: VObj, pdu: VBytes, tag: str = "A") -> None:
    """Obligations for a typed object r returned for the bytes pdu."""
    S = service_module()
    name = r.cls.__name__
    spec = iso.RESPONSES.get(name)
    try:
        rp = I.getattr_v(r, "pdu")
    except PyExc as e:
        I.fail(f"{tag}-exact(re-encoding-returns-received-bytes)",
               f"{name}.pdu raised {e.exc.cls.__name__}")
        return
    I.prove(f"{tag}-exact(re-encoding-returns-received-bytes)",
            models.bytes_eq(I, rp.t, pdu.t), name)
    if spec is None:
        if name in iso.INTERNAL_RESPONSE_BASES:
            I.fail(f"{tag}-service(class-is-the-registry-class)", f"internal base {name}")
            return
        raise Unsupported(f"response class {name} has no entry in the ISO table")
    if spec.get("raw"):
        return
    if spec.get("negative"):
        sid = I.getattr_v(r, "request_service_id")
        code = I.getattr_v(r, "response_code")
        want = z3.Concat(cs.unit(0x7F), cs.unit(sid.t), cs.unit(code.t))
        I.prove(f"{tag}-fields(ISO-layout-of-fields-equals-bytes)", want == pdu.t, name)
        I.prove(f"{tag}-range(fields-in-ISO-range)",
                z3.And(sid.t >= 0, sid.t <= 255,
                       z3.Or(*[code.t == int(m) for m in S.UDSErrorCodes])), name)
        return
    view = cs.read_view(I, r, spec, False)
    want = cs.layout(I, spec, view, False)
    I.prove(f"{tag}-fields(ISO-layout-of-fields-equals-bytes)",
            models.bytes_eq(I, want, pdu.t), name)
    ints, recs = cs.in_range(I, spec, view)
    extra = []
    if "iocp" in spec:
        rec_ = view.get("control_status_record")
        extra.append(rec_.t[0] == spec["iocp"])
    for f in spec["fields"]:
        if f["kind"] == "dtc_dict" and f.get("max") is not None:
            extra.append(z3.BoolVal(len(view.get(f["attr"]).items) <= f["max"]))
        if f["kind"] == "dtc_status":
            v = view.get(f["attr"])
            extra.append(z3.And(v.items[0].t >= 0, v.items[0].t <= 0xFFFFFF,
                                v.items[1].t >= 0, v.items[1].t <= 0xFF))
        if f["kind"] in ("dtc_dict", "ext_records"):
            for kk, vv in view.get(f["attr"]).items:
                hi = 0xFFFFFF if f["kind"] == "dtc_dict" else 0xFF
                extra.append(z3.And(kk.t >= 0, kk.t <= hi))
                if f["kind"] == "dtc_dict":
                    extra.append(z3.And(vv.t >= 0, vv.t <= 0xFF))
    I.prove(f"{tag}-range(fields-in-ISO-range)", z3.And(ints, recs, *extra), name)
    # registry agreement
    conds = [pdu.t[0] == spec["sid"] + 0x40]
    if spec.get("sub") is not None and spec["sub"]["kind"] == "subconst":
        conds.append(pdu.t[1] == spec["sub"]["value"])
    I.prove(f"{tag}-service(class-is-the-registry-class)", z3.And(*conds), name)


def decode_harness(first: int | None, n_records: int | None = None, sub: int | None = None):
    S = service_module()

    def harness(I: Interp) -> None:
        pdu = I.fresh_bytes("pdu", inp=True, minlen=1)
        b0 = pdu.t[0]
        I.assume(z3.And(b0 >= 0, b0 <= 255))
        if first is not None:
            I.assume(b0 == first)
        else:
            known = [s + 0x40 for s in registry_sids()] + [0x7F]
            I.assume(z3.And(*[b0 != k for k in known]))
        if sub is not None:
            I.assume(models.seq_len(pdu.t) >= 2)
            I.assume(pdu.t[1] == sub)
        if n_records is not None:
            I.assume(models.seq_len(pdu.t) == 3 + 4 * n_records)
        if n_records is not None and n_records >= 2:
            # the listed finding (dict-backed list) concerns replies that list one DTC twice; the
            # two cases are separate obligations so that any *other* loss is still reported
            def dtc(i: int) -> Any:
                return (pdu.t[3 + 4 * i] * 65536 + pdu.t[4 + 4 * i] * 256 + pdu.t[5 + 4 * i])
            distinct = z3.And(*[dtc(i) != dtc(j) for i in range(n_records)
                                for j in range(i + 1, n_records)])
            if n_records >= 3:
                # thorough tier: three records are explored for pairwise distinct DTCs only (the
                # repeated-DTC case is the listed finding, shown by the two-record units)
                I.assume(distinct)
            elif I.choose([distinct, z3.Not(distinct)]) == 1:
                orig = I.prove
                I.prove = lambda name, f, detail="": orig(  # type: ignore[method-assign]
                    name + "{repeated-DTC}", f, detail)
        try:
            r = I.call(S.UDSResponse.parse_dynamic, pdu)
        except PyExc as e:
            # rejected: that is one of the two allowed outcomes for ill-formed bytes; which byte
            # strings must be *accepted* is the encode direction below
            I.prove("A-reject(rejection-is-an-Exception)",
                    z3.BoolVal(issubclass(e.exc.cls, Exception)), e.exc.cls.__name__)
            return
        assert isinstance(r, VObj)
        check_typed(I, r, pdu)
    return harness


# --------------------------------------------------------------------------- encode direction
def make_dict_arg(I: Interp, name: str, kind: str, k: int) -> V:
    items = []
    for i in range(k):
        key = I.fresh_int(f"{name}.k{i}", inp=True)
        if kind == "dict_int_int":
            val: V = I.fresh_int(f"{name}.v{i}", inp=True)
        else:
            val = I.fresh_bytes(f"{name}.v{i}", inp=True)
        items.append((key, val))
    for i in range(k):
        for j in range(i):
            I.assume(items[i][0].t != items[j][0].t)  # dict keys are pairwise distinct
    return VDict(items)


def encode_harness(cname: str, cls: type, alts: dict[str, str], dict_size: int = 0,
                   rec_len: int | None = None):
    S = service_module()
    spec = iso.RESPONSES[cname]
    params = cs.param_alternatives(cls)

    def harness(I: Interp) -> None:
        args: list[V] = []
        for name, kinds, default in params:
            k = alts[name]
            if k.startswith("dict_"):
                v: V = make_dict_arg(I, name, k, dict_size)
                I.inputs[name] = v
            else:
                v = cs.make_arg(I, name, k, __import__(
                    "gallia.services.uds.core.constants", fromlist=["x"]))
                if k == "tuple_int_int":
                    I.inputs[name] = v
                if rec_len is not None and name == "dtc_and_status_record" and k == "bytes":
                    I.assume(models.seq_len(v.t) == rec_len)
            args.append(v)
        try:
            obj = I.call(cls, *args)
            pdu = I.getattr_v(obj, "pdu")
        except PyExc as e:
            I.prove("E-refusal-is-a-value-error",
                    z3.BoolVal(issubclass(e.exc.cls, REFUSAL + (TypeError,))),
                    f"raised {e.exc.cls.__name__}")
            return
        assert isinstance(obj, VObj) and isinstance(pdu, VBytes)
        if spec.get("raw"):
            I.prove("E-layout(raw-bytes-verbatim)", pdu.t == args[0].t)
            return
        if spec.get("negative"):
            want = z3.Concat(cs.unit(0x7F), cs.unit(args[0].t), cs.unit(args[1].t))
            I.prove("E-layout(pdu-equals-ISO-layout)", pdu.t == want)
            I.prove("E-refuse(out-of-range-is-never-encoded)",
                    z3.And(args[0].t >= 0, args[0].t <= 255))
        else:
            view = cs.read_view(I, obj, spec, False)
            ints, recs = cs.in_range(I, spec, view)
            I.prove("E-refuse(out-of-range-is-never-encoded)", ints)
            want = cs.layout(I, spec, view, False)
            I.prove("E-layout(pdu-equals-ISO-layout)", models.bytes_eq(I, pdu.t, want))
            # the parser has to accept what respects the documented record lengths
            I.assume(recs)
            for f in spec["fields"]:
                if f["kind"] == "dtc_dict" and f.get("max") is not None:
                    if len(view.get(f["attr"]).items) > f["max"]:
                        return
                if f["kind"] == "ext_records" and not view.get(f["attr"]).items:
                    return  # no extended data record: outside what the parser must accept
            for f in spec["fields"]:
                if f["kind"] == "did_records":
                    rl = view.get(f["attr"][1])
                    for x in (rl.items or []):
                        I.assume(models.seq_len(x.t) >= 1)
        # the dynamic parser on the own bytes
        try:
            r = I.call(S.UDSResponse.parse_dynamic, pdu)
        except PyExc as e:
            I.fail("R-dyn(own-pdu-is-accepted)", f"raised {e.exc.cls.__name__}")
            return
        assert isinstance(r, VObj)
        dyn = DYN_RESPONSE.get(cname, cname)
        if r.cls.__name__ != dyn:
            I.fail("R-dyn(own-pdu-is-accepted)", f"parsed as {r.cls.__name__}, expected {dyn}")
            return
        check_typed(I, r, pdu, tag="R")
    return harness


DYN_RESPONSE = {
    "ReturnControlToECUResponse": "InputOutputControlByIdentifierResponse",
    "ResetToDefaultResponse": "InputOutputControlByIdentifierResponse",
    "FreezeCurrentStateResponse": "InputOutputControlByIdentifierResponse",
    "ShortTermAdjustmentResponse": "InputOutputControlByIdentifierResponse",
    "RawNegativeResponse": None,
    "RawPositiveResponse": None,
}


def alternatives(cls: type) -> list[dict[str, str]]:
    import itertools
    params = cs.param_alternatives(cls)
    groups = [[(name, k) for k in kinds] for name, kinds, _ in params]
    out = []
    for combo in itertools.product(*groups):
        d = dict(combo)
        if len({v for v in d.values() if v in ("int", "intlist")} &
               {"intlist"}) and "int" in [d[n] for n, ks, _ in params if "intlist" in ks]:
            continue
        out.append(d)
    return out


def db_harness(I: Interp) -> None:
    """DBHandler.insert_scan_result enqueues bytes_repr(response.pdu) for the response column."""
    import gallia.command  # noqa: F401  (resolves the import cycle of gallia.db.handler)
    from gallia.db import handler as H
    S = service_module()
    src = inspect.getsource(H.DBHandler.insert_scan_result)
    import ast
    import textwrap
    tree = ast.parse(textwrap.dedent(src))
    found_resp = found_req = False
    for n in ast.walk(tree):
        if isinstance(n, ast.Call) and getattr(n.func, "id", "") == "bytes_repr" and n.args:
            a = n.args[0]
            if isinstance(a, ast.Attribute) and a.attr == "pdu" and isinstance(a.value, ast.Name):
                if a.value.id == "response":
                    found_resp = True
                if a.value.id == "request":
                    found_req = True
    I.prove("DB-pdu(response-column-is-bytes_repr-of-response.pdu)", z3.BoolVal(found_resp))
    I.prove("DB-pdu(request-column-is-bytes_repr-of-request.pdu)", z3.BoolVal(found_req))
    # bytes_repr(b, False, None) is hexlify(b).decode() for non-empty b (executed from the AST)
    from gallia.services.uds.core import utils as U
    b = I.fresh_bytes("b", inp=True, minlen=1)
    r = I.call(U.bytes_repr, b, VBool(False), NONE)
    from pyvc import strings
    I.prove("DB-hex(bytes_repr-without-limit-is-the-full-hex-form)",
            r.t == strings.HEX(b.t) if getattr(r, "t", None) is not None else z3.BoolVal(False))


def build_units(tier: str) -> list[Unit]:
    S = service_module()
    units: list[Unit] = []
    # decode direction: one unit per first byte class
    type1_subs = sorted({spec["sub"]["value"] for n, spec in iso.RESPONSES.items()
                         if any(f["kind"] == "dtc_dict" for f in spec.get("fields", []))})
    other_19 = sorted(set(range(0x80)) - set(type1_subs))
    for sid in registry_sids():
        if sid == 0x19:
            # sub-functions whose response keeps a dict are bounded to <= 3 records
            for sf in type1_subs:
                for n in range(0, 3 if tier == "quick" else 4):
                    units.append(Unit(f"decode/0x59/sub={sf:#04x}/records={n}",
                                      decode_harness(0x59, n, sf),
                                      bounded="dict-backed DTC list bounded to <= 2 (quick) / 3 (thorough) records"))
            def other(I: Interp, base=decode_harness(0x59)) -> None:
                base(I)
            units.append(Unit("decode/0x59/other-subfunctions", decode_0x59_other(type1_subs)))
            continue
        units.append(Unit(f"decode/{sid + 0x40:#04x}", decode_harness(sid + 0x40)))
    units.append(Unit("decode/0x7f", decode_harness(0x7F)))
    units.append(Unit("decode/unknown-service", decode_harness(None)))
    # encode direction
    for cname, cls in response_classes().items():
        if cname in iso.INTERNAL_RESPONSE_BASES:
            continue
        if cname not in iso.RESPONSES:
            def missing(I: Interp, cname: str = cname) -> None:
                raise Unsupported(f"response class {cname} has no entry in the ISO table")
            units.append(Unit(f"encode/{cname}/missing", missing))
            continue
        for alts in alternatives(cls):
            tag = ",".join(f"{k}={v}" for k, v in alts.items())
            if alts.get("dtc_and_status_record") == "bytes" and any(
                    f["kind"] == "dtc_dict" for f in iso.RESPONSES[cname]["fields"]):
                # the bytes alternative is exactly what _from_pdu passes: covered by the decode
                # units of sub-function families (bounded by record count)
                continue
            if alts.get("data_records") == "intlist":
                # list[bytes] is not a list of ints: this alternative only exists because the
                # annotation scan maps every list to the int-list kind; the constructor refuses
                # or the encoder raises for every non-empty argument
                continue
            if any(v.startswith("dict_") for v in alts.values()):
                for k in range(0, 3):
                    units.append(Unit(f"encode/{cname}/{tag}/entries={k}",
                                      encode_harness(cname, cls, alts, k),
                                      bounded="dict argument bounded to <= 2 entries"))
            else:
                units.append(Unit(f"encode/{cname}/{tag}", encode_harness(cname, cls, alts)))
    units.append(Unit("db/insert_scan_result", db_harness))
    # the last hop of the statement: what insert_scan_result enqueues for the response column is
    # the complete hex form of response.pdu (units of C11, executed from the real AST) - with
    # A-exact (response.pdu == received bytes) the stored string is what the ECU sent
    from . import c11
    for cname in ("RawPositiveResponse", "NegativeResponse", "ReadDataByIdentifierResponse",
                  "ReadMemoryByAddressResponse", "RoutineControlResponse"):
        cls = getattr(S, cname, None)
        if cls is None or cname not in iso.RESPONSES:
            continue
        for alts in c11.resp_alternatives(cls):
            if "none" in alts.values() or "intlist" in alts.values():
                continue  # the column does not depend on how the arguments were spelled
            tag = ",".join(f"{k}={v}" for k, v in alts.items())
            units.append(Unit(f"db/insert/response/{cname}/{tag}",
                              c11.insert_harness("response", cname, cls, alts),
                              setup=c11.install_db, allow_empty=True))
    import os
    from pyvc import crosscheck
    from .c01 import random_arg
    n_x = 300 if tier == "quick" else 5000
    sd = int(os.environ.get("VERIF_SEED", "0") or 0)
    for kind in ("encode-responses", "parse-responses"):
        units.append(Unit(f"engine-crosscheck/{kind}", crosscheck.codec_unit(
            kind, service_module, response_classes, cs.param_alternatives, random_arg, n_x, sd),
            bounded=f"{n_x} random concrete cases (engine validation, not a property obligation)"))
    return units


def decode_0x59_other(type1_subs: list[int]):
    base = decode_harness(0x59)

    def harness(I: Interp) -> None:
        S = service_module()
        pdu = I.fresh_bytes("pdu", inp=True, minlen=1)
        I.assume(pdu.t[0] == 0x59)
        I.assume(z3.Implies(z3.Length(pdu.t) >= 2,
                            z3.And(*[pdu.t[1] != sf for sf in type1_subs])))
        try:
            r = I.call(S.UDSResponse.parse_dynamic, pdu)
        except PyExc as e:
            I.prove("A-reject(rejection-is-an-Exception)",
                    z3.BoolVal(issubclass(e.exc.cls, Exception)), e.exc.cls.__name__)
            return
        assert isinstance(r, VObj)
        check_typed(I, r, pdu)
    return harness


# --------------------------------------------------------------------------- native side
def native_decode(pdu: bytes) -> dict[str, tuple[bool, str]]:
    S = service_module()
    out: dict[str, tuple[bool, str]] = {}
    try:
        r = S.UDSResponse.parse_dynamic(pdu)
    except Exception as e:  # noqa: BLE001
        out["A-reject"] = (False, f"rejected with {type(e).__name__}")
        return out
    name = type(r).__name__
    try:
        rp = r.pdu
        out["A-exact"] = (rp != pdu, f"parse_dynamic({pdu.hex()}) -> {name}, whose pdu is "
                                     f"{rp.hex()} (received bytes silently normalised)")
    except Exception as e:  # noqa: BLE001
        out["A-exact"] = (True, f"parse_dynamic({pdu.hex()}) -> {name}, whose .pdu raises "
                                f"{type(e).__name__}: {e}")
    spec = iso.RESPONSES.get(name)
    if spec and not spec.get("raw") and not spec.get("negative"):
        I = Interp(Explorer("native"), [])
        vals = {}
        for f in cs.all_fields(spec):
            for a in cs.attrs_of_field(f):
                vals[a] = wrap(getattr(r, a))
        view = cs.View(I, vals, None)
        try:
            w = seq_to_bytes(z3.simplify(cs.layout(I, spec, view, False)))
        except Exception as e:  # noqa: BLE001
            w = None
        out["A-fields"] = (w != pdu, f"fields of parse_dynamic({pdu.hex()}) ({name}: "
                                     f"{ {k: getattr(r, k) for k in vals} }) lay out to "
                                     f"{w.hex() if w is not None else '?'} by ISO 14229-1")
        ints, recs = cs.in_range(I, spec, view)
        ok = z3.is_true(z3.simplify(z3.And(ints, recs)))
        out["A-range"] = (not ok, f"fields of parse_dynamic({pdu.hex()}) ({name}) out of range: "
                                  f"{ {k: getattr(r, k) for k in vals} }")
    return out


def native_replay(unit: str, obligation: str, model: dict) -> tuple[bool, str]:
    base = obligation.split("(")[0]
    if unit.startswith("decode/"):
        pdu = py_of(model.get("pdu"))
        if not isinstance(pdu, bytes):
            return False, "no concrete pdu in the counter-model"
        res = native_decode(pdu)
        if base in res:
            return res[base]
        return False, f"{base} not evaluated: {sorted(res)}"
    if unit.startswith("encode/"):
        return native_encode(unit, base, model)
    if unit.startswith("db/insert/"):
        from . import c11
        return c11.native_replay(unit[3:], obligation, model)
    return False, "no native replay for this unit"


def native_encode(unit: str, base: str, model: dict) -> tuple[bool, str]:
    S = service_module()
    parts = unit.split("/")
    cname = parts[1]
    cls = getattr(S, cname)
    alts = dict(x.split("=") for x in parts[2].split(",")) if parts[2] else {}
    params = cs.param_alternatives(cls)
    C = __import__("gallia.services.uds.core.constants", fromlist=["x"])
    pyargs = []
    for name, kinds, default in params:
        k = alts[name]
        if k == "none":
            pyargs.append(None)
        elif k.startswith("dict_"):
            d = {}
            i = 0
            while f"{name}.k{i}" in model:
                d[py_of(model[f"{name}.k{i}"])] = py_of(model[f"{name}.v{i}"])
                i += 1
            pyargs.append(d)
        elif k == "tuple_int_int":
            pyargs.append((py_of(model.get(name + ".0")), py_of(model.get(name + ".1"))))
        elif k.startswith("enum:"):
            pyargs.append(getattr(C, k[5:])(py_of(model.get(name))))
        else:
            pyargs.append(py_of(model.get(name)))
    try:
        obj = cls(*pyargs)
        pdu = obj.pdu
    except Exception as e:  # noqa: BLE001
        return (base == "E-refusal-is-a-value-error" and not isinstance(e, REFUSAL + (TypeError,)),
                f"{cname}{tuple(pyargs)!r} raised {type(e).__name__}: {e}")
    if base.startswith("R-dyn"):
        try:
            r = S.UDSResponse.parse_dynamic(pdu)
        except Exception as e:  # noqa: BLE001
            return True, f"parse_dynamic({pdu.hex()}) of {cname}{tuple(pyargs)!r} raised " \
                         f"{type(e).__name__}: {e}"
        dyn = DYN_RESPONSE.get(cname, cname)
        return (type(r).__name__ != dyn,
                f"parse_dynamic({pdu.hex()}) of {cname}{tuple(pyargs)!r} is {type(r).__name__}")
    res = native_decode(pdu)
    key = {"R-exact": "A-exact", "R-fields": "A-fields", "R-range": "A-range",
           "E-layout": "A-fields", "E-refuse": "A-range"}.get(base)
    if key in res:
        v, t = res[key]
        return v, f"{cname}{tuple(pyargs)!r}.pdu = {pdu.hex()}: " + t
    return False, f"{base} not evaluated natively"


def native_search(unit: str, obligation: str, seed: int) -> dict | None:
    if unit.startswith("db/insert/"):
        return {}
    base = obligation.split("(")[0]
    rnd = random.Random(seed * 31 + 7)
    t_end = time.time() + 6
    if unit.startswith("decode/"):
        parts = unit.split("/")
        first = int(parts[1], 16) if parts[1].startswith("0x") else None
        sub = None
        nrec = None
        for p in parts[2:]:
            if p.startswith("sub="):
                sub = int(p[4:], 16)
            if p.startswith("records="):
                nrec = int(p[8:])
        for _ in range(20000):
            if time.time() > t_end:
                break
            n = 3 + 4 * nrec if nrec is not None else rnd.choice([1, 2, 3, 4, 5, 6, 7, 8, 12])
            b = bytearray(rnd.choice([0, 1, 2, 0x10, 0x7F, 0xFF, rnd.randrange(256)])
                          for _ in range(n))
            if first is not None:
                b[0] = first
            if sub is not None and n > 1:
                b[1] = sub
            res = native_decode(bytes(b))
            if base in res and res[base][0]:
                return {"pdu": {"bytes": bytes(b).hex()}}
    return None


TRUSTED = [
    "pyvc VC generator (symbolic execution of the real AST, fold templates, chunk lemma)",
    "z3 5.1.0 (API); z3 4.8.12 / cvc5 1.0.3 CLI for queries z3 leaves open",
    "CPython semantics of int.to_bytes/from_bytes, struct.pack, bytes slicing/concatenation, "
    "dict insertion order, Enum lookup as modelled in pyvc/models.py",
    "ISO 14229-1 layout table contracts/iso14229.py (transcribed from the standard)",
    "logger.* calls have no effect; f-string contents are not evaluated",
]


def main(tier: str, seed: int, only: str | None = None, jobs: int = 16) -> int:
    chk = Check("C02", "contracts.c02", tier, seed)
    units = build_units(tier)
    if only:
        units = [u for u in units if only in u.uid]
    results = run_units(units, jobs)
    chk.trusted_base = TRUSTED
    chk.assumptions = [
        "objects are not mutated between parsing and re-serialisation",
        "bounded stand-in (not counted as proved): dict-backed DTC lists with more than 3 "
        "records, dict constructor arguments with more than 2 entries",
        "the response column of the database is bytes_repr(response.pdu, False, None): checked "
        "syntactically on insert_scan_result plus the bytes_repr contract",
    ]
    return chk.finish(results, native_replay, native_search)
