"""C09 - the session scan reports exactly the sessions reachable within the depth limit.

BOUNDED STAND-IN ONLY - nothing here is counted as proved (DESIGN 5, C09).

The statement is a reachability property of the closed loop "scanner + arbitrary transition
graph"; the inductive invariant over found / searched_sessions / the re-entered stack and the
request history of `SessionsScanner.main` (five nested loops, six handlers) is outside what the
VC generator decides.  What runs instead: an icontract postcondition, written from the statement,
on a sidecar wrapper that drives the *real* `SessionsScanner.main` through the *real* `ECU`
client (`set_session`, `diagnostic_session_control`, request encoding, response parsing) against
a ghost ECU at the transport level, for a complete family of small transition graphs:

    quick     all 64 relations  T <= {1,2,3} x {2,3}           x depth 1..4 x skip <= {2,3}
              x thorough on/off, + VERIF_SEED-seeded graphs on <= 8 sessions
    thorough  all 4096 relations T <= {1,2,3,0x7F} x {2,3,0x7F} x depth 1..5 x skip x thorough
              x reset on/off x 3 negative-response policies, + seeded graphs

The transition to the default session is always present (ISO 14229-1; without it the scanner
legitimately exits with code 1 in `_recover_stack`).  "Reachable" = by a non-empty path.
"""
from __future__ import annotations

import asyncio
import itertools
import logging
import os
import random
import sys
from typing import Any, Callable

import icontract
import z3

from pyvc.engine import Interp
from pyvc.runner import Check, Unit, run_units

SFNS, SFNSIAS, CNC = 0x12, 0x7E, 0x22


def _mods() -> Any:
    import gallia.command  # noqa: F401
    from gallia.commands.scan.uds import sessions
    from gallia.services.uds import ecu
    from gallia.transports import base
    return sessions, ecu, base


class NonTermination(Exception):
    pass


def make_ghost_transport(T: set[tuple[int, int]], nrc_of: Callable[[int, int], int],
                         budget: int) -> Any:
    _, _, base = _mods()

    class GhostTransport(base.BaseTransport, scheme="ghost"):
        def __init__(self) -> None:
            self.mutex = asyncio.Lock()
            self.is_closed = False
            self.session = 1
            self.requested: list[tuple[int, int, bool]] = []  # (current, wanted, positive)
            self.pending: list[bytes] = []
            self.n = 0

        async def connect(self, *a: Any, **k: Any) -> Any:
            return self

        async def close(self) -> None:
            pass

        async def write(self, data: bytes, timeout: float | None = None,
                        tags: list[str] | None = None) -> int:
            self.n += 1
            if self.n > budget:
                raise NonTermination(f"more than {budget} requests")
            if data[0] == 0x10 and len(data) == 2:
                want = data[1] & 0x7F
                if (self.session, want) in T:
                    self.requested.append((self.session, want, True))
                    self.session = want
                    self.pending.append(bytes([0x50, want, 0x00, 0x32, 0x01, 0xF4]))
                else:
                    self.requested.append((self.session, want, False))
                    self.pending.append(bytes([0x7F, 0x10, nrc_of(self.session, want)]))
            elif data[0] == 0x11 and len(data) == 2:
                if getattr(nrc_of, "reset_refused", False) and self.session != 1:
                    # an ECU that refuses the reset outside the default session
                    self.pending.append(bytes([0x7F, 0x11, CNC]))
                else:
                    self.session = 1
                    self.pending.append(bytes([0x51, data[1]]))
            elif data[0] == 0x3E:
                self.pending.append(bytes([0x7E, 0x00]))
            else:
                self.pending.append(bytes([0x7F, data[0], 0x11]))
            return len(data)

        async def read(self, timeout: float | None = None,
                       tags: list[str] | None = None) -> bytes:
            if not self.pending:
                raise TimeoutError
            return self.pending.pop(0)

    return GhostTransport()


class WarpLoop(asyncio.SelectorEventLoop):
    """Event loop with virtual time: a pending timer is reached by advancing the clock instead of
    waiting (the scanner's reset path sleeps 0.5 s per probe in ECU.wait_for_ecu)."""

    def __init__(self) -> None:
        super().__init__()
        self._vt = 0.0

    def time(self) -> float:
        return self._vt

    def _run_once(self) -> None:  # type: ignore[override]
        if not self._ready and self._scheduled:  # type: ignore[attr-defined]
            self._vt = max(self._vt, self._scheduled[0]._when)  # type: ignore[attr-defined]
        super()._run_once()  # type: ignore[misc]


class FakeDB:
    """Database handler of the scan.  It already holds the session transitions of an earlier,
    deeper scan of the same ECU (every session of the graph with a shortest path): the scan
    itself probes with use_db=False and must not be influenced by that history."""

    def __init__(self, T: set[tuple[int, int]] | None = None) -> None:
        self.rows: list[tuple[int, list[int]]] = []
        self.lookups = 0
        self.history: dict[int, list[int]] = {}
        if T:
            paths: dict[int, list[int]] = {1: [1]}
            todo = [1]
            while todo:
                c = todo.pop(0)
                for a, b in sorted(T):
                    if a == c and b not in paths:
                        paths[b] = paths[c] + [b]
                        todo.append(b)
            self.history = {s: p[:-1] for s, p in paths.items() if s != 1}

    async def insert_session_transition(self, session: int, stack: list[int]) -> None:
        self.rows.append((int(session), [int(x) for x in stack]))

    async def get_session_transition(self, level: int) -> list[int] | None:
        self.lookups += 1
        return self.history.get(int(level))

    async def insert_scan_result(self, *a: Any, **k: Any) -> None:
        return None


def expected_reachable(T: set[tuple[int, int]], depth: int, skip: set[int]) -> dict[int, int]:
    """session -> length of the shortest non-empty path from the default session that only
    probes sessions outside `skip` (spec function, written from the statement)."""
    dist: dict[int, int] = {}
    frontier = {1}
    for d in range(1, depth + 1):
        nxt = set()
        for c in frontier:
            for (a, b) in T:
                if a == c and b not in skip and b not in dist:
                    dist[b] = d
                    nxt.add(b)
        frontier = nxt
    return dist


def _post(T: set, depth: int, skip: set, thorough: bool, result: dict) -> bool:
    return not result["problems"]


@icontract.ensure(lambda T, depth, skip, thorough, result: _post(T, depth, skip, thorough, result),
                  "session scan postcondition")
def run_scan(T: set[tuple[int, int]], depth: int, skip: set[int], thorough: bool,
             nrc: str = "sfns", reset: bool = False, with_hooks: bool = False) -> dict:
    """Drive the real SessionsScanner.main and evaluate the postcondition of the statement."""
    sessions_mod, ecu_mod, _ = _mods()
    nrc_of = {"sfns": lambda c, s: SFNS, "ias": lambda c, s: SFNSIAS if (c + s) % 2 else SFNS,
              "cnc": lambda c, s: CNC if s % 2 else SFNS}[nrc.split("+")[0]]
    if nrc.endswith("+noreset"):
        nrc_of.reset_refused = True  # type: ignore[attr-defined]
    nodes = {a for e in T for a in e} | {1}
    n_stacks = sum(len(nodes) ** d for d in range(depth + 1))
    budget = (127 * 2 + depth + 3) * n_stacks * (3 if reset else 1) + 100
    cfg = sessions_mod.SessionsScannerConfig(
        target="tcp-lines://127.0.0.1:1", depth=depth,
        skip=",".join(str(s) for s in sorted(skip)) if skip else "", thorough=thorough,
        reset=1 if reset else None, with_hooks=with_hooks, db=None)
    scanner = sessions_mod.SessionsScanner(cfg)
    tr = make_ghost_transport(T, nrc_of, budget)
    scanner.ecu = ecu_mod.ECU(tr, timeout=0.5)
    scanner.ecu.implicit_logging = False
    db = FakeDB(T)
    scanner.db_handler = db  # type: ignore[assignment]
    scanner.ecu.db_handler = db  # type: ignore[assignment]  # as UDSScanner.setup does
    problems: list[str] = []
    aborted = None
    try:
        with asyncio.Runner(loop_factory=WarpLoop) as runner:
            runner.run(scanner.main())
    except SystemExit as e:
        aborted = f"sys.exit({e.code})"
    except NonTermination as e:
        aborted = f"non-termination: {e}"
    except Exception as e:  # noqa: BLE001
        aborted = f"{type(e).__name__}: {e}"
    if aborted:
        problems.append(f"scan did not finish: {aborted}")
    exp = expected_reachable(T, depth, skip)
    res = list(scanner.result)
    if not aborted:
        if sorted(set(res)) != sorted(exp):
            problems.append(f"reported {sorted(set(res))}, reachable within depth {depth}: "
                            f"{sorted(exp)}")
        if res != sorted(set(res)):
            problems.append(f"result not sorted/distinct: {res}")
        positive_rows = [(s, st) for s, st in db.rows if s in res]
        seen_rows = set()
        for s, st in db.rows:
            if s not in exp:
                continue
            seen_rows.add(s)
            path = st + [s]
            if not st or st[0] != 1:
                problems.append(f"stack for {s} does not start in the default session: {st}")
            elif any((a, b) not in T for a, b in zip(path, path[1:])):
                problems.append(f"reported path {path} is not a path of the ECU")
            elif len(st) > depth:
                problems.append(f"reported path {path} is longer than depth {depth}")
        for s in exp:
            if s not in seen_rows:
                problems.append(f"no path reported for session {s}")
        del positive_rows
    if db.lookups:
        problems.append(f"the scan consulted the stored session transitions {db.lookups} times "
                        f"(probes are made with use_db=False)")
    for cur, want, _ in tr.requested:
        if want in skip and want != 1:
            problems.append(f"skipped session {want} was requested (from {cur})")
            break
    if 1 in skip and any(w == 1 and c == 1 and False for c, w, _ in tr.requested):
        pass  # the default session as stack base is exempt (DESIGN, C09 note)
    return {"problems": problems, "result": res, "expected": sorted(exp), "requests": tr.n,
            "rows": db.rows[:6]}


def describe(case: tuple) -> str:
    T, depth, skip, thorough, nrc, reset, hooks = case
    return (f"T={sorted(T)} depth={depth} skip={sorted(skip)} thorough={thorough} nrc={nrc} "
            f"reset={reset} with_hooks={hooks}")


def cases(tier: str, seed: int) -> list[tuple]:
    out: list[tuple] = []
    if tier == "quick":
        nodes, targets, depths = [1, 2, 3], [2, 3], [1, 2, 3, 4]
        extra = [("sfns", False, False)]
    else:
        nodes, targets, depths = [1, 2, 3, 0x7F], [2, 3, 0x7F], [1, 2, 3, 4, 5]
        extra = [("sfns", False, False), ("ias", False, False), ("cnc", False, True),
                 ("sfns", True, False)]
    edges = [(a, b) for a in nodes for b in targets]
    back = {(a, 1) for a in nodes}
    for bits in range(1 << len(edges)):
        T = back | {e for i, e in enumerate(edges) if bits >> i & 1}
        for depth in depths:
            for k in range(len(targets) + 1):
                for skip in itertools.combinations(targets, k):
                    if tier != "quick" and len(skip) > 1 and bits % 7:
                        continue
                    for thorough in (False, True):
                        if thorough and depth > 3 and tier != "quick" and bits % 5:
                            continue
                        for nrc, reset, hooks in extra:
                            if (reset or nrc != "sfns") and (bits + depth) % 4:
                                continue
                            out.append((T, depth, set(skip), thorough, nrc, reset, hooks))
    # seeded larger graphs: cycles, chains longer than depth, unreachable components
    rnd = random.Random(seed)
    for i in range(40 if tier == "quick" else 300):
        n = rnd.randint(4, 8)
        ns = [1] + rnd.sample(range(2, 0x80), n - 1)
        T = {(a, 1) for a in ns}
        dens = rnd.choice([0.1, 0.25, 0.5])
        for a in ns:
            for b in ns[1:]:
                if rnd.random() < dens:
                    T.add((a, b))
        if i % 3 == 0:  # a chain longer than the depth limit
            for a, b in zip(ns, ns[1:]):
                T.add((a, b))
        depth = rnd.randint(1, 5)
        skip = set(rnd.sample(ns[1:], rnd.randint(0, 2)))
        thorough = rnd.random() < 0.3 and depth <= 3
        out.append((T, depth, skip, thorough, rnd.choice(["sfns", "ias", "cnc"]), False,
                    rnd.random() < 0.3))
    return out


def run_chunk(args: tuple[str, int, int, int]) -> dict:
    tier, seed, k, n = args
    logging.disable(logging.CRITICAL)
    allc = cases(tier, seed)
    random.Random(20261001).shuffle(allc)  # balance the chunks; the family itself is unchanged
    cs = allc[k::n]
    bad: list[dict] = []
    req = 0
    nontrivial: set[str] = set()
    samples: list[dict] = []
    for c in cs:
        try:
            r = run_scan(*c)
            req += r["requests"]
            # non-trivial: the scan has to leave the default session's neighbourhood or honour
            # a skip list / a cycle: more than one reachable session or something unreachable
            T_, depth_, skip_ = c[0], c[1], c[2]
            nodes = {a for e in T_ for a in e}
            full = set(expected_reachable(T_, 200, set()))
            cut = set(r["expected"]) != full            # the depth limit or the skip list bites
            deep = any(d >= 2 for d in expected_reachable(T_, depth_, skip_).values())
            island = bool(nodes - full - {1})            # sessions no path leads to
            if cut or deep or island:
                nontrivial.add(describe(c))
            if len(samples) < 2 and len(r["expected"]) > 1:
                samples.append({"case": describe(c), "reported": r["result"],
                                "requests": r["requests"], "rows": r["rows"][:3]})
        except icontract.ViolationError:
            r = run_scan.__wrapped__(*c) if hasattr(run_scan, "__wrapped__") else None
            bad.append({"case": describe(c), "problems": (r or {}).get("problems", ["?"])[:3]})
    return {"n": len(cs), "bad": bad[:5], "n_bad": len(bad), "requests": req,
            "distinct_nontrivial": len(nontrivial), "samples": samples}


def standin_unit(tier: str, seed: int, k: int, n: int):
    def harness(I: Interp) -> None:
        r = run_chunk((tier, seed, k, n))
        I.ghost["standin"] = r
        I.ex.extra.update({
            "evaluations": r["n"], "distinct_nontrivial": r["distinct_nontrivial"],
            "samples": r["samples"], "exhaustive": False,
            "rule": "one case = one run of the real SessionsScanner.main against a ghost ECU "
                    "(transition relation, depth, skip list, thorough, NRC policy, reset); all "
                    "relations of the stated family are enumerated, seeded larger graphs are "
                    "sampled; distinct = distinct case descriptions; non-trivial = more than "
                    "one reachable session, or an unreachable session, or a skip list"})
        detail = "; ".join(f"{b['case']}: {b['problems']}" for b in r["bad"][:2])
        I.prove(f"B-scan-postcondition-holds-on-every-graph-of-the-family"
                f"(chunk-{k}/{n},bounded-standin)",
                z3.BoolVal(r["n_bad"] == 0),
                detail or f"{r['n']} scans, {r['requests']} requests")
        I.prove(f"B-family-not-empty(chunk-{k})", z3.BoolVal(r["n"] > 0))
    return harness


def build_units(tier: str, seed: int = 0) -> list[Unit]:
    n = 16 if tier == "quick" else 64
    from . import c09_proof
    us = c09_proof.proof_units()
    bound = ("all relations on 3 sessions x depth 1..4 x skip x thorough (quick) / on 4 sessions "
             "x depth 1..5 (thorough, sub-sampled for skip>1, thorough>3, reset, NRC policies) "
             "+ seeded graphs on <= 8 sessions")
    for k in range(n):
        us.append(Unit(f"standin/scan/chunk-{k}", standin_unit(tier, seed, k, n), bounded=bound))
    return us


def native_replay(unit: str, obligation: str, model: dict) -> tuple[bool, str]:
    logging.disable(logging.CRITICAL)
    tier = os.environ.get("VERIF_TIER", "quick")
    # boundary sessions first (the first and the last sub-function value, a long chain), then
    # the quick family of the stand-in
    edge: list[tuple] = []
    for hi in (0x7F, 0x7E, 0x02):
        for depth in (1, 2):
            edge.append(({(1, 1), (hi, 1), (1, hi)}, depth, set(), False, "sfns", False, False))
            edge.append(({(1, 1), (2, 1), (hi, 1), (1, 2), (2, hi)}, depth, set(), True, "sfns",
                         False, False))
    edge.append(({(1, 1), (2, 1), (3, 1), (1, 2), (2, 3), (3, 2)}, 3, {3}, False, "cnc", True,
                 True))
    for depth in (1, 2):  # --reset against an ECU that refuses the reset outside the default session
        edge.append(({(1, 1), (2, 1), (3, 1), (1, 2), (2, 3)}, depth, set(), False,
                     "sfns+noreset", True, False))
        edge.append(({(1, 1), (2, 1), (3, 1), (4, 1), (1, 2), (2, 3), (3, 4), (1, 4)}, depth, set(),
                     True, "sfns+noreset", True, False))
    for c in edge + cases("quick", int(os.environ.get("VERIF_SEED", "0"))):
        try:
            run_scan(*c)
        except icontract.ViolationError:
            r = run_scan.__wrapped__(*c)
            return True, f"{describe(c)}: {r['problems'][:3]} (result={r['result']})"
    return False, "stand-in holds on the quick family"


def native_search(unit: str, obligation: str, seed: int) -> dict | None:
    return {}


def main(tier: str, seed: int, only: str | None = None, jobs: int = 16) -> int:
    chk = Check("C09", "contracts.c09", tier, seed)
    units = build_units(tier, seed)
    if only:
        units = [u for u in units if only in u.uid]
    results = run_units(units, jobs)
    chk.level = "proof"
    chk.trusted_base = [
        "pyvc VC generator (Hoare rule per loop with sidecar invariants, container element "
        "invariants checked at every append), z3 5.1.0",
        "ghost ECU = the statement's ECU model: DSC(s) in session c is answered positively and "
        "moves to s iff T(c, s) for an uninterpreted relation T, otherwise a negative response and "
        "no state change; the ECU always answers (timeouts are outside the statement's model)",
        "contract of sorted(entries, key=session): a permutation with non-decreasing keys",
        "stand-in only: the transition to the default session exists from every session "
        "(ISO 14229-1); 'never requested' read as 'never probed' (the default session as stack "
        "base is exempt)",
    ]
    chk.assumptions = [
        "PROVED (no bound on graph, depth, skip list; both settings of thorough / with_hooks / "
        "reset / database): soundness of every reported session and stack, skipped sessions are "
        "never probed and never on a stack, per-iteration coverage (every non-skipped session "
        "1..0x7F probed exactly once from every processed stack in the stack's last session; a "
        "frontier stack is left out only if its last session was searched before), termination "
        "variant depth - current_depth, report = strictly increasing distinct sessions each stored "
        "with its own stack; helper contracts (set_session_with_hooks_handling, _recover_stack, "
        "ECU.set_session in scan mode)",
        "NOT machine-checked: the induction over BFS levels from the per-iteration coverage "
        "obligations to 'every session within depth changes is reported' - this half is covered "
        "by the BOUNDED STAND-IN units standin/scan/* only (icontract postcondition at run time "
        "on the real scanner + real ECU client over a complete family of small graphs), labelled "
        "bounded and not counted as proved",
        "exception handlers of main for TimeoutError / other exceptions during a probe are not "
        "explored (the statement's ECU always answers)",
    ]
    return chk.finish(results, native_replay, native_search)
