"""C10 - service and identifier scans report what the ECU really supports, nothing else
(proved-partial, DESIGN 5/C10).

  ServicesScanner.perform_scan   Hoare rule on `while sid < 0xFF` with a ghost response oracle
      (the outcome of every probe is an unconstrained choice): in one arbitrary iteration the
      service id advances by exactly one (variant 0xFF - sid: every id 0x00..0xFF once),
      response ids are probed only when asked, skipped ids are not probed, probes are
      [sid] ++ 0^n for n = 1, 2, 3, 5 in that order up to the first decisive answer
      (serviceNotSupported[/InActiveSession] -> not reported; anything other than a timeout, an
      illegal response or incorrectMessageLength -> reported with that answer), no other key of
      the result changes, the session check precedes the probes
  ServicesScanner.main           session list = sessions minus fully skipped ones; a session is
      scanned only after a positive set_session answer; the result pairs are the findings
  ScanIdentifiers.perform_scan   PDU construction per service (0x27 / 0x31 / others), the
      product loop visits start..end x sub-functions (end capped at 0x7F for 0x27), counters:
      positive = #positive replies, abnormal = #negative replies outside the four "expected"
      codes, timeout = #TimeoutError
  helpers.suggests_*_not_supported = membership in the three NRC sets
Assumption (evidence): the ECU answers as a function of (session, pdu) during one scan and
decides serviceNotSupported on the service id alone.
"""
from __future__ import annotations

import sys
from typing import Any

import z3

from pyvc import loops, models
from pyvc.engine import Explorer, Frame, Interp, PyExc
from pyvc.runner import Check, Unit, run_units
from pyvc.values import (NONE, V, VBool, VBytes, VConst, VDict, VFloat, VInt, VList, VObj, VStr,
                         VSymMap, VTuple)

from . import transport_env as te
from .c15 import Stub, coro

SNS, SNSIAS, IMLOIF, ROOR, SFNS = 0x11, 0x7F, 0x13, 0x31, 0x12
INRES = z3.Function("IN_RESULT", z3.IntSort(), z3.BoolSort())
SKIPPED = z3.Function("SKIPPED", z3.IntSort(), z3.BoolSort())


def mods() -> Any:
    import gallia.command  # noqa: F401
    from gallia.commands.scan.uds import identifiers, services
    from gallia.services.uds.core import exception as X
    from gallia.services.uds.core import service as S
    return services, identifiers, S, X


def mk_neg(I: Interp, S: Any, code: Any) -> VObj:
    from gallia.services.uds.core.constants import UDSErrorCodes
    return VObj(S.NegativeResponse, {"request_service_id": I.fresh_int("rsid", 0, 255),
                                     "response_code": VInt(code, UDSErrorCodes)})


ANSWERS = ["timeout", "malformed", "mismatch", "sns", "snsias", "imloif", "other-negative",
           "positive"]


def send_raw_contract(I: Interp, S: Any, X: Any) -> Any:
    def send_raw(I2: Interp, recv: V, args: list[V], kwargs: dict[str, V]) -> V:
        def go() -> V:
            k = I2.choose([z3.BoolVal(True)] * len(ANSWERS))
            a = ANSWERS[k]
            I2.ghost["probes"].append((args[0], a, kwargs.get("config")))
            if a == "timeout":
                I2.raise_py(TimeoutError, "no answer")
            if a == "malformed":
                raise PyExc(VObj(X.MalformedResponse, {"args": VTuple([])}))
            if a == "mismatch":
                raise PyExc(VObj(X.RequestResponseMismatch, {"args": VTuple([])}))
            if a == "sns":
                r = mk_neg(I2, S, SNS)
            elif a == "snsias":
                r = mk_neg(I2, S, SNSIAS)
            elif a == "imloif":
                r = mk_neg(I2, S, IMLOIF)
            elif a == "other-negative":
                c = I2.fresh_int("nrc", 0, 255)
                I2.assume(z3.And(c.t != SNS, c.t != SNSIAS, c.t != IMLOIF))
                I2.ghost["last_nrc"] = c.t
                r = mk_neg(I2, S, c.t)
            else:
                r = VObj(S.RawPositiveResponse, {"_pdu": I2.fresh_bytes("pos", minlen=1)})
            I2.ghost["last_reply"] = r
            return r
        return coro(go)
    return send_raw


def services_scan_harness(session_given: bool):
    def harness(I: Interp) -> None:
        services, identifiers, S, X = mods()
        scan_resp = I.fresh_bool("scan_response_ids", inp=True)
        check_sess = I.fresh_bool("check_session", inp=True)
        sess: V = I.fresh_int("session", 0, 0x7F, inp=True) if session_given else NONE
        skip_kind = I.choose([z3.BoolVal(True)] * 3)  # session not in skip / None / id list
        skiplist = VList(None, z3.Int("n_skip"), lambda j: VInt(z3.Int("unused")),
                         member=lambda v: SKIPPED(models.as_int(I, v)))
        skip = VSymMap(z3.Int("n_skip_sessions"), lambda j: VInt(z3.Int("unused")),
                       lambda k: z3.BoolVal(skip_kind != 0 and (k is sess or
                                                               (k is NONE and sess is NONE))),
                       lambda k: NONE if skip_kind == 1 else skiplist, "skip")
        cfg = VObj(Stub, {"scan_response_ids": scan_resp, "check_session": check_sess,
                          "skip": skip}, lazy=True, tag="cfg")
        ecu = te.stub("ecu")
        I.ghost.update({"probes": [], "session_checks": 0})
        I.ex.stubs[("ecu", "send_raw")] = send_raw_contract(I, S, X)
        sess_ok = {"v": True}

        def check_and_set(I2: Interp, recv: V, args: list[V], kwargs: dict[str, V]) -> V:
            def go() -> V:
                I2.ghost["session_checks"] += 1
                I2.ghost["probes_at_check"] = len(I2.ghost["probes"])
                ok = I2.choose([z3.BoolVal(True)] * 2) == 0
                sess_ok["v"] = ok
                return VBool(ok)
            return coro(go)
        I.ex.stubs[("ecu", "check_and_set_session")] = check_and_set
        scanner = VObj(services.ServicesScanner, {"config": cfg, "ecu": ecu})
        st: dict[str, Any] = {}

        def processed(I2: Interp, fr: Frame) -> Any:
            """number of service ids handled so far - the same notion for the counter loop
            (`sid` is the last id handled) and for a `for sid in range(...)` loop"""
            if "__k0" in fr.env:
                return models.as_int(I2, fr.env["__k0"])
            return models.as_int(I2, fr.env["sid"]) + 1

        def havoc(I2: Interp, fr: Frame) -> None:
            if "__k0" not in fr.env:
                fr.env["sid"] = I2.fresh_int("sid", -1, 0xFE)
            st["cr0"] = I2.fresh_bool("clean0")
            fr.env["clean_returns"] = st["cr0"]
            fr.env["result"] = VSymMap(z3.Int("n_res"), lambda j: VInt(z3.Int("unused")),
                                       lambda k: INRES(models.as_int(I2, k)),
                                       lambda k: VObj(Stub, {}, tag="earlier-result"), "result")
            st["result"] = fr.env["result"]
            I2.ghost["probes"] = []
            I2.ghost["session_checks"] = 0
            I2.ghost["map_writes"] = []
            for n in ("pdu", "resp", "length_payload", "session_skip"):
                fr.env.pop(n, None)
                fr.poison.add(n)

        def inv(I2: Interp, fr: Frame) -> list[tuple[str, Any]]:
            done = processed(I2, fr)
            out = [("service-id-in-range", z3.And(done >= 0, done <= 0x100))]
            if I2.ghost["__loop_phase"] == "assume":
                st["p0"] = done
            if I2.ghost["__loop_phase"] != "preserved":
                return out
            cur = st["p0"]  # the id this iteration handles
            out.append(("advances-by-exactly-one-service-id", done == cur + 1))
            probes = I2.ghost["probes"]
            writes = I2.ghost.get("map_writes", [])
            respid = (cur / 64) % 2 == 1
            sr = I2.truth(scan_resp)
            skipped = z3.BoolVal(skip_kind == 1) if skip_kind != 2 else SKIPPED(cur)
            must_probe = z3.And(z3.Or(z3.Not(respid), sr), z3.Not(skipped))
            out.append(("probed-iff-not-an-unrequested-response-id-and-not-skipped",
                        z3.BoolVal(len(probes) > 0) == must_probe
                        if (len(probes) > 0 or I2.ghost["session_checks"] == 0
                            or sess_ok["v"]) else z3.BoolVal(True)))
            lens = [1, 2, 3, 5]
            ok_seq = z3.BoolVal(len(probes) <= 4)
            conds = [ok_seq]
            for i, (pdu, ans, cfg_) in enumerate(probes[:4]):
                want = z3.Concat(z3.Unit(cur), *[z3.Unit(z3.IntVal(0))] * lens[i])
                conds.append(models.bytes_eq(I2, pdu.t, want))
                decisive = ans in ("sns", "snsias", "other-negative", "positive")
                conds.append(z3.BoolVal(decisive == (i == len(probes) - 1) or
                                        (not decisive and i == len(probes) - 1
                                         and len(probes) == 4)))
            out.append(("probes-are-sid+zeros(1,2,3,5)-in-order-up-to-the-first-decisive-answer",
                        z3.And(*conds)))
            found = bool(probes) and probes[-1][1] in ("other-negative", "positive")
            out.append(("reported-iff-the-decisive-answer-is-not-serviceNotSupported",
                        z3.BoolVal(len(writes) == (1 if found else 0))))
            if writes:
                base, key, val = writes[0]
                out.append(("reported-under-its-own-service-id-with-that-answer", z3.And(
                    z3.BoolVal(base is st["result"] and val is I2.ghost.get("last_reply")),
                    models.as_int(I2, key) == cur)))
            if probes and session_given:
                # "findings belong to the session they are reported for": with --check-session
                # every probed id is preceded by the session check - no id is probed on the
                # strength of an earlier check
                cs = I2.truth(check_sess)
                cs = z3.BoolVal(cs) if isinstance(cs, bool) else cs
                out.append(("with-check-session-every-probed-id-is-preceded-by-the-check",
                            z3.Implies(cs, z3.BoolVal(I2.ghost["session_checks"] == 1))))
            if I2.ghost["session_checks"]:
                out.append(("session-is-checked-before-the-first-probe-of-an-id", z3.BoolVal(
                    I2.ghost["session_checks"] == 1 and I2.ghost["probes_at_check"] == 0)))
            illegal = any(a in ("malformed", "mismatch") for _, a, _ in probes)
            cr = I2.truth(fr.env["clean_returns"])
            cr0 = I2.truth(st["cr0"])
            out.append(("clean-flag-drops-exactly-on-illegal-responses",
                        cr == (z3.And(cr0, z3.BoolVal(not illegal)))))
            return out

        def variant(I2: Interp, fr: Frame) -> Any:
            return 0x100 - processed(I2, fr)
        I.ex.loop_contracts[("ServicesScanner.perform_scan", 0)] = loops.LoopContract(
            havoc, inv, variant)
        try:
            r = I.await_v(I.call_v(I.getattr_v(scanner, "perform_scan"), [sess], {}))
        except PyExc as e:
            I.fail("V-perform_scan-does-not-raise", e.exc.cls.__name__)
            return
        if "p0" not in st:
            return
        res, clean = r.items
        I.prove("V-returns-the-accumulated-result", z3.BoolVal(res is st["result"]))
        if I.ghost["session_checks"] and not sess_ok["v"]:
            I.prove("V-lost-session-aborts-with-the-unclean-flag",
                    z3.Not(I.truth(clean)) if not isinstance(I.truth(clean), bool)
                    else z3.BoolVal(not I.truth(clean)))
        else:
            I.prove("V-scan-ends-after-service-id-0xFF", st["p0"] == 0x100)
    return harness


def services_main_harness(I: Interp) -> None:
    services, identifiers, S, X = mods()
    n_found = {"scans": [], "set": []}
    sessions = [I.fresh_int(f"s{i}", 0, 0x7F, inp=True) for i in range(2)]
    I.assume(sessions[0].t != sessions[1].t)
    skip_none = I.choose([z3.BoolVal(True)] * 2) == 1  # first session fully skipped?
    skip = VDict([(sessions[0], NONE)]) if skip_none else VDict([])
    cfg = VObj(Stub, {"sessions": VList(list(sessions)), "skip": skip, "reset": NONE},
               lazy=True, tag="cfg")

    def set_session(I2: Interp, recv: V, args: list[V], kwargs: dict[str, V]) -> V:
        def go() -> V:
            k = I2.choose([z3.BoolVal(True)] * 3)
            n_found["set"].append((args[0], k))
            if k == 1:
                return mk_neg(I2, S, 0x22)
            if k == 2:
                raise PyExc(VObj(X.MissingResponse, {"args": VTuple([])}))
            return VObj(S.DiagnosticSessionControlResponse, {})
        return coro(go)
    I.ex.stubs[("ecu", "set_session")] = set_session

    def perform(I2: Interp, self_: V, session: V = NONE) -> V:
        def go() -> V:
            n_found["scans"].append(session)
            sid = I2.fresh_int("found_sid", 0, 255)
            d = VDict([(sid, VObj(Stub, {}, tag="resp"))])
            n_found.setdefault("sids", []).append((session, sid))
            return VTuple([d, VBool(True)])
        return coro(go)
    I.ex.contracts[services.ServicesScanner.perform_scan] = perform
    exit_codes: list[V] = []
    models.MODELS[sys.exit] = lambda I2, a, k: (exit_codes.append(a[0] if a else NONE),
                                                I2.raise_py(SystemExit))[1]
    scanner = VObj(services.ServicesScanner, {"config": cfg, "ecu": te.stub("ecu"),
                                              "result": VList([])})
    try:
        I.await_v(I.call_v(I.getattr_v(scanner, "main"), [], {}))
    except PyExc as e:
        if not issubclass(e.exc.cls, SystemExit):
            I.fail("N-main-does-not-raise", e.exc.cls.__name__)
            return
    positive = [s for s, k in n_found["set"] if k == 0]
    I.prove("N-fully-skipped-sessions-are-not-entered",
            z3.BoolVal(not skip_none or all(s is not sessions[0] for s, _ in n_found["set"])))
    I.prove("N-a-session-is-scanned-only-after-a-positive-session-change",
            z3.BoolVal(len(n_found["scans"]) == len(positive)
                       and all(a is b for a, b in zip(n_found["scans"], positive))))
    res = scanner.fields["result"]
    want = n_found.get("sids", [])
    I.prove("N-result-pairs-are-(session,service)-of-the-findings", z3.BoolVal(
        isinstance(res, VList) and res.items is not None and len(res.items) == len(want)
        and all(r.items[0] is w[0] and r.items[1] is w[1] for r, w in zip(res.items, want))))
    unclean = any(k != 0 for _, k in n_found["set"])
    I.prove("N-exit-1-iff-a-session-could-not-be-scanned",
            z3.BoolVal(bool(exit_codes) == unclean))


def identifiers_harness(service_kind: str):
    def harness(I: Interp) -> None:
        services, identifiers, S, X = mods()
        from gallia.services.uds.core.constants import UDSIsoServices
        svc = {"sa": 0x27, "rc": 0x31, "rdbi": 0x22}[service_kind]
        start = I.fresh_int("start", 0, 0xFFFF, inp=True)
        end = I.fresh_int("end", 0, 0xFFFF, inp=True)
        I.assume(start.t <= end.t)
        payload = I.fresh_bytes("payload", inp=True)
        skiplist = VList(None, z3.Int("n_skip"), lambda j: VInt(z3.Int("unused")),
                         member=lambda v: SKIPPED(models.as_int(I, v)))
        skip = VSymMap(z3.Int("n_skip_sessions"), lambda j: VInt(z3.Int("unused")),
                       lambda k: z3.BoolVal(True), lambda k: skiplist, "skip")
        cfg = VObj(Stub, {"service": VInt(svc, UDSIsoServices), "start": start, "end": end,
                          "payload": payload, "skip": skip, "check_session": VInt(0),
                          "skip_not_supported": VBool(False)}, lazy=True, tag="cfg")
        I.ghost.update({"probes": []})
        I.ex.stubs[("ecu", "send_raw")] = send_raw_contract(I, S, X)
        logged: dict[str, V] = {}

        def result_log(I2: Interp, args: list[V], kwargs: dict[str, V]) -> V:
            m = args[0]
            if isinstance(m, VStr) and m.parts:
                head = m.parts[0]
                if isinstance(head, str) and len(m.parts) > 1:
                    logged[head.strip()] = m.parts[1]
            return NONE
        models.MODELS[identifiers.logger.result] = result_log
        sess = I.fresh_int("session", 0, 0x7F)
        scanner = VObj(identifiers.ScanIdentifiers, {"config": cfg, "ecu": te.stub("ecu")})
        st: dict[str, Any] = {}
        nsub = 3 if service_kind == "rc" else 1

        def count_of(I2: Interp, v: V) -> Any:
            """a tally by role: an int counter, or a collection whose size is reported"""
            return v.length() if isinstance(v, VList) else models.as_int(I2, v)

        def havoc(I2: Interp, fr: Frame) -> None:
            for n in ("positive_DIDs", "abnormal_DIDs", "timeout_DIDs"):
                cur = fr.env.get(n)
                if isinstance(cur, VList):
                    # the tally is kept as a collection: any earlier content
                    held = z3.Function(I2.fresh_name("HELD_" + n), z3.IntSort(), z3.BoolSort())
                    cur.become(VList(None, I2.fresh_int("n_" + n, 0).t,
                                     lambda j: VInt(I2.fresh_int("tally_elt").t), kind=cur.kind,
                                     member=lambda v, held=held: held(models.as_int(I2, v))))
                    st[n] = cur.length()
                    continue
                fr.env[n] = I2.fresh_int(n, 0)
                st[n] = fr.env[n].t
            I2.ghost["probes"] = []
            for n in ("pdu", "resp", "DID", "sub_function", "session_skip"):
                fr.env.pop(n, None)
                fr.poison.add(n)

        def inv(I2: Interp, fr: Frame) -> list[tuple[str, Any]]:
            eff_end = z3.If(z3.And(z3.BoolVal(service_kind == "sa"), end.t > 0x7F), 0x7F, end.t)
            if I2.ghost["__loop_phase"] == "init":
                # completeness: the loop is going to visit every identifier of the requested
                # range (capped at 0x7F for SecurityAccess) with every sub-function
                return [("visits-every-identifier-of-the-requested-range-x-sub-functions",
                         I2.ghost["__loop_len"] == z3.If(
                             eff_end >= start.t, (eff_end - start.t + 1) * nsub, 0))]
            if I2.ghost["__loop_phase"] != "preserved":
                return []
            k = models.as_int(I2, fr.env["__k0"]) - 1  # index of the iteration just done
            did = start.t + k / nsub
            sub = [1, 2, 3][0] if nsub == 1 else None
            probes = I2.ghost["probes"]
            out = [("identifier-in-the-requested-range", z3.And(did >= start.t, did <= eff_end))]
            out.append(("probed-iff-not-skipped", z3.BoolVal(len(probes) == 1) ==
                        z3.Not(SKIPPED(did)) if len(probes) <= 1 else z3.BoolVal(False)))
            d = {"p": 0, "a": 0, "t": 0}
            if probes:
                pdu, ans, cfg_ = probes[0]
                if service_kind == "sa":
                    want = z3.Concat(z3.Unit(z3.IntVal(0x27)), z3.Unit(did), payload.t)
                elif service_kind == "rc":
                    sf = 1 + k % 3
                    want = z3.Concat(z3.Unit(z3.IntVal(0x31)), z3.Unit(sf), z3.Unit(did / 256),
                                     z3.Unit(did % 256), payload.t)
                else:
                    want = z3.Concat(z3.Unit(z3.IntVal(0x22)), z3.Unit(did / 256),
                                     z3.Unit(did % 256), payload.t)
                out.append(("probe-pdu-is-service+[sub-function]+identifier+payload",
                            models.bytes_eq(I2, pdu.t, want)))
                if ans == "positive":
                    d["p"] = 1
                elif ans == "timeout":
                    d["t"] = 1
            pos = count_of(I2, fr.env["positive_DIDs"]) - st["positive_DIDs"]
            abn = count_of(I2, fr.env["abnormal_DIDs"]) - st["abnormal_DIDs"]
            tmo = count_of(I2, fr.env["timeout_DIDs"]) - st["timeout_DIDs"]
            out.append(("positive-counter-counts-positive-replies", pos == d["p"]))
            out.append(("timeout-counter-counts-timeouts", tmo == d["t"]))
            if probes and probes[0][1] == "other-negative":
                c = I2.ghost["last_nrc"]
                out.append(("abnormal-counter-counts-unexpected-negative-replies",
                            abn == z3.If(z3.Or(c == ROOR, c == SFNS), 0, 1)))
            else:
                # incorrectMessageLength is negative and not one of the four expected codes
                exp = 1 if (probes and probes[0][1] == "imloif") else 0
                out.append(("abnormal-counter-counts-unexpected-negative-replies", abn == exp))
            return out
        I.ex.loop_contracts[("ScanIdentifiers.perform_scan", 0)] = loops.LoopContract(havoc, inv)
        try:
            r = I.await_v(I.call_v(I.getattr_v(scanner, "perform_scan"), [sess], {}))
        except PyExc as e:
            I.fail("D-perform_scan-does-not-raise", e.exc.cls.__name__)
            return
        if not st:
            return
        for key, name in (("Positive replies:", "positive_DIDs"),
                          ("Abnormal replies:", "abnormal_DIDs"), ("Timeouts:", "timeout_DIDs")):
            v = logged.get(key)
            I.prove(f"D-reported-{name}-is-the-counter",
                    models.as_int(I, v) == st[name] if isinstance(v, VInt) else z3.BoolVal(False))
        I.prove("D-complete-scan-returns-True", I.truth(r))
    return harness


def helpers_harness(I: Interp) -> None:
    services, identifiers, S, X = mods()
    from gallia.services.uds import helpers
    c = I.fresh_int("nrc", 0, 255, inp=True)
    from gallia.services.uds.core.constants import UDSErrorCodes
    members = [int(m) for m in UDSErrorCodes]
    I.assume(z3.Or(*[c.t == m for m in members]))
    r = mk_neg(I, S, c.t)
    for fn, want in ((helpers.suggests_service_not_supported, [SNS, SNSIAS]),
                     (helpers.suggests_sub_function_not_supported, [SNS, SNSIAS, SFNS, 0x7E]),
                     (helpers.suggests_identifier_not_supported,
                      [SNS, SNSIAS, SFNS, 0x7E, ROOR])):
        out = I.call(fn, r)
        I.prove(f"H-{fn.__name__}", I.truth(out) == z3.Or(*[c.t == w for w in want]))
        pos = I.call(fn, VObj(S.RawPositiveResponse, {"_pdu": I.fresh_bytes("p", minlen=1)}))
        I.prove(f"H-{fn.__name__}-false-for-positive-replies",
                z3.BoolVal(isinstance(pos, VBool) and pos.concrete() is False))


def purity_harness(I: Interp) -> None:
    """Frame contract (contracts/effects.py) for the classification helpers and the two scanner
    modules: no function stores into module / class state or mutates a module-level container
    handed to it - what a reply 'suggests' must not depend on which replies were classified before."""
    from gallia.services.uds import helpers
    from . import effects
    services, identifiers, S, X = mods()
    n = 0
    for mod in (helpers, services, identifiers):
        shared = effects.shared_arguments_mutated(mod)
        for q, fn, owner in effects.functions_of(mod):
            if q.endswith(".__init_subclass__"):
                continue
            w = effects.shared_state_writes(fn, owner) + shared.get(q, [])
            n += 1
            I.prove(f"E-pure({q.split('gallia.')[-1]}):no-store-into-shared-state",
                    z3.BoolVal(not w), "; ".join(w))
    I.prove("E-pure:functions-found", z3.BoolVal(n >= 10), str(n))


def native_helper_history() -> tuple[bool, str]:
    """the three predicates on every response code, twice, in every order of first use"""
    import itertools
    import subprocess
    prog = (
        "import sys, json\n"
        "import gallia.command\n"
        "from gallia.services.uds import helpers as H\n"
        "from gallia.services.uds.core import service as S\n"
        "from gallia.services.uds.core.constants import UDSErrorCodes as E\n"
        "fs = [H.suggests_service_not_supported, H.suggests_sub_function_not_supported, H.suggests_identifier_not_supported]\n"
        "order = [int(x) for x in sys.argv[1]]\n"
        "out = []\n"
        "for rnd in range(2):\n"
        "    for i in order:\n"
        "        out.append((i, [int(c) for c in E if fs[i](S.NegativeResponse(0x22, c))]))\n"
        "print(json.dumps(out))\n")
    import json
    ref: dict[int, list[int]] = {}
    for order in itertools.permutations("012"):
        r = subprocess.run([sys.executable, "-c", prog, "".join(order)], capture_output=True,
                           text=True, timeout=120)
        for i, codes in json.loads(r.stdout.strip().splitlines()[-1]):
            if i in ref and ref[i] != codes:
                return True, (f"predicate {i} ({['service', 'sub-function', 'identifier'][i]} not "
                              f"supported) accepts codes {codes} after the calls in order "
                              f"{''.join(order)}, and {ref[i]} when used first")
            ref.setdefault(i, codes)
    return False, "the three predicates give the same answer in every order of use"


def build_units(tier: str) -> list[Unit]:
    return [Unit("purity/helpers-and-scanners", purity_harness),
            Unit("services/perform_scan/session-given", services_scan_harness(True),
                 max_paths=100000),
            Unit("services/perform_scan/current-session", services_scan_harness(False),
                 max_paths=100000),
            Unit("services/main", services_main_harness, max_paths=20000),
            Unit("identifiers/perform_scan/SecurityAccess", identifiers_harness("sa")),
            Unit("identifiers/perform_scan/RoutineControl", identifiers_harness("rc")),
            Unit("identifiers/perform_scan/ReadDataByIdentifier", identifiers_harness("rdbi")),
            Unit("helpers/suggests_not_supported", helpers_harness),
            # the skip option is parsed by utils.unravel_2d: bounded stand-in shared with C20
            Unit("ranges/skip-option-parsing", _ranges_unit(tier),
                 bounded="exhaustive enumeration of a stated grammar of range expressions "
                         "(see C20)")]


def _ranges_unit(tier: str) -> Any:
    from . import c20
    return c20.standin_unit(tier, 0)


PROFILES = ["absent", "absent-in-session", "answers-any-length", "needs-3-bytes",
            "needs-5-bytes", "silent", "imloif-then-answer", "negative-other"]


def _services_script(seed: int) -> dict[int, str]:
    import random
    rnd = random.Random(seed)
    return {sid: rnd.choice(PROFILES) for sid in range(256)}


def native_services(seed: int) -> tuple[bool, str]:
    """The real ServicesScanner.perform_scan against a scripted ECU whose answer depends on the
    service id and the probe length; expectation written from the statement."""
    import asyncio
    import logging
    logging.disable(logging.CRITICAL)
    services, identifiers, S, X = mods()
    from gallia.services.uds.core.constants import UDSErrorCodes as E
    table = _services_script(seed)
    probes: list[bytes] = []

    class Ecu:
        max_retry = 0

        async def send_raw(self, pdu: bytes, config: Any = None) -> Any:
            probes.append(pdu)
            sid, n, prof = pdu[0], len(pdu) - 1, table[pdu[0]]
            if prof == "absent":
                return S.NegativeResponse(sid, E.serviceNotSupported)
            if prof == "absent-in-session":
                return S.NegativeResponse(sid, E.serviceNotSupportedInActiveSession)
            if prof == "silent" or (prof == "needs-3-bytes" and n < 3) or \
                    (prof == "needs-5-bytes" and n < 5):
                raise TimeoutError
            if prof == "imloif-then-answer" and n < 3:
                return S.NegativeResponse(sid, E.incorrectMessageLengthOrInvalidFormat)
            if prof == "negative-other":
                return S.NegativeResponse(sid, E.conditionsNotCorrect)
            return S.RawPositiveResponse(bytes([sid | 0x40, 0]))
    want = {sid for sid, prof in table.items() if not sid & 0x40 and prof in (
        "answers-any-length", "needs-3-bytes", "needs-5-bytes", "imloif-then-answer",
        "negative-other")}
    cfg = services.ServicesScannerConfig(target="tcp-lines://127.0.0.1:1", db=None)
    sc = services.ServicesScanner(cfg)
    sc.ecu = Ecu()  # type: ignore[assignment]
    res, clean = asyncio.run(sc.perform_scan())
    got = set(res)
    if got != want:
        miss, extra = sorted(want - got), sorted(got - want)
        return True, (f"scripted ECU (seed {seed}): reported-but-unsupported {extra[:5]}, "
                      f"supported-but-not-reported {[(hex(s), table[s]) for s in miss[:5]]}")
    once = all(sum(1 for p in probes if p[0] == sid and len(p) == 2) <= 1 for sid in range(256))
    return (not once), "every reported id is supported and every supported id is reported"


def native_session_checks() -> tuple[bool, str]:
    """--sessions + --check-session against an ECU that drops to the default session when it
    rejects certain services: every id must be probed in the session the findings are reported
    for (the check runs before each probed id and restores the session)"""
    import asyncio
    import logging
    logging.disable(logging.CRITICAL)
    services, identifiers, S, X = mods()
    from gallia.services.uds.core.constants import UDSErrorCodes as E
    state = {"session": 3}
    wrong: list[str] = []

    class Ecu:
        max_retry = 0

        async def check_and_set_session(self, expected: int, retries: int = 3) -> bool:
            state["session"] = expected
            return True

        async def send_raw(self, pdu: bytes, config: Any = None) -> Any:
            if state["session"] != 3:
                wrong.append(f"{pdu.hex()} probed in session {state['session']}")
            sid = pdu[0]
            if sid in (0x34, 0x35, 0x36):  # rejected, and the ECU falls back to default
                state["session"] = 1
                return S.NegativeResponse(sid, E.serviceNotSupportedInActiveSession)
            if sid in (0x22, 0x3B) and state["session"] == 3:
                return S.RawPositiveResponse(bytes([sid | 0x40, 0]))
            return S.NegativeResponse(sid, E.serviceNotSupported)
    cfg = services.ServicesScannerConfig(target="tcp-lines://127.0.0.1:1", db=None,
                                         check_session=True, sessions="3")
    sc = services.ServicesScanner(cfg)
    sc.ecu = Ecu()  # type: ignore[assignment]
    res, clean = asyncio.run(sc.perform_scan(3))
    if wrong or sorted(res) != [0x22, 0x3B]:
        return True, (f"scan of session 3 with --check-session: {wrong[:3]}; reported "
                      f"{[hex(x) for x in sorted(res)]}, session 3 offers ['0x22', '0x3b']")
    return False, "every id was probed in session 3"


def native_identifiers(kind: str, start: int, end: int) -> tuple[bool, str]:
    import asyncio
    import logging
    logging.disable(logging.CRITICAL)
    services, identifiers, S, X = mods()
    svc = {"SecurityAccess": 0x27, "RoutineControl": 0x31, "ReadDataByIdentifier": 0x22}[kind]
    probes: list[bytes] = []

    class Ecu:
        async def send_raw(self, pdu: bytes, config: Any = None) -> Any:
            probes.append(pdu)
            from gallia.services.uds.core.constants import UDSErrorCodes as E
            return S.NegativeResponse(pdu[0], E.requestOutOfRange)
    cfg = identifiers.ScanIdentifiersConfig(target="tcp-lines://127.0.0.1:1", db=None,
                                            service=svc, start=start, end=end)
    sc = identifiers.ScanIdentifiers(cfg)
    sc.ecu = Ecu()  # type: ignore[assignment]
    asyncio.run(sc.perform_scan())
    eff_end = min(end, 0x7F) if svc == 0x27 else end
    if svc == 0x27:
        got = sorted({p[1] for p in probes})
    elif svc == 0x31:
        got = sorted({p[2] * 256 + p[3] for p in probes})
    else:
        got = sorted({p[1] * 256 + p[2] for p in probes})
    want = list(range(start, eff_end + 1))
    if got != want:
        return True, (f"{kind} scan start={start:#x} end={end:#x}: probed identifiers "
                      f"{[hex(x) for x in got[:4]]}..{[hex(x) for x in got[-2:]]} ({len(got)}), "
                      f"requested range has {len(want)} (up to {eff_end:#x})")
    return False, f"{kind} scan {start:#x}..{end:#x}: every identifier of the range was probed"


def native_tallies(kind: str) -> tuple[bool, str]:
    """an ECU model that answers positively, with an expected / an unexpected negative code or
    not at all, as a function of the request: the three reported tallies must equal the number
    of positive replies, of unexpected negative replies and of timeouts"""
    import asyncio
    import logging
    import re
    logging.disable(logging.CRITICAL)
    services, identifiers, S, X = mods()
    from gallia.services.uds.core.constants import UDSErrorCodes as E
    svc = {"SecurityAccess": 0x27, "RoutineControl": 0x31, "ReadDataByIdentifier": 0x22}[kind]
    tally = {"Positive replies": 0, "Abnormal replies": 0, "Timeouts": 0}

    class Ecu:
        async def send_raw(self, pdu: bytes, config: Any = None) -> Any:
            did = pdu[-1]
            if did % 5 == 0:          # every sub-function of such an identifier is positive
                tally["Positive replies"] += 1
                return S.RawPositiveResponse(bytes([pdu[0] + 0x40]) + pdu[1:])
            if did % 5 == 1:
                tally["Abnormal replies"] += 1
                return S.NegativeResponse(pdu[0], E.generalReject)
            if did % 5 == 2:
                tally["Timeouts"] += 1
                raise asyncio.TimeoutError
            return S.NegativeResponse(pdu[0], E.requestOutOfRange)
    lines: list[str] = []
    cfg = identifiers.ScanIdentifiersConfig(target="tcp-lines://127.0.0.1:1", db=None,
                                            service=svc, start=0, end=0x2F)
    sc = identifiers.ScanIdentifiers(cfg)
    sc.ecu = Ecu()  # type: ignore[assignment]
    old = identifiers.logger.result
    identifiers.logger.result = lambda m, *a, **k: lines.append(str(m))  # type: ignore
    try:
        asyncio.run(sc.perform_scan())
    finally:
        identifiers.logger.result = old  # type: ignore
    got = {}
    for ln in lines:
        m = re.match(r"(Positive replies|Abnormal replies|Timeouts): (\d+)", ln)
        if m:
            got[m.group(1)] = int(m.group(2))
    return got != tally, (f"{kind} scan 0x00..0x2f: reported {got}, the ECU model gave {tally}")


def native_replay(unit: str, obligation: str, model: dict) -> tuple[bool, str]:
    if unit.startswith("purity/"):
        return native_helper_history()
    if unit.startswith("identifiers/perform_scan/") and ("counter" in obligation
                                                          or "D-reported" in obligation):
        return native_tallies(unit.split("/")[-1])
    if unit.startswith("services/perform_scan") and "check-session" in obligation:
        return native_session_checks()
    if unit.startswith("services/perform_scan"):
        for seed in range(int(model.get("seed", 0)), int(model.get("seed", 0)) + 6):
            bad, msg = native_services(seed)
            if bad:
                return bad, msg
        return False, msg
    if unit.startswith("identifiers/perform_scan/"):
        kind = unit.split("/")[-1]
        cands = []
        if "start" in model and "end" in model and 0 <= int(model["end"]) - int(model["start"]) < 5000:
            cands.append((int(model["start"]), int(model["end"])))
        cands += [(0, 0x10), (0x70, 0x7F), (0, 0x80), (0x60, 0x100), (0, 0x1F0), (0x7F, 0x7F)]
        msg = ""
        for st, en in cands:
            bad, msg = native_identifiers(kind, st, en)
            if bad:
                return bad, msg
        return False, msg
    if unit.startswith("ranges/"):
        from . import c20
        return c20.native_replay(unit, obligation, model)
    return False, "no native scenario for this obligation"


def native_search(unit: str, obligation: str, seed: int) -> dict | None:
    return {"seed": seed}


TRUSTED = [
    "pyvc VC generator (Hoare rule, sidecar invariants, variant); z3 5.1.0",
    "contract of ecu.send_raw (returns a response | TimeoutError | MalformedResponse | "
    "RequestResponseMismatch), of ecu.set_session / check_and_set_session / leave_session",
    "the ECU answers as a function of (session, pdu) during one scan and decides "
    "serviceNotSupported on the service id alone (what makes 'implemented' well defined)",
]


def main(tier: str, seed: int, only: str | None = None, jobs: int = 16) -> int:
    chk = Check("C10", "contracts.c10", tier, seed)
    units = build_units(tier)
    if only:
        units = [u for u in units if only in u.uid]
    results = run_units(units, jobs)
    chk.trusted_base = TRUSTED
    chk.assumptions = [
        "proved-partial: session entry via set_session/check_and_set_session is assumed to work "
        "as contracted; identifier scan with check_session and skip_not_supported off",
    ]
    return chk.finish(results, native_replay, native_search)
