"""C16 - a virtual ECU is fully determined by its seed and arguments (proved-partial).

  E  determinism as an *effect contract*, checked on the AST of every method of
     RandomUDSServer, RNG and RNGEcuState (one obligation per call site): no use of the global
     `random` module functions, of clocks, os.urandom/secrets/uuid, hash()/id(); every RNG is
     constructed inside the function from {self.seed, self.state, request, arguments}; an
     unseeded RNG() occurs only in security_access (the deliberately fresh seed); sets that are
     iterated hold ints / IntEnum members only (CPython: hash(int) is the value, independent of
     PYTHONHASHSEED - stated assumption).
     With the trusted contract "random.Random(str-seed) and its draw sequence are a pure
     function of the string", model and answers are a function of (seed, arguments, history).
  B  bounded stand-in (labelled, not counted as proved): `randomize()` is run natively for a
     stated family of seeds x randomness parameters with a postcondition written from the
     statement (mandatory sessions/services present, every offered session reachable from the
     default session and able to return to it, every DiagnosticSessionControl sub-function is an
     offered session, session ids in 1..0x7E); and model + answers to a request history are
     compared across processes with different PYTHONHASHSEED.
`UDSServerTransport.handle_request` resets the state after 10 s of inactivity (wall clock): the
answer sequence depends on gaps > 10 s - reported as the stated exception.
"""
from __future__ import annotations

import ast
import hashlib
import inspect
import json
import os
import subprocess
import sys
import textwrap
from typing import Any

import z3

from pyvc.engine import Explorer, Interp
from pyvc.runner import ROOT, Check, Unit, run_units
from pyvc.values import VBool

FORBIDDEN_CALLS = {"hash", "id", "urandom", "uuid4", "uuid1", "token_bytes", "getrandbits",
                   "time", "monotonic", "perf_counter", "now", "today"}
GLOBAL_RANDOM = {"random", "randint", "choice", "shuffle", "sample", "uniform", "randrange",
                 "expovariate", "seed", "randbytes"}


def SVm() -> Any:
    import gallia.command  # noqa: F401
    from gallia.services.uds import server
    return server


def effect_harness(I: Interp) -> None:
    sv = SVm()
    n_sites = 0
    unseeded: list[str] = []
    for cls in (sv.RandomUDSServer, sv.RNG, sv.RNGEcuState):
        for name, fn in vars(cls).items():
            raw = fn.fget if isinstance(fn, property) else fn
            if not inspect.isfunction(raw):
                continue
            src = textwrap.dedent(inspect.getsource(raw))
            I.ex.functions[f"{cls.__module__}.{cls.__name__}.{name}"] = hashlib.sha1(
                src.encode()).hexdigest()[:12]
            tree = ast.parse(src)
            found: list[str] = []
            for n in ast.walk(tree):
                if not isinstance(n, ast.Call):
                    continue
                f = n.func
                q = f"{cls.__name__}.{name}"
                if isinstance(f, ast.Attribute) and isinstance(f.value, ast.Name) and \
                        f.value.id == "random" and f.attr in GLOBAL_RANDOM:
                    n_sites += 1
                    found.append(f"random.{f.attr}() line {n.lineno}")
                fname = f.id if isinstance(f, ast.Name) else (f.attr if isinstance(
                    f, ast.Attribute) else "")
                if fname in FORBIDDEN_CALLS and not (cls is sv.RNG and fname == "seed"):
                    # self.random() / rng.random() on an RNG object is fine; bare time()/hash()
                    if isinstance(f, ast.Name) or (isinstance(f, ast.Attribute) and isinstance(
                            f.value, ast.Name) and f.value.id in ("time", "os", "uuid", "secrets",
                                                                  "datetime")):
                        n_sites += 1
                        found.append(f"{fname}() line {n.lineno}")
                if fname == "RNG":
                    n_sites += 1
                    if not n.args:
                        unseeded.append(q)
                    else:
                        ok = all(_derived(a) for a in n.args)
                        I.prove(f"E-{q}:RNG-seeded-from-seed-state-or-arguments", z3.BoolVal(ok))
                if fname == "set" or isinstance(n, ast.SetComp):
                    n_sites += 1
            for n in ast.walk(tree):
                if isinstance(n, (ast.For, ast.comprehension)):
                    it = n.iter
                    if isinstance(it, ast.Call) and isinstance(it.func, ast.Name) and \
                            it.func.id == "set":
                        found.append(f"iteration over an ad-hoc set, line {it.lineno}")
            I.prove(f"E-{cls.__name__}.{name}:draws-only-from-locally-seeded-RNGs",
                    z3.BoolVal(not found), "; ".join(found))
    # nothing on the way from the arguments to the model takes a value from the iteration order
    # of an ad-hoc set (str/bytes elements: PYTHONHASHSEED) - every function and validator of
    # the virtual ECU command and of the server module
    from gallia.commands.script import vecu
    from . import effects
    for mod in (sv, vecu):
        for q, fn, owner in effects.functions_of(mod):
            uses = effects.set_order_uses(fn)
            n_sites += 1
            I.prove(f"E-{q.split('gallia.')[-1]}:no-value-from-the-iteration-order-of-a-set",
                    z3.BoolVal(not uses), "; ".join(uses))
    I.prove("E-unseeded-RNG-only-in-security_access",
            z3.BoolVal(unseeded == ["RandomUDSServer.security_access"]), str(unseeded))
    I.prove("E-call-sites-found", z3.BoolVal(n_sites >= 5), str(n_sites))
    # stateful_rng mixes exactly seed, session and the arguments
    src = inspect.getsource(sv.RandomUDSServer.stateful_rng)
    I.prove("E-stateful_rng-is-a-function-of(seed,session,args)", z3.BoolVal(
        "self.seed" in src and "self.state.session" in src and "args" in src))
    # the sets iterated in randomize hold ints: their element sources are int lists / enumerate
    rsrc = inspect.getsource(sv.RandomUDSServer.randomize)
    I.prove("E-randomize-sorts-the-transition-sets-it-publishes",
            z3.BoolVal("sorted(session_specific_transitions)" in rsrc))
    # the documented exception: wall-clock inactivity reset
    hsrc = inspect.getsource(sv.UDSServerTransport.handle_request)
    I.ex.assumptions.add("stated exception: handle_request resets the state after 10 s without "
                         "requests (wall clock): " + str("time()" in hsrc))


NONDET_NAMES = {"random", "time", "os", "uuid", "secrets", "datetime", "hash", "id", "object"}


def _derived(a: ast.expr) -> bool:
    """the seed expression is built from self.seed / self.state / request / arguments, literals
    and helper calls - it mentions no nondeterministic source (global random, clock, os, hash/id)"""
    names = {n.id for n in ast.walk(a) if isinstance(n, ast.Name)}
    return not (names & NONDET_NAMES)


def vecu_seed_harness(I: Interp) -> None:
    """`RngVirtualECU._server`: the virtual ECU is built from exactly the seed and arguments of
    the configuration - for every integer seed (0 included), with no other source mixed in."""
    import random as _random
    import gallia.command  # noqa: F401
    from gallia.commands.script import vecu
    sv = SVm()
    from contracts.c15 import Stub
    from pyvc import models
    from pyvc.values import VObj, VInt, VTuple, NONE
    seed = I.fresh_int("seed", inp=True)
    cfg = VObj(Stub, {"seed": seed}, lazy=True, tag="config")
    built: list[tuple] = []

    def mk(I2: Interp, cls: type, a: list, k: dict) -> Any:
        built.append((a, k))
        return VObj(Stub, {}, lazy=True, tag="server")
    models.CLASS_MODELS[sv.RandomUDSServer] = mk
    drew = {"n": 0}

    def randint(I2: Interp, a: list, k: dict) -> Any:
        drew["n"] += 1
        return I2.fresh_int("global_random_draw")
    models.MODELS[_random.randint] = randint
    obj = VObj(vecu.RngVirtualECU, {"config": cfg})
    try:
        I.call_v(I.getattr_v(obj, "_server"), [], {})
    except PyExc as e:
        I.fail("V-_server-does-not-raise", e.exc.cls.__name__)
        return
    finally:
        models.CLASS_MODELS.pop(sv.RandomUDSServer, None)
    I.prove("V-exactly-one-server-is-built", z3.BoolVal(len(built) == 1))
    if len(built) != 1:
        return
    a, k = built[0]
    k = dict(k)
    got = a[0] if a else k.pop("seed", None)
    I.prove("V-server-seed-is-the-configured-seed(for-every-int,0-included)",
            got.t == seed.t if getattr(got, "t", None) is not None else z3.BoolVal(False))
    I.prove("V-no-draw-from-the-global-random-module", z3.BoolVal(drew["n"] == 0))
    rest = list(a[1:]) + list(k.values())
    I.prove("V-randomness-and-behaviour-arguments-come-from-the-configuration",
            z3.BoolVal(all(x is cfg for x in rest) and len(rest) == 2))


# --------------------------------------------------------------------------- bounded stand-in
def check_model(services: dict, params: Any) -> list[str]:
    """Postcondition of randomize(), from the statement."""
    from gallia.services.uds.core.constants import UDSIsoServices
    bad = []
    dsc = UDSIsoServices.DiagnosticSessionControl
    if 1 not in services:
        bad.append("default session not offered")
    for s in params.mandatory_sessions:
        if s not in services:
            bad.append(f"mandatory session {s} missing")
    for s, svcs in services.items():
        if not 1 <= s <= 0x7E:
            bad.append(f"session id {s} out of range")
        for m in params.mandatory_services:
            if m not in svcs:
                bad.append(f"session {s}: mandatory service {m} missing")
        tr = svcs.get(dsc)
        if tr is None:
            bad.append(f"session {s}: no session transitions")
            continue
        if 1 not in tr:
            bad.append(f"session {s} cannot return to the default session")
        if list(tr) != sorted(set(tr)):
            bad.append(f"session {s}: transitions not sorted/distinct")
        for t in tr:
            if t not in services:
                bad.append(f"session {s}: transition to {t}, which is not offered")
    # reachability from the default session
    seen, todo = {1}, [1]
    while todo:
        c = todo.pop()
        for t in services.get(c, {}).get(dsc) or []:
            if t in services and t not in seen:
                seen.add(t)
                todo.append(t)
    for s in services:
        if s not in seen:
            bad.append(f"session {s} is not reachable from the default session")
    return bad


def standin(tier: str, seed: int) -> dict:
    sv = SVm()
    P = sv.RandomUDSServer.RandomnessParameters
    n_seeds = 60 if tier == "quick" else 400
    param_sets = [P(), P(p_session=0.0), P(p_session=1.0, p_service=1.0),
                  P(mandatory_sessions=[1, 2, 3], optional_sessions=[]),
                  P(mandatory_sessions=[1, 0x60], optional_sessions=[2], p_session=0.5),
                  P(p_service=0.0, p_sub_function=1.0)]
    bad: list[str] = []
    n = 0
    samples = []
    for pi, params in enumerate(param_sets):
        for sd in range(seed, seed + n_seeds):
            srv = sv.RandomUDSServer(sd, params)
            srv.randomize()
            n += 1
            errs = check_model(srv.services, params)
            if errs:
                bad.append(f"seed={sd} params#{pi}: {errs[:3]}")
            if len(samples) < 3:
                samples.append({"seed": sd, "params": pi, "sessions": sorted(srv.services)})
            # same seed, same arguments -> same model (same process)
            srv2 = sv.RandomUDSServer(sd, params)
            srv2.randomize()
            if srv2.services != srv.services:
                bad.append(f"seed={sd} params#{pi}: two randomize() runs differ")
    # across processes / hash seeds
    script = (
        "import asyncio, json, logging; logging.disable(logging.CRITICAL)\n"
        "import gallia.command\n"
        "from gallia.services.uds import server as sv\n"
        "from gallia.services.uds.core import service as S\n"
        "out = {}\n"
        "async def go():\n"
        "    dense = sv.RandomUDSServer.RandomnessParameters(p_service=1.0, p_identifier=0.5,"
        " p_sub_function=0.5)\n"
        "    for sd, prm in ((1, None), (7, None), (42, None), (1, dense), (7, dense)):\n"
        "        srv = sv.RandomUDSServer(sd, prm); await srv.setup()\n"
        "        ans = []\n"
        "        reqs = ['1001','1003','22f186','2e123401','3101ff00','1101','190201','3e00',"
        "'2f12340300','14ffffff','1902ff','190aff']\n"
        "        reqs += ['22%04x' % d for d in range(0, 24)] + ['2e%04xaa' % d for d in range(0, 12)]\n"
        "        reqs += ['3101%04x' % d for d in range(0, 12)] + ['2f%04x00' % d for d in range(0, 8)]\n"
        "        for raw in reqs:\n"
        "            r = await srv.respond(S.UDSRequest.parse_dynamic(bytes.fromhex(raw)))\n"
        "            ans.append(None if r is None else r.pdu.hex())\n"
        "        out[str(sd) + ('d' if prm else '')] = [sorted((k, sorted((int(a), b) for a, b in v.items())) for k, v in "
        "srv.services.items()), ans]\n"
        "asyncio.run(go()); print(json.dumps(out, sort_keys=True))\n")
    outs = []
    for hs in ("0", "1", "12345"):
        env = dict(os.environ, PYTHONHASHSEED=hs)
        p = subprocess.run([sys.executable, "-c", script], capture_output=True, text=True,
                           env=env, timeout=300)
        outs.append(p.stdout.strip() or ("ERROR " + p.stderr[-300:]))
        n += 1
    if len(set(outs)) != 1 or outs[0].startswith("ERROR"):
        bad.append("model/answers differ across processes with different PYTHONHASHSEED: "
                   + str([o[:80] for o in outs]))
    return {"evaluations": n, "n_bad": len(bad), "violations": bad[:10], "samples": samples}


def standin_unit(tier: str, seed: int):
    def harness(I: Interp) -> None:
        r = standin(tier, seed)
        I.ghost["standin"] = r
        I.ex.extra.update({"evaluations": r["evaluations"],
                           "distinct_nontrivial": r["evaluations"], "samples": r["samples"],
                           "rule": "one case = one randomize() run (seed x parameter set) checked "
                                   "against the structural postcondition, plus one subprocess per "
                                   "PYTHONHASHSEED; all cases are distinct by construction"})
        I.prove("B-randomize-structure-and-cross-process-identity(bounded-standin)",
                z3.BoolVal(r["n_bad"] == 0),
                "; ".join(r["violations"][:2]) or f"{r['evaluations']} models")
    return harness


def build_units(tier: str, seed: int = 0) -> list[Unit]:
    return [Unit("effects/determinism", effect_harness),
            Unit("vecu/RngVirtualECU._server", vecu_seed_harness),
            Unit("standin/randomize", standin_unit(tier, seed),
                 bounded="6 parameter sets x 60 (quick) / 400 (thorough) seeds; 3 hash seeds")]


def native_vecu(model: dict) -> tuple[bool, str]:
    import logging
    logging.disable(logging.CRITICAL)
    import gallia.command  # noqa: F401
    from gallia.commands.script import vecu
    seeds = [0, 1, 3, 2 ** 31]
    if isinstance(model.get("seed"), int) and model["seed"] >= 0:
        seeds.insert(0, model["seed"])
    for sd in seeds:
        got = []
        for _ in range(2):
            cfg = vecu.RngVirtualECUConfig(target="unix-lines:///tmp/c16-vecu.sock", seed=sd)
            got.append(vecu.RngVirtualECU(cfg)._server().seed)
        if got != [sd, sd]:
            return True, f"two virtual ECUs started with --seed {sd} run with the seeds {got}"
    return False, f"seeds {seeds} are passed through unchanged"


def native_hashseed() -> tuple[bool, str]:
    """the same arguments given as strings (as the command line delivers them), three processes
    with different PYTHONHASHSEED: the models must be identical"""
    import os
    import subprocess
    import sys
    prog = (
        "import asyncio, logging\n"
        "logging.disable(logging.CRITICAL)\n"
        "import gallia.command\n"
        "from gallia.commands.script import vecu\n"
        "cfg = vecu.RngVirtualECUConfig(target='unix-lines:///tmp/c16-h.sock', seed=5,\n"
        "    mandatory_sessions=['1', '2', '3'], optional_sessions=[str(i) for i in range(4, 40)],\n"
        "    mandatory_services=['16', '39', '62'], optional_services=['17', '34', '46', '49', '20', '25'])\n"
        "s = vecu.RngVirtualECU(cfg)._server()\n"
        "asyncio.run(s.setup())\n"
        "print(sorted((k, sorted((int(a), b) for a, b in v.items())) for k, v in s.services.items()))\n")
    outs = []
    for hs in ("1", "2", "3"):
        env = dict(os.environ, PYTHONHASHSEED=hs)
        r = subprocess.run([sys.executable, "-c", prog], capture_output=True, text=True, env=env,
                           timeout=120)
        outs.append(r.stdout.strip() or r.stderr.strip()[-300:])
    if len(set(outs)) > 1:
        return True, ("same seed and (string) arguments, PYTHONHASHSEED=1/2/3: different models, "
                      f"e.g. {outs[0][:160]} ... vs {outs[1][:160]}")
    return False, "models identical across three hash seeds: " + outs[0][:120]


def native_replay(unit: str, obligation: str, model: dict) -> tuple[bool, str]:
    if "iteration-order-of-a-set" in obligation:
        return native_hashseed()
    if unit.startswith("vecu/"):
        return native_vecu(model)
    # an effect obligation has no input of its own: its native counterpart is the stand-in
    # (same seed and arguments twice, and across processes with different PYTHONHASHSEED)
    r = standin("quick", 0)
    return r["n_bad"] > 0, "; ".join(r["violations"][:4]) or "stand-in holds"


def native_search(unit: str, obligation: str, seed: int) -> dict | None:
    return {}


TRUSTED = [
    "random.Random.seed(str) and the draw sequence are a pure function of the string (CPython, "
    "same version) - cross-process identity rests on this",
    "hash(int) == int and IntEnum hashing: iteration order of int sets is independent of "
    "PYTHONHASHSEED (CPython)",
    "the AST scan sees every call site of the three classes (no dynamic dispatch to other "
    "randomness sources)",
]


def main(tier: str, seed: int, only: str | None = None, jobs: int = 16) -> int:
    chk = Check("C16", "contracts.c16", tier, seed)
    units = build_units(tier, seed)
    if only:
        units = [u for u in units if only in u.uid]
    results = run_units(units, jobs)
    chk.trusted_base = TRUSTED
    chk.assumptions = [
        "proved-partial: determinism as an effect contract (syntactic, per call site); the "
        "structure of randomize() and the cross-process identity are a labelled bounded stand-in",
        "stated exception: the wall-clock inactivity reset of handle_request",
    ]
    return chk.finish(results, native_replay, native_search)
