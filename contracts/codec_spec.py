"""Spec functions derived from the ISO table (contracts/iso14229.py): layout, ranges, symbolic
constructor arguments.  Shared by C01, C02, C03, C14."""
from __future__ import annotations

import inspect
import types
import typing
from typing import Any

import z3

from pyvc import loops, models
from pyvc.engine import Interp
from pyvc.values import (NONE, IntSeq, Unsupported, V, VBool, VBytes, VDict, VInt, VList, VObj,
                         VTuple)

from . import iso14229 as iso

U = z3.Unit


def unit(x: Any) -> Any:
    return z3.Unit(x if z3.is_expr(x) else z3.IntVal(x))


def cat(parts: list[Any]) -> Any:
    parts = [p for p in parts if p is not None]
    if not parts:
        return z3.Empty(IntSeq)
    return parts[0] if len(parts) == 1 else z3.Concat(*parts)


def be_const(I: Interp, x: Any, n: int) -> Any:
    return models.mk_be(I, x, n)


# --------------------------------------------------------------------------- symbolic arguments
def param_alternatives(cls: type) -> list[tuple[str, list[str], Any]]:
    """[(param name, [alternative kinds], default)] from the real constructor signature."""
    sig = inspect.signature(cls.__init__)
    hints = typing.get_type_hints(cls.__init__)
    out = []
    for name, p in list(sig.parameters.items())[1:]:
        ann = hints.get(name, p.annotation)
        out.append((name, kinds_of(ann), p.default))
    return out


def kinds_of(ann: Any) -> list[str]:
    import collections.abc as cabc
    import enum
    origin = typing.get_origin(ann)
    if origin in (typing.Union, types.UnionType):
        out: list[str] = []
        for a in typing.get_args(ann):
            out.extend(kinds_of(a))
        return out
    if ann is int:
        return ["int"]
    if ann is bool:
        return ["bool"]
    if ann is bytes:
        return ["bytes"]
    if ann is type(None):
        return ["none"]
    if origin in (cabc.Sequence, list):
        return ["intlist"]
    if origin is dict:
        k, v = typing.get_args(ann)
        return ["dict_int_int" if v is int else "dict_int_bytes"]
    if origin is tuple:
        return ["tuple_int_int"]
    if isinstance(ann, type) and issubclass(ann, enum.IntEnum):
        return ["enum:" + ann.__name__]
    raise Unsupported(f"constructor parameter annotation {ann!r}")


def make_arg(I: Interp, name: str, kind: str, enum_ns: Any = None) -> V:
    if kind == "int":
        return I.fresh_int(name, inp=True)
    if kind == "bool":
        return I.fresh_bool(name, inp=True)
    if kind == "bytes":
        return I.fresh_bytes(name, inp=True)
    if kind == "none":
        I.inputs[name] = NONE
        return NONE
    if kind == "intlist":
        return I.fresh_int_list(name, inp=True)
    if kind.startswith("enum:"):
        cls = getattr(enum_ns, kind[5:])
        v = I.fresh_int(name, inp=True)
        I.assume(z3.Or(*[v.t == int(m) for m in cls]))
        r = VInt(v.t, cls)
        I.inputs[name] = r
        return r
    if kind == "tuple_int_int":
        a, b = I.fresh_int(name + ".0", inp=True), I.fresh_int(name + ".1", inp=True)
        r2 = VTuple([a, b])
        return r2
    raise Unsupported(f"argument kind {kind}")


# --------------------------------------------------------------------------- layout
class View:
    """Attribute values of an object (or constructor arguments) named as in the ISO table."""

    def __init__(self, I: Interp, values: dict[str, V], suppress: Any = None):
        self.I = I
        self.values = values
        self.suppress = suppress

    def get(self, a: str) -> V:
        return self.values[a]


def read_view(I: Interp, obj: VObj, spec: dict, request: bool) -> View:
    vals: dict[str, V] = {}
    for f in all_fields(spec):
        for a in attrs_of_field(f):
            vals[a] = I.getattr_v(obj, a)
    sup = None
    if request and spec.get("sub") is not None:
        s = I.getattr_v(obj, "suppress_response")
        sup = I.truth(s)
    return View(I, vals, sup)


def all_fields(spec: dict) -> list[dict]:
    out = []
    if spec.get("sub") is not None:
        out.append(spec["sub"])
    out.extend(spec["fields"])
    return out


def attrs_of_field(f: dict) -> list[str]:
    k = f["kind"]
    if k in ("subconst", "const8"):
        return []
    if k == "nib2":
        return list(f["attr"])
    if k == "did_records":
        return list(f["attr"])
    if k == "group":
        out = []
        for g in f["fields"]:
            out.extend(attrs_of_field(g))
        return out
    return [f["attr"]]


def as_list(I: Interp, v: V) -> VList:
    if isinstance(v, VList):
        return v
    if isinstance(v, VInt):
        return VList([v])
    raise Unsupported(f"expected list, got {v!r}")


def widths(I: Interp, view: View, spec: dict) -> tuple[Any, Any]:
    for f in spec["fields"]:
        if f["kind"] == "alfid":
            a = view.get(f["attr"])
            assert isinstance(a, VInt)
            return a.t % 16, a.t / 16
    return None, None


def layout(I: Interp, spec: dict, view: View, request: bool) -> Any:
    """The byte string ISO 14229-1 prescribes for these field values (z3 Seq term)."""
    parts: list[Any] = [unit(spec["sid"] + (0 if request else 0x40))]
    al, sl = widths(I, view, spec)
    lf = None
    sub = spec.get("sub")
    if sub is not None:
        sf = z3.IntVal(sub["value"]) if sub["kind"] == "subconst" else view.get(sub["attr"]).t
        if request:
            sup = view.suppress if view.suppress is not None else z3.BoolVal(False)
            sup = z3.BoolVal(sup) if isinstance(sup, bool) else sup
            parts.append(unit(z3.If(sup, 128, 0) + sf))
        else:
            parts.append(unit(sf))
    for f in spec["fields"]:
        k = f["kind"]
        if k == "const8":
            parts.append(unit(f["value"]))
        elif k in ("u8", "enum8"):
            parts.append(unit(view.get(f["attr"]).t))
        elif k == "be16":
            parts.append(models.mk_be(I, view.get(f["attr"]).t, 2))
        elif k == "be24":
            parts.append(models.mk_be(I, view.get(f["attr"]).t, 3))
        elif k == "nib2":
            hi, lo = f["attr"]
            parts.append(unit(view.get(hi).t * 16 + view.get(lo).t))
        elif k == "alfid":
            parts.append(unit(view.get(f["attr"]).t))
        elif k == "lfid":
            lf = view.get(f["attr"]).t / 16
            parts.append(unit(view.get(f["attr"]).t))
        elif k == "be_al":
            parts.append(models.mk_be(I, view.get(f["attr"]).t, al))
        elif k == "be_sl":
            parts.append(models.mk_be(I, view.get(f["attr"]).t, sl))
        elif k == "be_lf":
            parts.append(models.mk_be(I, view.get(f["attr"]).t, lf))
        elif k == "rec":
            v = view.get(f["attr"])
            assert isinstance(v, VBytes)
            parts.append(v.t)
        elif k in ("opt16", "opt8"):
            v = view.get(f["attr"])
            if v is not NONE:
                parts.append(models.mk_be(I, v.t, 2 if k == "opt16" else 1))
        elif k == "list16":
            lst = as_list(I, view.get(f["attr"]))
            parts.append(seq_of_groups(I, lst.length(), 2,
                                       lambda j, lst=lst: models.mk_be(I, lst.at(j).t, 2),
                                       lst))
        elif k == "group":
            lists = [as_list(I, view.get(g["attr"])) for g in f["fields"]]
            kinds = [g["kind"] for g in f["fields"]]

            def elem(j: Any, lists=lists, kinds=kinds) -> Any:
                ps = []
                for lst, kd in zip(lists, kinds):
                    x = lst.at(j).t
                    if kd == "u8":
                        ps.append(unit(x))
                    elif kd == "be16":
                        ps.append(models.mk_be(I, x, 2))
                    elif kd == "be_al":
                        ps.append(models.mk_be(I, x, al))
                    elif kd == "be_sl":
                        ps.append(models.mk_be(I, x, sl))
                    else:
                        raise Unsupported(kd)
                return cat(ps)
            w = group_width(kinds, al, sl)
            parts.append(seq_of_groups(I, lists[0].length(), w, elem, lists[0]))
        elif k == "did_records":
            ids = as_list(I, view.get(f["attr"][0]))
            recs = view.get(f["attr"][1])
            assert isinstance(recs, VList)

            def elem2(j: Any, ids=ids, recs=recs) -> Any:
                r = recs.at(j)
                assert isinstance(r, VBytes)
                return z3.Concat(models.mk_be(I, ids.at(j).t, 2), r.t)
            parts.append(seq_of_groups(I, ids.length(), None, elem2, ids))
        elif k == "dtc_status":
            v = view.get(f["attr"])
            assert isinstance(v, VTuple)
            parts.append(models.mk_be(I, v.items[0].t, 3))
            parts.append(unit(v.items[1].t))
        elif k == "ext_records":
            v = view.get(f["attr"])
            assert isinstance(v, VDict)
            for kk, vv in v.items:
                parts.append(unit(kk.t))
                parts.append(vv.t)
        elif k == "dtc_dict":
            v = view.get(f["attr"])
            assert isinstance(v, VDict)
            for kk, vv in v.items:
                parts.append(models.mk_be(I, kk.t, 3))
                parts.append(unit(vv.t))
        else:
            raise Unsupported(f"layout of field kind {k}")
    return cat(parts)


def group_width(kinds: list[str], al: Any, sl: Any) -> int | None:
    w = 0
    for kd in kinds:
        if kd == "u8":
            w += 1
        elif kd == "be16":
            w += 2
        elif kd in ("be_al", "be_sl"):
            x = z3.simplify(al if kd == "be_al" else sl)
            if not z3.is_int_value(x):
                return None
            w += x.as_long()
    return w


def seq_of_groups(I: Interp, n: Any, width: int | None, elem: Any, lst: VList) -> Any:
    if lst.items is not None:
        return cat([elem(z3.IntVal(j)) for j in range(len(lst.items))])
    return loops.get_chunks(I, n, width, elem, "spec").seq


# --------------------------------------------------------------------------- ranges
def forall(I: Interp, n: Any, pred: Any) -> Any:
    return z3.Not(loops.exists_fn(I, n, lambda j: z3.Not(pred(j))))


def rng(x: Any, lo: int, hi: int) -> Any:
    return z3.And(x >= lo, x <= hi)


def each(I: Interp, v: V, pred: Any) -> Any:
    """pred over a scalar or every element of a list value."""
    if isinstance(v, VInt):
        return pred(v.t)
    if isinstance(v, VBool):
        return pred(z3.If(v.t, 1, 0))
    if isinstance(v, VList):
        if v.items is not None:
            cs = [pred(x.t) for x in v.items]
            return z3.And(*cs) if cs else z3.BoolVal(True)
        return forall(I, v.n, lambda j: pred(v.at(j).t))
    raise Unsupported(f"range over {v!r}")


def in_range(I: Interp, spec: dict, view: View, alfid_given: bool = True) -> tuple[Any, Any]:
    """(integer-field ranges incl. parity and list-length equality, record/list length rules).

    The first formula is what a constructor must enforce (E-refuse); the second lists the
    documented length rules a constructor may additionally enforce (E-accept allows both).
    """
    ints: list[Any] = []
    recs: list[Any] = []
    al, sl = widths(I, view, spec)
    lf = None
    sub = spec.get("sub")
    if sub is not None and sub["kind"] == "subfn":
        x = view.get(sub["attr"]).t
        ints.append(rng(x, 0, 0x7F))
        if sub.get("parity") is not None:
            ints.append(x % 2 == sub["parity"])
    for f in spec["fields"]:
        k = f["kind"]
        if k == "u8":
            ints.append(each(I, view.get(f["attr"]), lambda x: rng(x, 0, 0xFF)))
        elif k == "be16":
            ints.append(each(I, view.get(f["attr"]), lambda x: rng(x, 0, 0xFFFF)))
        elif k == "be24":
            ints.append(each(I, view.get(f["attr"]), lambda x: rng(x, 0, 0xFFFFFF)))
        elif k == "nib2":
            for a in f["attr"]:
                ints.append(rng(view.get(a).t, 0, 0xF))
        elif k == "alfid":
            x = view.get(f["attr"]).t
            ints.append(z3.And(rng(x, 0, 0xFF), x % 16 != 0, x / 16 != 0))
        elif k == "lfid":
            x = view.get(f["attr"]).t
            lf = x / 16
            ints.append(z3.And(rng(x, 0, 0xF0), x % 16 == 0))
        elif k in ("be_al", "be_sl", "be_lf"):
            w = {"be_al": al, "be_sl": sl, "be_lf": lf}[k]
            ints.append(each(I, view.get(f["attr"]),
                             lambda x, w=w: z3.And(x >= 0, x < models.pow256(w))))
        elif k == "rec":
            v = view.get(f["attr"])
            if f.get("min"):
                recs.append(z3.Length(v.t) >= f["min"])
        elif k in ("opt16", "opt8"):
            v = view.get(f["attr"])
            if v is not NONE:
                ints.append(rng(v.t, 0, 0xFFFF if k == "opt16" else 0xFF))
        elif k == "list16":
            lst = as_list(I, view.get(f["attr"]))
            ints.append(each(I, lst, lambda x: rng(x, 0, 0xFFFF)))
            recs.append(lst.length() >= f["min"])
        elif k == "group":
            lists = [as_list(I, view.get(g["attr"])) for g in f["fields"]]
            for lst in lists[1:]:
                ints.append(lst.length() == lists[0].length())
            recs.append(lists[0].length() >= f["min"])
            for g, lst in zip(f["fields"], lists):
                kd = g["kind"]
                if kd == "u8":
                    ints.append(each(I, lst, lambda x: rng(x, 0, 0xFF)))
                elif kd == "be16":
                    ints.append(each(I, lst, lambda x: rng(x, 0, 0xFFFF)))
                else:
                    w = al if kd == "be_al" else sl
                    ints.append(each(I, lst, lambda x, w=w: z3.And(x >= 0,
                                                                   x < models.pow256(w))))
        elif k == "enum8":
            pass
    return (z3.And(*ints) if ints else z3.BoolVal(True),
            z3.And(*recs) if recs else z3.BoolVal(True))
