"""C08 - connection loss surfaces as a bounded-time error and the next attempt recovers
(proved-partial, DESIGN 5/C08).  Per-function obligations:

  closed   DoIPConnection.read_frame_unsafe / HSFZConnection.read_frame on a closed connection
           raise a ConnectionError *before* any blocking wait
  close    a second close() (also after loss) is harmless: TCPTransport, DoIPConnection,
           DoIPTransport, HSFZConnection return at once; UnixTransport relies on the trusted
           idempotence of StreamWriter.close
  map      ack timeout -> closed + BrokenPipeError (C06/C07); empty read -> BrokenPipeError ->
           MissingResponse with cause, reconnect before the next transmission (C04)
  bounded  every blocking await below transport.read/write runs under wait_for with the caller's
           timeout (DoIP, HSFZ, tcp-lines, unix-lines, tcp)
  reconn   BaseTransport.reconnect: close first (its ConnectionError ignored), then connect
           attempts every 0.1 s under asyncio.timeout(timeout), a single attempt when timeout is
           None; DoIPTransport.reconnect defaults to 10 s
  wake     exit contract of the reader task (`_read_worker` ending on EOF / reset / garbage):
           the connection is marked closed and operations blocked on its queues are woken
Not claimed: the end-to-end 'after a peer restart the client obtains the correct reply'.
"""
from __future__ import annotations

import asyncio
from typing import Any

import z3

from pyvc import loops, models
from pyvc.engine import Explorer, Frame, Interp, PyExc
from pyvc.runner import Check, Unit, run_units
from pyvc.values import (NONE, V, VBool, VBytes, VConst, VFloat, VInt, VList, VObj, VStr, VTuple)

from . import transport_env as te
from .c06 import D, mk_conn as doip_conn
from .c07 import H, mk_conn as hsfz_conn
from .c15 import Stub, coro
from .c19 import T, install_lines


def closed_harness(which: str):
    def harness(I: Interp) -> None:
        te.install_io(I.ex)
        te.install_locks()
        blocked = {"n": 0}

        def get(I2: Interp, recv: V, args: list[V], kwargs: dict[str, V]) -> V:
            blocked["n"] += 1
            return coro(lambda: VTuple([NONE, NONE]))
        I.ex.stubs[("queue", "get")] = get
        if which == "doip":
            conn, meth = doip_conn(I, closed=True), "read_frame_unsafe"
        else:
            conn, meth = hsfz_conn(I, closed=True), "read_frame"
        try:
            I.await_v(I.call_v(I.getattr_v(conn, meth), [], {}))
            I.fail("Z-closed-connection-refuses-reads", "returned a frame")
        except PyExc as e:
            I.prove("Z-closed-connection-refuses-reads-before-blocking",
                    z3.BoolVal(blocked["n"] == 0))
            I.prove("Z-closed-connection-error-is-a-ConnectionError(retry/reconnect-path)",
                    z3.BoolVal(issubclass(e.exc.cls, ConnectionError)), e.exc.cls.__name__)
    return harness


def double_close_harness(which: str):
    def harness(I: Interp) -> None:
        te.install_io(I.ex)
        te.install_locks()
        d, h = D(), H()
        tcp, unix = T()
        I.ghost["writer_closed"] = 0
        if which == "DoIPConnection":
            obj = doip_conn(I)
        elif which == "HSFZConnection":
            obj = hsfz_conn(I)
        elif which == "TCPTransport":
            obj = VObj(tcp.TCPTransport, {"writer": te.stub("writer"), "is_closed": VBool(False)})
        elif which == "UnixTransport":
            obj = VObj(unix.UnixTransport, {"writer": te.stub("writer"),
                                            "is_closed": VBool(False)})
        else:
            closes = {"n": 0}
            I.ex.stubs[("conn", "close")] = lambda I2, r, a, k: (
                closes.__setitem__("n", closes["n"] + 1), coro(lambda: NONE))[1]
            obj = VObj(d.DoIPTransport, {"_conn": te.stub("conn"), "_is_closed": VBool(False)})
        first_raised = None
        try:
            I.await_v(I.call_v(I.getattr_v(obj, "close"), [], {}))
        except PyExc as e:
            first_raised = e.exc
        n1 = I.ghost["writer_closed"]
        try:
            I.await_v(I.call_v(I.getattr_v(obj, "close"), [], {}))
        except PyExc as e:
            I.fail("Z-second-close-is-harmless", f"raised {e.exc.cls.__name__}")
            return
        if which == "UnixTransport":
            I.prove("Z-second-close-is-harmless(relies-on-StreamWriter.close-idempotence)",
                    z3.BoolVal(True))
        else:
            I.prove("Z-second-close-is-harmless(returns-at-once)",
                    z3.BoolVal(I.ghost["writer_closed"] == n1))
        if first_raised is not None:
            I.prove("Z-close-after-loss-raises-at-most-a-ConnectionError",
                    z3.BoolVal(issubclass(first_raised.cls, ConnectionError)))
    return harness


def bounded_harness(which: str, op: str):
    """transport.read / write: the blocking part runs under wait_for(…, caller timeout)."""
    def harness(I: Interp) -> None:
        te.install_io(I.ex)
        install_lines(I.ex)
        d, h = D(), H()
        tcp, unix = T()
        blocking = {"n": 0, "under_deadline": []}

        def blocker(name: str):
            def c(I2: Interp, recv: V, args: list[V], kwargs: dict[str, V]) -> V:
                def go() -> V:
                    blocking["n"] += 1
                    return VBytes(b"\x01") if name != "write" else NONE
                return coro(go)
            return c
        I.ex.stubs[("conn", "read_diag_request")] = blocker("read")
        I.ex.stubs[("conn", "write_diag_request")] = blocker("write")
        I.ex.stubs[("reader", "read")] = blocker("read")
        I.ghost.update({"written": [], "next_message": I.fresh_bytes("m"), "at_eof": False})
        timeout = VFloat(z3.Real("caller_timeout"))
        cls = {"doip": d.DoIPTransport, "hsfz": h.HSFZTransport, "tcp": tcp.TCPTransport,
               "tcp-lines": tcp.TCPLinesTransport, "unix-lines": unix.UnixLinesTransport}[which]
        obj = VObj(cls, {"_conn": te.stub("conn"), "reader": te.stub("reader"),
                         "writer": te.stub("writer"), "is_closed": VBool(False),
                         "_is_closed": VBool(False), "BUFSIZE": VInt(8192)})
        args = [timeout, NONE] if op == "read" else [I.fresh_bytes("data"), timeout, NONE]
        from pyvc.values import Unsupported
        try:
            I.await_v(I.call_v(I.getattr_v(obj, op), args, {}))
        except Unsupported as e:
            if "does not terminate within" not in str(e):
                raise
            # a loop whose every iteration is decided the same way under the path condition
            # (e.g. re-reading at EOF): the call never returns and - without an await that
            # suspends - not even the caller's timeout can fire
            I.fail(f"B-{op}-returns(no-loop-that-repeats-without-progress)", str(e))
            return
        except PyExc as e:
            I.prove(f"B-{op}-fails-only-with-timeout-or-connection-error", z3.BoolVal(
                issubclass(e.exc.cls, (TimeoutError, ConnectionError))), e.exc.cls.__name__)
        dl = I.ghost.get("deadlines", [])
        I.prove(f"B-{op}-blocking-await-runs-under-the-caller-timeout",
                z3.BoolVal(len(dl) >= 1 and all(x is timeout for x in dl)))
    return harness


def reconnect_harness(with_timeout: bool):
    def harness(I: Interp) -> None:
        import gallia.command  # noqa: F401
        from gallia.transports import base as B
        te.install_io(I.ex)
        te.install_locks()
        log: list[str] = []
        I.ghost["sleeps"] = []

        class Dummy(B.BaseTransport, scheme="c08-dummy"):
            async def close(self) -> None:
                raise NotImplementedError

            @classmethod
            async def connect(cls, target, timeout=None):  # type: ignore
                raise NotImplementedError

            async def read(self, timeout=None, tags=None):  # type: ignore
                raise NotImplementedError

            async def write(self, data, timeout=None, tags=None):  # type: ignore
                raise NotImplementedError

        def close(I2: Interp, self_: V) -> V:
            def go() -> V:
                log.append("close")
                if I2.choose([z3.BoolVal(True)] * 2) == 1:
                    I2.raise_py(ConnectionResetError, "close failed")
                return NONE
            return coro(go)
        new = te.stub("new-transport")

        def connect(I2: Interp, cls: V, target: V, timeout: V = NONE) -> V:
            def go() -> V:
                log.append("connect")
                # contract of connect(): the new transport, or any ConnectionError (refused
                # while the peer is down, reset / broken pipe while it is half up: e.g. DoIP
                # routing activation on a gateway that accepts TCP but does not answer yet)
                k = I2.choose([z3.BoolVal(True)] * 5)
                if k >= 1:
                    log.append("connect!")
                    I2.raise_py([ConnectionRefusedError, BrokenPipeError, ConnectionResetError,
                                 ConnectionAbortedError][k - 1], "peer not up yet")
                return new
            return coro(go)
        I.ex.contracts[Dummy.close] = close
        I.ex.contracts[Dummy.__dict__["connect"].__func__] = connect

        def sleep(I2: Interp, args: list[V], kwargs: dict[str, V]) -> V:
            I2.ghost["sleeps"].append(args[0])
            return coro(lambda: NONE)
        models.MODELS[asyncio.sleep] = sleep

        def timeout_cm(I2: Interp, cm: V) -> Any:
            if isinstance(cm, VObj) and cm.tag == "timeout-cm":
                return (lambda: NONE), (lambda exc: False)
            return None
        if timeout_cm not in models.WITH_MODELS:
            models.WITH_MODELS.append(timeout_cm)

        def mk_timeout(I2: Interp, args: list[V], kwargs: dict[str, V]) -> V:
            I2.ghost["timeout_arg"] = args[0]
            return VObj(Stub, {}, lazy=True, tag="timeout-cm")
        models.MODELS[asyncio.timeout] = mk_timeout
        target = te.stub("target")
        t = VObj(Dummy, {"mutex": te.stub("lock:transport.mutex"), "target": target,
                         "is_closed": VBool(False)})
        to: V = VFloat(z3.Real("timeout")) if with_timeout else NONE

        def havoc(I2: Interp, fr: Frame) -> None:
            log.clear()
            log.append("close")
            fr.env.pop("e", None)

        def inv(I2: Interp, fr: Frame) -> list[tuple[str, Any]]:
            if "connect!" not in log:
                return []
            sl = I2.ghost["sleeps"]
            return [("failed-attempt-is-followed-by-a-0.1s-pause", z3.BoolVal(
                with_timeout and len(sl) >= 1 and isinstance(sl[-1], VFloat)
                and sl[-1].concrete() == 0.1))]
        I.ex.loop_contracts[("BaseTransport.reconnect", 0)] = loops.LoopContract(havoc, inv)
        raised = None
        try:
            r = I.await_v(I.call_v(I.getattr_v(t, "reconnect"), [to], {}))
        except PyExc as e:
            raised, r = e.exc, None
        I.prove("N-close-before-the-first-connect-attempt",
                z3.BoolVal(log[:1] == ["close"] and log.count("close") == 1))
        I.prove("N-mutex-released", z3.BoolVal(not I.ghost.get("held")))
        I.prove("N-connect-attempts-run-under-asyncio.timeout(timeout)",
                z3.BoolVal(I.ghost.get("timeout_arg") is to))
        if raised is None:
            I.prove("N-returns-the-new-transport", z3.BoolVal(r is new))
        else:
            I.prove("N-gives-up-only-without-a-timeout(single-attempt)", z3.BoolVal(
                not with_timeout and issubclass(raised.cls, ConnectionError)))
    return harness


def doip_reconnect_harness(I: Interp) -> None:
    d = D()
    import gallia.command  # noqa: F401
    from gallia.transports import base as B
    seen: dict[str, V] = {}

    def base_reconnect(I2: Interp, self_: V, timeout: V = NONE) -> V:
        seen["t"] = timeout
        return coro(lambda: self_)
    I.ex.contracts[B.BaseTransport.reconnect] = base_reconnect
    t = VObj(d.DoIPTransport, {})
    given = I.choose([z3.BoolVal(True)] * 2) == 0
    to: V = VFloat(z3.Real("timeout")) if given else NONE
    I.await_v(I.call_v(I.getattr_v(t, "reconnect"), [to], {}))
    if given:
        I.prove("N-doip-reconnect-keeps-the-caller-timeout", z3.BoolVal(seen["t"] is to))
    else:
        I.prove("N-doip-reconnect-defaults-to-10s", models.to_real(seen["t"]) == 10)


def wake_harness(which: str):
    """Exit contract of the reader task: when `_read_worker` ends because the peer closed, reset
    or sent garbage, (a) the connection is marked closed, so that later reads fail at once, and
    (b) operations already blocked on a queue of the connection are woken (a sentinel is queued
    or the waiters are cancelled).  Without (b) a read issued with timeout=None before the loss
    never ends."""
    def harness(I: Interp) -> None:
        te.install_io(I.ex)
        te.install_locks()
        if which == "doip":
            mod, conn = D(), doip_conn(I)
            cls, closed_attr = mod.DoIPConnection, "_is_closed"
        else:
            mod, conn = H(), hsfz_conn(I)
            cls, closed_attr = mod.HSFZConnection, "_closed"
        wakes: list[str] = []
        I.ghost["closes"] = 0
        kind = I.choose([z3.BoolVal(True)] * 3)
        exc = [asyncio.IncompleteReadError, ConnectionResetError, ValueError][kind]

        def read_frame(I2: Interp, self_: V) -> V:
            def go() -> V:
                fields: dict[str, V] = {"args": VTuple([])}
                if exc is asyncio.IncompleteReadError:
                    fields.update({"partial": VBytes(b""), "expected": VInt(8)})
                raise PyExc(VObj(exc, fields))
            return coro(go)
        I.ex.contracts[cls._read_frame] = read_frame
        for q in ("queue", "dqueue"):
            for m in ("put", "put_nowait", "shutdown"):
                def woke(I2: Interp, r: V, a: list[V], k: dict[str, V], q: str = q,
                         m: str = m) -> V:
                    wakes.append(f"{q}.{m}")
                    return coro(lambda: NONE) if m == "put" else NONE
                I.ex.stubs[(q, m)] = woke
        # close() is executed from its real text (writer/task by contract): whether the
        # connection ends up marked closed is decided on the code, for every state the writer
        # can be in after the loss (is_closing() is already true after a reset)
        try:
            I.await_v(I.call_v(I.getattr_v(conn, "_read_worker"), [], {}))
        except PyExc as e:
            I.fail("W-reader-task-ends-without-raising", e.exc.cls.__name__)
            return
        tag = ["EOF", "reset", "garbage"][kind]
        closed = conn.fields.get(closed_attr)
        I.prove(f"W-reader-exit-marks-the-connection-closed{{{tag}}}",
                closed.t if isinstance(closed, VBool) else z3.BoolVal(False))
        I.prove(f"W-reader-exit-wakes-reads-blocked-on-the-queue{{{tag}}}",
                z3.BoolVal(bool(wakes)), "no sentinel is queued and no waiter is cancelled")
    return harness


def _retry_setup(ex: Explorer) -> None:
    from . import c04
    c04.install(ex)
    # the exchange logic is C04's; here only the obligations about which transport object is
    # used after a reconnect (recovery needs the reconnected one)
    # ... and that a connection lost before the first reply (error or empty read) is surfaced as
    # a retry / MissingResponse with its cause, never as a bare connection error without
    # reconnect
    ex.obligation_filter = lambda name: (name.startswith("T-") and "transport" in name) or \
        name.startswith(("O-connection-loss-before", "O-cause-set-iff",  # type: ignore[attr-defined]
                         "P-parse_pdu-is-called-with-a-non-empty"))


def build_units(tier: str) -> list[Unit]:
    units = [Unit("closed/doip", closed_harness("doip")),
             Unit("closed/hsfz", closed_harness("hsfz")),
             Unit("wake/doip", wake_harness("doip")), Unit("wake/hsfz", wake_harness("hsfz")),
             Unit("reconnect/with-timeout", reconnect_harness(True)),
             Unit("reconnect/without-timeout", reconnect_harness(False)),
             Unit("reconnect/doip-default", doip_reconnect_harness)]
    for w in ("DoIPConnection", "HSFZConnection", "TCPTransport", "UnixTransport",
              "DoIPTransport"):
        units.append(Unit(f"double-close/{w}", double_close_harness(w)))
    from . import c04
    units.append(Unit("retry/UDSClient.request_unsafe(max_retry=1)",
                      c04.make_harness("none", "none", "float", concrete_retry=1),
                      setup=_retry_setup, max_paths=20000,
                      bounded="max_retry = 1 (the unbounded retry loop is C04's)"))
    for w in ("doip", "hsfz", "tcp", "tcp-lines", "unix-lines"):
        for op in ("read", "write"):
            units.append(Unit(f"bounded/{w}/{op}", bounded_harness(w, op)))
    return units


def native_hang(which: str) -> tuple[bool, str]:
    """the real read() at EOF / on silence, in a child process with a hard limit (a coroutine
    that spins without suspending blocks the whole event loop, so it cannot be timed in-process)"""
    import subprocess
    import sys
    prog = (
        "import asyncio, sys\n"
        "import gallia.command\n"
        "from gallia.transports import tcp, unix\n"
        "from gallia.transports.base import TargetURI\n"
        "class W:\n"
        "    def write(self, b): pass\n"
        "    async def drain(self): pass\n"
        "    def close(self): pass\n"
        "    async def wait_closed(self): pass\n"
        "    def is_closing(self): return False\n"
        "    def get_extra_info(self, *a): return None\n"
        "async def go():\n"
        "    r = asyncio.StreamReader()\n"
        "    cls = tcp.TCPLinesTransport if sys.argv[1] == 'tcp-lines' else unix.UnixLinesTransport\n"
        "    t = cls.__new__(cls)\n"
        "    t.reader, t.writer, t.is_closed, t.mutex = r, W(), False, asyncio.Lock()\n"
        "    t.target = TargetURI('tcp-lines://127.0.0.1:1')\n"
        "    r.feed_eof()\n"
        "    try:\n"
        "        d = await t.read(timeout=0.5)\n"
        "        print('returned', d)\n"
        "    except Exception as e:\n"
        "        print('raised', type(e).__name__)\n"
        "asyncio.run(go())\n")
    try:
        r = subprocess.run([sys.executable, "-c", prog, which], capture_output=True, text=True,
                           timeout=8)
    except subprocess.TimeoutExpired:
        return True, (f"{which}: read(timeout=0.5) at EOF did not come back within 8 s - the "
                      "event loop is stuck, the caller's timeout never fires")
    return False, f"{which}: read at EOF {r.stdout.strip() or r.stderr.strip()[-200:]}"


def native_replay(unit: str, obligation: str, model: dict) -> tuple[bool, str]:
    import logging
    logging.disable(logging.CRITICAL)
    if "no-loop-that-repeats-without-progress" in obligation:
        return native_hang(unit.split("/")[1])
    h = H()
    from .c06 import FakeWriter

    async def wake() -> tuple[bool, str]:
        r = asyncio.StreamReader()
        if unit == "wake/doip":
            conn: Any = D().DoIPConnection(r, FakeWriter(), 0x0E00, 0x1D, 3)  # type: ignore
            read = conn.read_frame
        else:
            conn = h.HSFZConnection(r, FakeWriter(), 0xF4, 0x10, 0.05)  # type: ignore
            read = conn.read_frame
        if "marks-the-connection-closed" in obligation:
            # loss first (a reset: asyncio has already put the transport into closing state),
            # then a read without a caller timeout
            conn.writer.closing = True
            r.feed_eof()
            await asyncio.sleep(0.05)
            t = asyncio.ensure_future(read())
            order = "issued after the peer closed"
        else:
            t = asyncio.ensure_future(read())
            await asyncio.sleep(0.05)
            r.feed_eof()
            order = "pending when the peer closed"
        done, _ = await asyncio.wait([t], timeout=0.6)
        if done:
            e = t.exception()
            return False, f"the read ended with {type(e).__name__ if e else 'a frame'}"
        t.cancel()
        return True, (f"{type(conn).__name__}: a read without caller timeout, {order}, is still "
                      f"blocked 0.6 s after the reader task ended (observation window; nothing "
                      f"can wake it any more)")
    if unit.startswith("wake/"):
        return asyncio.run(wake())
    if unit.startswith("reconnect/"):
        return native_reconnect()
    if unit.startswith("retry/"):
        # the scripted-transport reference search of C04 (reconnect hands out a new transport,
        # the old one is dead)
        from . import c04
        m = c04.native_search(unit, "O-reference-outcome", 0)
        if m is None:
            return False, "every event script up to length 3 ends as the statement implies"
        return c04.native_replay(unit, "O-reference-outcome", m)
    if unit != "closed/hsfz":
        return False, "no native scenario for this obligation"

    async def go() -> tuple[bool, str]:
        r = asyncio.StreamReader()
        conn = h.HSFZConnection(r, FakeWriter(), 0xF4, 0x10, 0.05)  # type: ignore
        await conn.close()
        try:
            await conn.read_frame()
            return False, "read on a closed connection returned"
        except ConnectionError as e:
            return False, f"raises {type(e).__name__} (a ConnectionError)"
        except Exception as e:  # noqa: BLE001
            return True, (f"HSFZConnection.read_frame on a closed connection raises "
                          f"{type(e).__name__}({e}), which is not a ConnectionError: "
                          f"UDSClient.request_unsafe neither maps it to MissingResponse nor "
                          f"reconnects")
    return asyncio.run(go())


def native_reconnect() -> tuple[bool, str]:
    """A peer that is half up for two connection attempts (TCP accepted, then broken pipe / reset
    during the protocol handshake) and serves the third."""
    import gallia.command  # noqa: F401
    from gallia.transports.base import BaseTransport, TargetURI
    attempts: list[str] = []

    class Flaky(BaseTransport, scheme="c08-flaky"):
        def __init__(self, target: Any = None) -> None:
            self.mutex = asyncio.Lock()
            self.target = target
            self.is_closed = False

        async def close(self) -> None:
            pass

        @classmethod
        async def connect(cls, target: Any, timeout: float | None = None) -> Any:
            kinds = [ConnectionRefusedError, BrokenPipeError, ConnectionResetError]
            if len(attempts) < len(kinds):
                attempts.append(kinds[len(attempts)].__name__)
                raise kinds[len(attempts) - 1]("peer not ready")
            attempts.append("ok")
            return cls(target)

        async def read(self, timeout: float | None = None, tags: Any = None) -> bytes:
            return b""

        async def write(self, data: bytes, timeout: float | None = None, tags: Any = None) -> int:
            return len(data)

    async def go() -> tuple[bool, str]:
        t = Flaky(TargetURI("c08-flaky://127.0.0.1:1"))
        try:
            new = await t.reconnect(timeout=2)
        except Exception as e:  # noqa: BLE001
            return True, (f"reconnect(timeout=2) gave up with {type(e).__name__} after the "
                          f"connection attempts {attempts}; the next attempt would have succeeded")
        return new is t, f"attempts {attempts}"
    return asyncio.run(go())


def native_search(unit: str, obligation: str, seed: int) -> dict | None:
    return {}


TRUSTED = [
    "pyvc VC generator; z3 5.1.0",
    "asyncio.wait_for / asyncio.timeout (cancel the awaitable at the deadline, raise "
    "TimeoutError); StreamWriter.close/wait_closed idempotent",
    "C04 (client maps empty read / connection errors to MissingResponse and reconnects before "
    "the next transmission), C06/C07 (ack timeout -> closed + BrokenPipeError)",
]


def main(tier: str, seed: int, only: str | None = None, jobs: int = 16) -> int:
    chk = Check("C08", "contracts.c08", tier, seed)
    units = build_units(tier)
    if only:
        units = [u for u in units if only in u.uid]
    results = run_units(units, jobs)
    chk.trusted_base = TRUSTED
    chk.assumptions = [
        "proved-partial: per-function ingredients only; 'never blocks forever' is decided as an "
        "exit contract of the reader task (wake units); the end-to-end recovery after a peer "
        "restart is not decidable by per-function contracts and is not claimed",
    ]
    return chk.finish(results, native_replay, native_search)
