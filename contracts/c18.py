"""C18 - settings resolve command line > environment > configuration file > default
(proved-partial + labelled bounded stand-in).

  L1  (deductive) `cli/gallia._create_parser_from_command`, with `attributes_from_config` /
      `attributes_from_env`, is executed from the real AST for every command of the command tree
      (the field table `CONFIG_TYPE.model_fields` is concrete data of the class; the configuration
      file and the environment are oracles): for every option o that carries config metadata,
      the *extra default* handed to the argument parser is
          (environment source, value of GALLIA_<O>)        if that variable is set,
          (file source, value of <section>.<o>)            else if the key is in the file,
          absent                                            otherwise,
      looked up under exactly those two names, the source text naming where the value came from;
      this holds with all other options absent and with all of them present (frame).
  M   (deductive, on the class data) every option of every command carries that metadata.
  B   (bounded stand-in, labelled, not counted as proved) the layer L1 does not reach - argparse /
      the vendored pydantic_argparse turning extra defaults into defaults and the command line
      overriding them - is run natively: for every command x option for which three distinct valid
      raw values can be synthesised, the value parsed from the command line alone, from the
      environment alone and from the file alone agree, and with all of them given the command line
      wins over the environment, the environment over the file, the file over the default.
Not covered: META.json / database round trip of the configuration (rerun), the config template.
"""
from __future__ import annotations

import contextlib
import io
import json
import os
import tempfile
import typing
from typing import Any

import z3

from pyvc import models
from pyvc.engine import Explorer, Interp, PyExc
from pyvc.runner import Check, Unit, run_units
from pyvc.values import NONE, V, VBool, VConst, VDict, VInt, VList, VObj, VStr, VTuple

from .c15 import Stub


def tree() -> list[tuple[tuple[str, ...], type]]:
    import logging
    logging.disable(logging.CRITICAL)
    import gallia.command  # noqa: F401
    from gallia.plugins.plugin import CommandTree, load_commands

    def walk(t: Any, path: tuple[str, ...] = ()) -> Any:
        for k, v in t.items():
            if isinstance(v, CommandTree):
                yield from walk(v.subtree, path + (k,))
            else:
                yield path + (k,), v
    return list(walk(load_commands()))


def cause_of_missing_metadata(cfg_type: type, name: str) -> str:
    """Why a model field is a plain pydantic FieldInfo."""
    from gallia.command.config import GalliaBaseModel
    for klass in cfg_type.__mro__:
        if name in getattr(klass, "__annotations__", {}):
            if not (isinstance(klass, type) and issubclass(klass, GalliaBaseModel)):
                return "declared-in-a-plain-pydantic-model"
            try:
                hint = typing.get_type_hints(klass, include_extras=True)[name]
            except Exception:  # noqa: BLE001
                return "unknown"
            if typing.get_origin(hint) is typing.Annotated:
                return "annotated-alias-type-drops-the-field-class"
            return "declared-without-gallia-Field"
    return "unknown"


def metadata_harness(path: tuple[str, ...], cmd: type):
    def harness(I: Interp) -> None:
        from gallia.command.config import ConfigArgFieldInfo
        n = 0
        for name, info in cmd.CONFIG_TYPE.model_fields.items():
            if getattr(info, "hidden", False):
                continue
            n += 1
            ok = isinstance(info, ConfigArgFieldInfo)
            suffix = "" if ok else "{" + cause_of_missing_metadata(cmd.CONFIG_TYPE, name) + "}"
            I.prove(f"M-option-{name}-carries-its-config-metadata(env/file-lookup){suffix}",
                    z3.BoolVal(ok), f"{type(info).__name__}")
        I.prove("M-command-has-options", z3.BoolVal(n > 0))
    return harness


def layer1_harness(path: tuple[str, ...], cmd: type):
    def harness(I: Interp) -> None:
        from gallia.cli import gallia as G
        from gallia.command.config import ConfigArgFieldInfo
        import pydantic
        fields = [(n, i) for n, i in cmd.CONFIG_TYPE.model_fields.items()
                  if isinstance(i, ConfigArgFieldInfo)]
        if not fields:
            I.prove("L1-command-has-configurable-options", z3.BoolVal(False))
            return
        k = I.choose([z3.BoolVal(True)] * len(fields))
        fname, finfo = fields[k]
        others_present = I.choose([z3.BoolVal(True)] * 2) == 1
        in_env = I.choose([z3.BoolVal(True)] * 2) == 1
        in_file = I.choose([z3.BoolVal(True)] * 2) == 1
        sec = finfo.config_section
        file_key = (f"{sec}.{fname}" if sec != "" else fname) if sec is not None else None
        env_key = f"GALLIA_{fname.upper()}"
        env_val, file_val = VStr(t=z3.String("env_value")), VStr(t=z3.String("file_value"))
        looked_file: list[str] = []
        looked_env: list[str] = []

        def get_value(I2: Interp, r: V, a: list[V], kw: dict[str, V]) -> V:
            key = a[0].s if isinstance(a[0], VStr) else None
            looked_file.append(key)
            if key == file_key:
                return file_val if in_file else NONE
            if key is None or key.startswith("None."):
                # options of a config class without section are looked up as "None.<name>":
                # no file has such a table (assumption, reported)
                I2.ex.assumptions.add("gallia.toml has no table called 'None' (options without "
                                      "a config section are looked up as None.<name>)")
                return NONE
            return VStr("other-file-value:" + str(key)) if others_present else NONE
        I.ex.stubs[("config", "get_value")] = get_value

        def getenv(I2: Interp, a: list[V], kw: dict[str, V]) -> V:
            key = a[0].s if isinstance(a[0], VStr) else None
            looked_env.append(key)
            if key == env_key:
                return env_val if in_env else NONE
            return VStr("other-env-value:" + str(key)) if others_present else NONE
        models.MODELS[os.getenv] = getenv
        model = VObj(Stub, {}, lazy=True, tag="dynamic-model")
        models.MODELS[pydantic.create_model] = lambda I2, a, kw: model
        models.MODELS[G.create_model] = lambda I2, a, kw: model
        models.MODELS[setattr] = lambda I2, a, kw: NONE
        extra = VDict([])
        try:
            r = I.call(G._create_parser_from_command, VConst(cmd),
                       VObj(Stub, {}, lazy=True, tag="config"), extra, VInt(0))
        except PyExc as e:
            I.fail("L1-_create_parser_from_command-does-not-raise", e.exc.cls.__name__)
            return
        got_model, got_extra, _ = r.items
        I.prove("L1-extra-defaults-are-registered-for-the-dynamic-model",
                z3.BoolVal(got_model is model and got_extra is extra
                           and len(extra.items) == 1 and extra.items[0][0] is model))
        if len(extra.items) != 1:
            return
        attrs = extra.items[0][1]
        entry = None
        if isinstance(attrs, VDict):
            for kk, vv in attrs.items:
                if isinstance(kk, VStr) and kk.s == fname:
                    entry = vv
        tag = f"{fname}"
        if in_env:
            ok = isinstance(entry, VTuple) and len(entry.items) == 2 and entry.items[1] is env_val
            I.prove(f"L1-{tag}:environment-value-wins-over-the-file", z3.BoolVal(ok))
            src = entry.items[0].s if ok and isinstance(entry.items[0], VStr) else ""
            I.prove(f"L1-{tag}:source-text-names-the-environment-variable",
                    z3.BoolVal(env_key in (src or "")), src or "")
        elif in_file and file_key is not None:
            ok = isinstance(entry, VTuple) and len(entry.items) == 2 and entry.items[1] is file_val
            I.prove(f"L1-{tag}:file-value-is-used-without-an-environment-value", z3.BoolVal(ok))
            src = entry.items[0].s if ok and isinstance(entry.items[0], VStr) else ""
            I.prove(f"L1-{tag}:source-text-names-the-file-key",
                    z3.BoolVal(fname in (src or "") and str(sec) in (src or "")), src or "")
        else:
            I.prove(f"L1-{tag}:no-extra-default-without-a-source", z3.BoolVal(entry is None))
        I.prove(f"L1-{tag}:environment-is-looked-up-under-GALLIA_<NAME>",
                z3.BoolVal(looked_env.count(env_key) == 1))
        if file_key is not None:
            I.prove(f"L1-{tag}:file-is-looked-up-under-<section>.<name>",
                    z3.BoolVal(looked_file.count(file_key) == 1))
    return harness


# --------------------------------------------------------------------------- bounded stand-in
CANDS = [("1", "2", "3"), ("0x11", "0x12", "0x13"), ("a1", "b2", "c3"), ("1.5", "2.5", "3.5"),
         ("tcp-lines://127.0.0.1:1", "tcp-lines://127.0.0.1:2", "tcp-lines://127.0.0.1:3"),
         ("/tmp/c18a", "/tmp/c18b", "/tmp/c18c")]


class Env:
    """One parse of the real command line parser under a given environment / file."""

    def __init__(self) -> None:
        self.tmp = tempfile.mkdtemp(prefix="c18_")
        self.cfgfile = os.path.join(self.tmp, "gallia.toml")
        import gallia.command  # noqa: F401  (import order: command before plugins)
        from gallia.plugins.plugin import load_commands
        self.cmds = load_commands()

    def parse(self, path: tuple[str, ...], argv: list[str], env: dict[str, str] | None = None,
              file_kv: dict[tuple[str, str], Any] | None = None) -> tuple[Any, str]:
        from gallia.cli import gallia as G
        for k in list(os.environ):
            if k.startswith("GALLIA_"):
                del os.environ[k]
        secs: dict[str, dict[str, Any]] = {}
        for (sec, name), v in (file_kv or {}).items():
            secs.setdefault(sec, {})[name] = v
        with open(self.cfgfile, "w") as f:
            for sec, kv in secs.items():
                if sec:
                    f.write(f"[{sec}]\n")
                for n_, v in kv.items():
                    f.write(f"{n_} = {json.dumps(v)}\n")
        os.environ["GALLIA_CONFIG"] = self.cfgfile
        for k, v in (env or {}).items():
            os.environ[k] = v
        err = io.StringIO()
        try:
            with contextlib.redirect_stderr(err), contextlib.redirect_stdout(io.StringIO()):
                p = G.create_parser(self.cmds)
                _, cfg = p.parse_typed_args(list(path) + argv)
            return cfg, err.getvalue()
        except SystemExit:
            return None, err.getvalue()
        except Exception as e:  # noqa: BLE001
            return None, f"{type(e).__name__}: {e}"
        finally:
            for k in list(os.environ):
                if k.startswith("GALLIA_"):
                    del os.environ[k]

    def close(self) -> None:
        import shutil
        shutil.rmtree(self.tmp, ignore_errors=True)


def base_argv(cfg_type: type) -> list[str]:
    out: list[str] = []
    if "target" in cfg_type.model_fields:
        vecu = "VirtualECU" in cfg_type.__name__
        out += ["--target", "unix-lines:///tmp/c18.sock" if vecu else "tcp-lines://127.0.0.1:9"]
    return out


def norm(v: Any) -> Any:
    """Comparable form of a parsed option value (objects without __eq__ by their state)."""
    if isinstance(v, (int, float, str, bytes, bool, type(None))):
        return v
    if isinstance(v, (list, tuple)):
        return [norm(x) for x in v]
    if isinstance(v, dict):
        return {str(k): norm(x) for k, x in v.items()}
    if hasattr(v, "raw"):
        return ("raw", str(v.raw))
    if hasattr(v, "__dict__") and type(v).__eq__ is object.__eq__:
        return (type(v).__name__, {k: norm(x) for k, x in vars(v).items()})
    return repr(v)


def same(a: Any, b: Any) -> bool:
    return repr(norm(a)) == repr(norm(b))


def standin_command(env: Env, path: tuple[str, ...], cmd: type) -> dict:
    from gallia.command.config import ConfigArgFieldInfo
    cfg_type = cmd.CONFIG_TYPE
    bad: list[str] = []
    n_cases = 0
    covered: list[str] = []
    skipped: list[str] = []
    base = base_argv(cfg_type)
    cfg0, e0 = env.parse(path, base)
    if cfg0 is None and "transport schem" in e0:
        for tgt in ("can-raw://vcan0", "unix-lines:///tmp/c18.sock", "tcp://127.0.0.1:9",
                    "isotp://vcan0?src_addr=1&dst_addr=2&is_fd=false&is_extended=false"):
            base = ["--target", tgt]
            cfg0, e0 = env.parse(path, base)
            if "transport schem" not in e0:
                break
    # other required options: give each a value the parser accepts
    import re
    for _ in range(8):
        if cfg0 is not None:
            break
        m = re.search(r"the following arguments are required: (.*)", e0)
        if not m:
            break
        for opt_ in [x.strip() for x in m.group(1).split(",")]:
            ch = re.search(re.escape(opt_) + r" \{([^}]*)\}", e0)
            extra_c = [tuple(x.strip() for x in ch.group(1).split(","))[:1] * 3] if ch else []
            for cand in extra_c + CANDS + [("00", "01", "02")]:
                trial = base + [opt_, cand[0]]
                c_, e_ = env.parse(path, trial)
                if c_ is not None or (opt_ not in e_.split("error:")[-1]):
                    base = trial
                    break
        cfg0, e0 = env.parse(path, base)
    if cfg0 is None and "data" in cfg_type.model_fields:
        base = base + ["--data", "00"]
        cfg0, e0 = env.parse(path, base)
    if cfg0 is None:
        return {"cases": 0, "bad": [], "covered": [], "skipped": list(cfg_type.model_fields),
                "note": f"base command line not accepted: {e0[-120:]}"}
    for name, info in cfg_type.model_fields.items():
        if not isinstance(info, ConfigArgFieldInfo) or getattr(info, "hidden", False) \
                or name == "target":
            continue
        opt = "--" + name.replace("_", "-")
        if opt in base:
            skipped.append(name)
            continue
        if info.annotation is bool:
            r = standin_bool(env, path, base, name, info, cfg0)
            n_cases += r[0]
            bad += r[1]
            covered.append(name)
            continue
        triple = None
        for cand in CANDS:
            vals = []
            for raw in cand:
                c, _ = env.parse(path, base + [opt, raw])
                if c is None:
                    break
                vals.append(getattr(c, name))
            if len(vals) == 3 and len({repr(norm(v)) for v in vals}) == 3:
                triple = (cand, vals)
                break
        if triple is None:
            skipped.append(name)
            continue
        (a, b, c_), (va, vb, vc) = triple
        default = getattr(cfg0, name)
        ek = f"GALLIA_{name.upper()}"
        sec = info.config_section
        has_file = sec is not None
        fk = (sec, name) if has_file else None
        covered.append(name)
        # each source alone
        ce, _ = env.parse(path, base, env={ek: b})
        n_cases += 1
        if ce is None or not same(getattr(ce, name), vb):
            bad.append(f"{' '.join(path)} {name}: {ek}={b} alone gives "
                       f"{getattr(ce, name, None)!r}, the command line gives {vb!r}")
        if has_file:
            cf, ef = env.parse(path, base, file_kv={fk: c_})
            n_cases += 1
            if cf is None or not same(getattr(cf, name), vc):
                bad.append(f"{' '.join(path)} {name}: file key {sec}.{name}={c_!r} alone gives "
                           f"{getattr(cf, name, None)!r} ({ef[-80:]!r}), the command line gives "
                           f"{vc!r}")
        # precedence
        fkv = {fk: c_} if has_file else None
        call, _ = env.parse(path, base + [opt, a], env={ek: b}, file_kv=fkv)
        n_cases += 1
        if call is None or not same(getattr(call, name), va):
            bad.append(f"{' '.join(path)} {name}: command line {a}, environment {b}, file {c_}: "
                       f"effective {getattr(call, name, None)!r}, expected {va!r}")
        if has_file:
            cef, _ = env.parse(path, base, env={ek: b}, file_kv=fkv)
            n_cases += 1
            if cef is None or not same(getattr(cef, name), vb):
                bad.append(f"{' '.join(path)} {name}: environment {b}, file {c_}: effective "
                           f"{getattr(cef, name, None)!r}, expected {vb!r}")
        del default
    return {"cases": n_cases, "bad": bad, "covered": covered, "skipped": skipped}


TRUE_SP = ["true", "True", "1", "yes", "on", "y", "t", "Y"]
FALSE_SP = ["false", "False", "0", "no", "off", "n", "f"]
INVALID_SP = ["maybe", "2", ""]


def standin_bool(env: Env, path: tuple[str, ...], base: list[str], name: str, info: Any,
                 cfg0: Any) -> tuple[int, list[str]]:
    """Boolean options: every spelling pydantic accepts for a bool resolves to that value from the
    environment, anything else is rejected with a message naming the variable; the file's TOML
    booleans are used; --x / --no-x win over both."""
    bad: list[str] = []
    n = 0
    ek = f"GALLIA_{name.upper()}"
    opt, nopt = "--" + name.replace("_", "-"), "--no-" + name.replace("_", "-")
    where = f"{' '.join(path)} {name}"
    quick = os.environ.get("VERIF_TIER", "quick") != "thorough"
    for want, spellings in ((True, TRUE_SP[::3] if quick else TRUE_SP),
                            (False, FALSE_SP[::3] if quick else FALSE_SP)):
        for sp in spellings:
            c, e = env.parse(path, base, env={ek: sp})
            n += 1
            if c is None and ek not in e and "valid boolean" not in e:
                continue  # refused by a constraint between options, not because of this value
            if c is None or getattr(c, name) is not want:
                bad.append(f"{where}: {ek}={sp!r} gives {getattr(c, name, None)!r} "
                           f"({e.strip().splitlines()[-1][:80] if c is None and e.strip() else ''})"
                           f", expected {want}")
    for sp in INVALID_SP:
        c, e = env.parse(path, base, env={ek: sp})
        n += 1
        if c is not None:
            bad.append(f"{where}: invalid {ek}={sp!r} is not rejected (value "
                       f"{getattr(c, name)!r})")
        elif ek not in e:
            bad.append(f"{where}: the rejection of {ek}={sp!r} does not name its source: "
                       f"{e.strip().splitlines()[-1][:100] if e.strip() else ''!r}")
    sec = info.config_section
    for want in (True, False):
        if sec is not None:
            c, e = env.parse(path, base, file_kv={(sec, name): want})
            n += 1
            if c is None and name not in e:
                continue
            if c is None or getattr(c, name) is not want:
                bad.append(f"{where}: file {sec}.{name} = {str(want).lower()} gives "
                           f"{getattr(c, name, None)!r}")
            c, e = env.parse(path, base, env={ek: str(not want).lower()},
                             file_kv={(sec, name): want})
            n += 1
            if c is None and ek not in e and name not in e:
                continue
            if c is None or getattr(c, name) is not (not want):
                bad.append(f"{where}: environment {not want} over file {want} gives "
                           f"{getattr(c, name, None)!r}")
        flag = opt if want else nopt
        c, e = env.parse(path, base + [flag], env={ek: str(not want).lower()})
        n += 1
        if c is None:
            continue  # this flag form does not exist for the option (e.g. const flags)
        if getattr(c, name) is not want:
            bad.append(f"{where}: {flag} with {ek}={str(not want).lower()} gives "
                       f"{getattr(c, name)!r}")
    return n, bad


def standin_unit(chunk: int, n_chunks: int, tier: str):
    def harness(I: Interp) -> None:
        import logging
        logging.disable(logging.CRITICAL)
        os.environ["VERIF_TIER"] = tier
        env = Env()
        tot = {"cases": 0, "bad": [], "covered": 0, "skipped": 0, "samples": []}
        try:
            for i, (path, cmd) in enumerate(tree()):
                if i % n_chunks != chunk:
                    continue
                r = standin_command(env, path, cmd)
                tot["cases"] += r["cases"]
                tot["bad"] += r["bad"]
                tot["covered"] += len(r["covered"])
                tot["skipped"] += len(r["skipped"])
                if len(tot["samples"]) < 2 and r["covered"]:
                    tot["samples"].append({"command": " ".join(path),
                                           "options": r["covered"][:6],
                                           "not synthesised": r["skipped"][:6]})
        finally:
            env.close()
        I.ex.extra.update({"evaluations": tot["cases"], "distinct_nontrivial": tot["cases"],
                           "samples": tot["samples"],
                           "rule": "one case = one parse of the real command line parser with a "
                                   "given command line / environment / file; options for which "
                                   f"no three distinct valid raw values could be synthesised are "
                                   f"skipped (this chunk: {tot['skipped']} skipped, "
                                   f"{tot['covered']} covered); all cases are distinct"})
        I.prove(f"B-precedence-holds-for-every-covered-option(chunk-{chunk}/{n_chunks},"
                f"bounded-standin)", z3.BoolVal(not tot["bad"]), "; ".join(tot["bad"][:3]))
        I.ex.extra["options_covered"] = tot["covered"]
    return harness


# --------------------------------------------------------------------------- the file layer
SHAPES = ["missing", "none", "scalar", "table"]


def get_value_harness(nparts: int):
    """`Config.get_value("a.b...")` - the lookup every file-configurable option goes through:
    the value is taken only from the *exact* dotted path through nested tables; a missing key, a
    None, or a scalar where a table is expected yields the caller's default (so that the option
    falls back to its built-in default instead of inheriting an unrelated value)."""
    def harness(I: Interp) -> None:
        from gallia import config as CF
        parts = [f"k{i}" for i in range(nparts)]
        shapes = [SHAPES[I.choose([z3.BoolVal(True)] * 4)] for _ in parts]
        default = VObj(Stub, {}, tag="default")
        leaf = VObj(Stub, {}, tag="leaf-value")

        def build(i: int) -> VDict:
            sh = shapes[i]
            others = [(VStr("other"), VInt(1))]
            if sh == "missing":
                return VDict(list(others))
            if sh == "none":
                return VDict(others + [(VStr(parts[i]), NONE)])
            if sh == "scalar" or i == nparts - 1:
                val: V = leaf if i == nparts - 1 and sh != "scalar" else VObj(
                    Stub, {}, tag=f"scalar-at-{i}")
                if i == nparts - 1:
                    val = leaf
                return VDict(others + [(VStr(parts[i]), val)])
            return VDict(others + [(VStr(parts[i]), build(i + 1))])
        # the dict found along the path; levels after the first non-table are not built
        root = build(0)
        try:
            # Config is a dict subclass: `self` is the root table itself
            r = I.call_py(CF.Config.get_value, [root, VStr(".".join(parts)), default], {},
                          owner=CF.Config)
        except PyExc as e:
            I.fail("G-get_value-does-not-raise", e.exc.cls.__name__)
            return
        # reference: walk the shapes
        full = all(s_ == "table" for s_ in shapes[:-1]) and shapes[-1] in ("scalar", "table")
        I.prove("G-value-only-from-the-exact-dotted-path-otherwise-the-default",
                z3.BoolVal(r is (leaf if full else default)),
                f"shapes along the path: {shapes}")
    return harness


def native_get_value() -> tuple[bool, str]:
    import itertools
    from gallia import config as CF
    sentinel = object()
    for n in (1, 2, 3, 4):
        for shapes in itertools.product(SHAPES, repeat=n):
            d: Any = "leaf"
            ok = True
            for i in range(n - 1, -1, -1):
                sh = shapes[i]
                if i == n - 1:
                    d = {"other": 1} if sh == "missing" else {"other": 1, f"k{i}":
                                                              None if sh == "none" else "leaf"}
                    ok = sh in ("scalar", "table")
                else:
                    if sh == "table":
                        d = {"other": 1, f"k{i}": d}
                    else:
                        d = {"other": 1} if sh == "missing" else {
                            "other": 1, f"k{i}": None if sh == "none" else f"scalar-at-{i}"}
                        ok = False
            got = CF.Config(d).get_value(".".join(f"k{i}" for i in range(n)), sentinel)
            want = "leaf" if ok else sentinel
            if got is not want and got != want:
                return True, (f"Config({d}).get_value('{'.'.join(f'k{i}' for i in range(n))}', "
                              f"default) == {got!r}; the path "
                              f"{'exists' if ok else 'does not exist'}")
    return False, "get_value follows exactly the dotted path on all shapes up to 4 levels"



def build_units(tier: str) -> list[Unit]:
    units: list[Unit] = []
    for path, cmd in tree():
        p = "/".join(path)
        units.append(Unit(f"metadata/{p}", metadata_harness(path, cmd)))
        units.append(Unit(f"layer1/{p}", layer1_harness(path, cmd), max_paths=20000))
    for k in (1, 2, 3, 4):
        units.append(Unit(f"file-layer/Config.get_value/parts={k}", get_value_harness(k)))
    from . import c15
    units.append(Unit("rerun/BaseCommand.__init__", c15.init_harness, setup=_rerun_setup))
    n = 16
    for k in range(n):
        units.append(Unit(f"standin/precedence/chunk-{k}", standin_unit(k, n, tier),
                          bounded="options with synthesisable values, three raw values each"))
    return units


def _rerun_setup(ex: Explorer) -> None:
    ex.obligation_filter = lambda name: name.startswith("N-stored-configuration")  # type: ignore[attr-defined]


def native_replay(unit: str, obligation: str, model: dict) -> tuple[bool, str]:
    import logging
    logging.disable(logging.CRITICAL)
    if unit.startswith("file-layer/"):
        return native_get_value()
    if unit.startswith("rerun/"):
        from . import c15
        return c15.native_stored_config()
    if unit.startswith("metadata/") and obligation.startswith("M-option-"):
        name = obligation[len("M-option-"):].split("-carries-")[0]
        path = tuple(unit.split("/")[1:])
        cmd = dict(tree())[path]
        env = Env()
        try:
            base = base_argv(cmd.CONFIG_TYPE)
            opt = "--" + name.replace("_", "-")
            for cand in CANDS:
                c1, _ = env.parse(path, base + [opt, cand[0]])
                c2, _ = env.parse(path, base + [opt, cand[1]])
                if c1 is None or c2 is None or same(getattr(c1, name), getattr(c2, name)):
                    continue
                ce, _ = env.parse(path, base, env={f"GALLIA_{name.upper()}": cand[1]})
                c0, _ = env.parse(path, base)
                if ce is not None and same(getattr(ce, name), getattr(c0, name)) and not same(
                        getattr(ce, name), getattr(c2, name)):
                    return True, (f"gallia {' '.join(path)}: GALLIA_{name.upper()}={cand[1]} is "
                                  f"ignored ({name} == {getattr(ce, name)!r}, the default), "
                                  f"while {opt} {cand[1]} gives {getattr(c2, name)!r}")
                return False, f"GALLIA_{name.upper()} is honoured"
            return False, "no valid raw value could be synthesised for this option"
        finally:
            env.close()
    if unit.startswith("layer1/") and obligation.startswith("L1-") and ":" in obligation:
        return native_layer1(tuple(unit.split("/")[1:]), obligation[3:].split(":")[0])
    if unit.startswith("standin/"):
        k = int(unit.rsplit("-", 1)[1])
        env = Env()
        try:
            for i, (path, cmd) in enumerate(tree()):
                if i % 16 == k:
                    r = standin_command(env, path, cmd)
                    if r["bad"]:
                        return True, "; ".join(r["bad"][:3])
        finally:
            env.close()
        return False, "precedence holds for every covered option of the chunk"
    return False, "no native scenario for this obligation"


def native_layer1(path: tuple[str, ...], name: str) -> tuple[bool, str]:
    """Environment over file for one option through the real parser: the environment value wins,
    the file value is used without it (truthy and falsy file values alike)."""
    from gallia.command.config import ConfigArgFieldInfo
    cmd = dict(tree())[path]
    info = cmd.CONFIG_TYPE.model_fields.get(name)
    if not isinstance(info, ConfigArgFieldInfo) or info.config_section is None:
        return False, "option without a file key"
    env = Env()
    try:
        base = base_argv(cmd.CONFIG_TYPE)
        ek, fk = f"GALLIA_{name.upper()}", (info.config_section, name)
        if info.annotation is bool:
            pairs = [("true", False), ("false", True)]
        else:
            pairs = []
            opt = "--" + name.replace("_", "-")
            for cand in CANDS:
                c1, _ = env.parse(path, base + [opt, cand[0]])
                c2, _ = env.parse(path, base + [opt, cand[1]])
                if c1 is not None and c2 is not None and not same(getattr(c1, name),
                                                                  getattr(c2, name)):
                    pairs = [(cand[0], cand[1]), (cand[1], cand[0])]
                    break
            if info.annotation in (int, float):
                pairs.append(("1", 0))
        for ev, fv in pairs:
            ce, _ = env.parse(path, base, env={ek: ev})
            cf, _ = env.parse(path, base, file_kv={fk: fv})
            cb, _ = env.parse(path, base, env={ek: ev}, file_kv={fk: fv})
            c0, _ = env.parse(path, base)
            if None in (ce, cf, cb, c0):
                continue
            if not same(getattr(cb, name), getattr(ce, name)):
                return True, (f"gallia {' '.join(path)}: {ek}={ev} with file {'.'.join(fk)}={fv!r}: "
                              f"{name} == {getattr(cb, name)!r}, the environment alone gives "
                              f"{getattr(ce, name)!r}")
            if same(getattr(cf, name), getattr(c0, name)) and repr(fv).lower() not in (
                    repr(norm(getattr(c0, name))).lower(),):
                cli, _ = env.parse(path, base + (["--" + name.replace("_", "-"), str(fv)]
                                                 if info.annotation is not bool else []))
                if cli is not None and not same(getattr(cli, name), getattr(c0, name)):
                    return True, (f"gallia {' '.join(path)}: file {'.'.join(fk)}={fv!r} is "
                                  f"ignored ({name} == {getattr(cf, name)!r}, the default)")
                if info.annotation is bool and getattr(cf, name) is not fv:
                    return True, (f"gallia {' '.join(path)}: file {'.'.join(fk)}="
                                  f"{str(fv).lower()} is ignored ({name} == "
                                  f"{getattr(cf, name)!r})")
        return False, "environment over file holds natively for this option"
    finally:
        env.close()


def native_search(unit: str, obligation: str, seed: int) -> dict | None:
    return {}


def main(tier: str, seed: int, only: str | None = None, jobs: int = 16) -> int:
    chk = Check("C18", "contracts.c18", tier, seed)
    units = build_units(tier)
    if only:
        units = [u for u in units if only in u.uid]
    results = run_units(units, jobs)
    chk.trusted_base = [
        "pydantic model construction and validation, argparse and the vendored pydantic_argparse "
        "(only exercised by the bounded stand-in)",
        "Config.get_value / os.getenv as oracles (present with any value | absent)",
        "tomllib",
    ]
    chk.assumptions = [
        "proved-partial: the environment-over-file layer (L1) and the metadata table (M) are "
        "decided on the real code for every command and option; command line over extra "
        "defaults over built-in defaults is a labelled bounded stand-in",
        "not covered: META.json / database round trip (rerun) and the config template",
    ]
    return chk.finish(results, native_replay, native_search)
