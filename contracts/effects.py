"""Frame / effect contracts decided on the real AST (shared by C01-C03, C16).

`modifies nothing that outlives the call`: a codec function may assign locals and fields of the
object it was called on; it must not store into class attributes, module globals or mutable
class-level containers (a registry written at import time by `__init_subclass__` is the stated
exception).  Such a store makes the result of a later call depend on the *history* of earlier
calls - the per-call contracts of C01-C03 would still verify while the property (stated for every
sequence of requests in one process) breaks.

`set iteration order`: the iteration order of a set of str/bytes depends on PYTHONHASHSEED, so a
value derived from iterating one differs between processes.
"""
from __future__ import annotations

import ast
import inspect
import textwrap
from typing import Any

MUTATORS = {"append", "extend", "insert", "update", "setdefault", "add", "pop", "popitem",
            "remove", "discard", "clear", "__setitem__", "__delitem__", "sort", "reverse"}


def function_ast(fn: Any) -> ast.AST | None:
    try:
        src = textwrap.dedent(inspect.getsource(fn))
    except (OSError, TypeError):
        return None
    tree = ast.parse(src)
    return tree.body[0]


def _locals(node: Any) -> set[str]:
    out = {a.arg for a in node.args.args + node.args.kwonlyargs + node.args.posonlyargs}
    if node.args.vararg:
        out.add(node.args.vararg.arg)
    if node.args.kwarg:
        out.add(node.args.kwarg.arg)
    for n in ast.walk(node):
        if isinstance(n, ast.Name) and isinstance(n.ctx, ast.Store):
            out.add(n.id)
        elif isinstance(n, ast.ExceptHandler) and n.name:
            out.add(n.name)
        elif isinstance(n, (ast.Import, ast.ImportFrom)):
            out.update((a.asname or a.name).split(".")[0] for a in n.names)
    return out


def _root(e: ast.expr) -> tuple[ast.expr, int]:
    """innermost base expression and the number of attribute/subscript hops above it"""
    hops = 0
    while isinstance(e, (ast.Attribute, ast.Subscript)):
        e = e.value
        hops += 1
    return e, hops


def _first_attr(e: ast.expr) -> str | None:
    """name of the attribute taken directly on the root (`self.X...` -> X)"""
    prev = None
    while isinstance(e, (ast.Attribute, ast.Subscript)):
        prev = e
        e = e.value
    return prev.attr if isinstance(prev, ast.Attribute) else None


def shared_state_writes(fn: Any, owner: type | None = None) -> list[str]:
    """Stores of `fn` into state that outlives the call (see module docstring)."""
    node = function_ast(fn)
    if node is None or not isinstance(node, (ast.FunctionDef, ast.AsyncFunctionDef)):
        return []
    raw = inspect.unwrap(fn)
    glob = getattr(raw, "__globals__", {})
    loc = _locals(node)
    params = [a.arg for a in node.args.posonlyargs + node.args.args]
    is_cm = any(isinstance(d, ast.Name) and d.id == "classmethod" for d in node.decorator_list)
    self_name = params[0] if params and not is_cm and owner is not None and not any(
        isinstance(d, ast.Name) and d.id == "staticmethod" for d in node.decorator_list) else None
    cls_names = {params[0]} if params and is_cm else set()
    instance_assigned: set[str] = set()
    if owner is not None:
        for k in owner.__mro__:
            init = k.__dict__.get("__init__")
            t = function_ast(init) if init is not None else None
            if t is not None:
                for n in ast.walk(t):
                    if isinstance(n, ast.Attribute) and isinstance(n.ctx, ast.Store) and \
                            isinstance(n.value, ast.Name) and n.value.id == "self":
                        instance_assigned.add(n.attr)

    def shared(e: ast.expr, hops_needed: int) -> str | None:
        root, hops = _root(e)
        if hops < hops_needed:
            return None
        if isinstance(root, ast.Call) and isinstance(root.func, ast.Name) and \
                root.func.id == "type":
            return "type(...)"
        if isinstance(root, ast.Name):
            if root.id in cls_names:
                return root.id
            if root.id == self_name and owner is not None:
                first = _first_attr(e)
                if first == "__class__":
                    return "self.__class__"
                if first and first not in instance_assigned and isinstance(
                        getattr(owner, first, None), (dict, list, set)) and hops >= 2:
                    return f"class-level container self.{first}"
                return None
            if root.id not in loc or root.id in declared_global:
                g = glob.get(root.id)
                if g is not None and (isinstance(g, (type, dict, list, set)) or
                                      inspect.ismodule(g)):
                    return f"global {root.id}"
        return None

    declared_global: set[str] = set()
    out: list[str] = []
    for n in ast.walk(node):
        if isinstance(n, (ast.Global, ast.Nonlocal)):
            declared_global.update(n.names)
            out.append(f"line {n.lineno}: {type(n).__name__.lower()} {', '.join(n.names)}")
    for n in ast.walk(node):
        targets: list[ast.expr] = []
        if isinstance(n, ast.Assign):
            targets = list(n.targets)
        elif isinstance(n, (ast.AugAssign, ast.AnnAssign)):
            targets = [n.target]
        elif isinstance(n, ast.Delete):
            targets = list(n.targets)
        for t in targets:
            for el in (t.elts if isinstance(t, (ast.Tuple, ast.List)) else [t]):
                if isinstance(el, (ast.Attribute, ast.Subscript)):
                    why = shared(el, 1)
                    if why:
                        out.append(f"line {n.lineno}: store `{ast.unparse(el)}` into {why}")
                elif isinstance(el, ast.Name) and el.id in declared_global:
                    out.append(f"line {n.lineno}: store into global {el.id}")
        if isinstance(n, ast.Call) and isinstance(n.func, ast.Attribute) and \
                n.func.attr in MUTATORS:
            why = shared(n.func.value, 1)
            if why:
                out.append(f"line {n.lineno}: `{ast.unparse(n.func)}(...)` mutates {why}")
        if isinstance(n, ast.Call) and isinstance(n.func, ast.Name) and n.func.id == "setattr" \
                and n.args:
            why = shared(n.args[0], 0)
            if why:
                out.append(f"line {n.lineno}: setattr on {why}")
    return out


def functions_of(mod: Any, classes_only: bool = False) -> list[tuple[str, Any, type | None]]:
    """(qualified name, function, owning class) for everything defined in `mod`."""
    out: list[tuple[str, Any, type | None]] = []
    for name, obj in vars(mod).items():
        if inspect.isfunction(obj) and obj.__module__ == mod.__name__ and not classes_only:
            out.append((f"{mod.__name__}.{name}", obj, None))
        if inspect.isclass(obj) and obj.__module__ == mod.__name__:
            todo = [obj]
            while todo:
                k = todo.pop()
                for an, av in vars(k).items():
                    raw = av
                    if isinstance(av, (classmethod, staticmethod)):
                        raw = av.__func__
                    elif isinstance(av, property):
                        raw = av.fget
                    if inspect.isfunction(raw):
                        out.append((f"{mod.__name__}.{k.__qualname__}.{an}", raw, k))
                    elif inspect.isclass(av) and av.__module__ == mod.__name__ and \
                            av.__qualname__.startswith(k.__qualname__ + "."):
                        todo.append(av)
    return out


def set_order_uses(fn: Any) -> list[str]:
    """Places where the iteration order of an ad-hoc set becomes a value (hash-seed dependent
    for str/bytes elements): list(set(..)), tuple(set(..)), join(set(..)), `for .. in set(..)`,
    comprehensions over set(..), star-unpacking.  `sorted(set(..))`, `x in set(..)` and
    `len(set(..))` are order-free."""
    node = function_ast(fn)
    if node is None:
        return []

    def is_set(e: ast.expr) -> bool:
        if isinstance(e, (ast.Set, ast.SetComp)):
            return True
        if isinstance(e, ast.Call) and isinstance(e.func, ast.Name) and \
                e.func.id in ("set", "frozenset"):
            return True
        if isinstance(e, ast.BinOp) and isinstance(e.op, (ast.BitOr, ast.BitAnd, ast.Sub,
                                                           ast.BitXor)):
            return is_set(e.left) or is_set(e.right)
        return False
    out: list[str] = []
    for n in ast.walk(node):
        if isinstance(n, ast.Call):
            f = n.func
            fname = f.id if isinstance(f, ast.Name) else (f.attr if isinstance(f, ast.Attribute)
                                                          else "")
            if fname in ("list", "tuple", "join", "enumerate", "iter", "next", "zip", "map",
                         "dict", "extend") and any(is_set(a) for a in n.args):
                out.append(f"line {n.lineno}: {fname}(<set>) makes the set's order a value")
            if any(isinstance(a, ast.Starred) and is_set(a.value) for a in n.args):
                out.append(f"line {n.lineno}: *<set> unpacked into a call")
        if isinstance(n, (ast.For, ast.comprehension)) and is_set(n.iter):
            out.append(f"line {getattr(n, 'lineno', n.iter.lineno)}: iteration over an ad-hoc set")
        if isinstance(n, (ast.List, ast.Tuple)) and any(
                isinstance(e, ast.Starred) and is_set(e.value) for e in n.elts):
            out.append(f"line {n.lineno}: *<set> unpacked into a sequence")
    return out


def _mutated_params(fn: Any) -> set[str]:
    """parameters a function mutates in place: `p += ..` (in place for lists/sets/dicts),
    `p[..] = ..`, `p.append(..)` and the like"""
    node = function_ast(fn)
    if node is None or not isinstance(node, (ast.FunctionDef, ast.AsyncFunctionDef)):
        return set()
    params = {a.arg for a in node.args.posonlyargs + node.args.args + node.args.kwonlyargs}
    rebound = {n.id for n in ast.walk(node) if isinstance(n, ast.Name)
               and isinstance(n.ctx, ast.Store) and not isinstance(getattr(n, "parent", None),
                                                                   ast.AugAssign)}
    out: set[str] = set()
    for n in ast.walk(node):
        if isinstance(n, ast.AugAssign) and isinstance(n.target, ast.Name) and \
                n.target.id in params:
            out.add(n.target.id)
        if isinstance(n, (ast.Assign, ast.AugAssign, ast.Delete)):
            for t in (n.targets if isinstance(n, (ast.Assign, ast.Delete)) else [n.target]):
                if isinstance(t, ast.Subscript) and isinstance(t.value, ast.Name) and \
                        t.value.id in params:
                    out.add(t.value.id)
        if isinstance(n, ast.Call) and isinstance(n.func, ast.Attribute) and \
                n.func.attr in MUTATORS and isinstance(n.func.value, ast.Name) and \
                n.func.value.id in params:
            out.add(n.func.value.id)
    del rebound
    return out


def shared_arguments_mutated(mod: Any) -> dict[str, list[str]]:
    """qualified name -> call sites that hand a module-level mutable container to a function of
    the same module which mutates that parameter in place (the two sites look fine alone; together
    the container changes with every call)."""
    fns = {name: obj for name, obj in vars(mod).items()
           if inspect.isfunction(obj) and obj.__module__ == mod.__name__}
    summary = {name: _mutated_params(fn) for name, fn in fns.items()}
    out: dict[str, list[str]] = {}
    for q, fn, owner in functions_of(mod):
        node = function_ast(fn)
        if node is None:
            continue
        loc = _locals(node) if isinstance(node, (ast.FunctionDef, ast.AsyncFunctionDef)) else set()
        for n in ast.walk(node):
            if not (isinstance(n, ast.Call) and isinstance(n.func, ast.Name)
                    and n.func.id in fns and summary[n.func.id]):
                continue
            callee = function_ast(fns[n.func.id])
            params = [a.arg for a in callee.args.posonlyargs + callee.args.args]  # type: ignore
            bound = list(zip(params, n.args)) + [(k.arg, k.value) for k in n.keywords if k.arg]
            for pname, arg in bound:
                if pname in summary[n.func.id] and isinstance(arg, ast.Name) and \
                        arg.id not in loc and isinstance(vars(mod).get(arg.id), (list, dict, set)):
                    out.setdefault(q, []).append(
                        f"line {n.lineno}: module-level `{arg.id}` is passed to "
                        f"{n.func.id}(), which mutates its parameter `{pname}` in place")
    return out
