"""C14 - the virtual ECU survives any request and its answers are accepted by the client
(proved-partial, DESIGN 5/C14).

  H  every service handler of RandomUDSServer (ecu_reset, security_access, routine_control,
     read_data_by_identifier, write_data_by_identifier, input_output_control_by_identifier,
     clear_diagnostic_information, read_dtc_information) is executed from the real AST for a
     typed request with symbolic fields; random draws are *any* value in their documented range
     (randint(a,b) in [a,b], random_payload(min_len) of at least min_len bytes, random_bool any):
     no exception, the reply serialises, and gallia's own `helpers.parse_pdu(reply.pdu, request)`
     - executed from the real AST as well - accepts it (acceptance lemma)
  D  the same for the replies of the default rules (negative responses, session change, session
     read, tester present)
  S  session invariant: `respond` keeps `state.session` inside the model, given the model
     invariant "every DiagnosticSessionControl sub-function of a session is a session of the
     model" (established by randomize: C16 stand-in) and the default session being offered
  T  `UDSServerTransport.handle_request` for non-empty bytes: no exception, returns
     (reply.pdu | None, duration); the inactivity reset uses the wall clock
Bounded (labelled): read_dtc_information with at most 2 random DTC records.
"""
from __future__ import annotations

import time as _time
from typing import Any

import z3

from pyvc import loops, models
from pyvc.engine import Explorer, Frame, Interp, PyExc
from pyvc.runner import Check, Unit, run_units
from pyvc.values import (NONE, V, VBool, VBytes, VConst, VDict, VFloat, VInt, VList, VObj, VStr,
                         VSymMap, VTuple)

from . import c03, c13
from . import codec_spec as cs
from . import transport_env as te
from . import utils_contracts as uc
from .c15 import Stub, coro


def SV() -> Any:
    return c13.server_module()


def install_rng(ex: Explorer) -> None:
    sv = SV()
    uc.install(ex)

    def mk_rng(I: Interp, cls: type, args: list[V], kwargs: dict[str, V]) -> V:
        return VObj(Stub, {"seeded": VBool(bool(args))}, lazy=True, tag="rng")
    models.CLASS_MODELS[sv.RNG] = mk_rng

    def randint(I: Interp, r: V, a: list[V], k: dict[str, V]) -> V:
        lo, hi = models.as_int(I, a[0]), models.as_int(I, a[1])
        v = I.fresh_int("draw")
        I.assume(z3.And(v.t >= lo, v.t <= hi))
        return v
    ex.stubs[("rng", "randint")] = randint
    ex.stubs[("rng", "random_bool")] = lambda I, r, a, k: I.fresh_bool("coin")

    def payload(I: Interp, r: V, a: list[V], k: dict[str, V]) -> V:
        mn = k.get("min_len", a[0] if a else VInt(0))
        b = I.fresh_bytes("rnd_payload")
        I.assume(models.seq_len(b.t) >= models.as_int(I, mn))
        return b
    ex.stubs[("rng", "random_payload")] = payload
    ex.stubs[("rng", "add_seeds")] = lambda I, r, a, k: NONE

    def expo(I: Interp, r: V, a: list[V], k: dict[str, V]) -> V:
        x = z3.Real(I.fresh_name("expo"))
        I.assume(z3.And(x >= 0, x < z3.RealVal("2.4")))  # bounded: at most 2 records
        I.ex.assumptions.add("bounded: read_dtc_information draws at most 2 DTC records")
        return VFloat(x)
    ex.stubs[("rng", "expovariate")] = expo
    ex.stub_attrs[("params", "p_identifier")] = lambda I, o: VFloat(z3.Real("p_identifier"))
    ex.stub_attrs[("params", "p_correct_payload_format")] = lambda I, o: VFloat(z3.Real("p_cpf"))
    ex.stub_attrs[("params", "p_dtc_status_mask")] = lambda I, o: VFloat(z3.Real("p_dtc"))


def mk_random_server(I: Interp, sa_pending: bool = False) -> tuple[VObj, VObj]:
    sv = SV()
    from gallia.services.uds.core import service as S
    state = VObj(sv.RNGEcuState, {"session": I.fresh_int("cur_session", 0, 0x7F, inp=True),
                                  "security_access_level": NONE, "last_sa_response": NONE})
    if sa_pending:
        state.fields["last_sa_response"] = I.call(S.SecurityAccessResponse,
                                                  I.fresh_int("pending_sa_type", 0, 0x7F),
                                                  I.fresh_bytes("pending_seed"))
    beh = VObj(Stub, {k: VBool(True) for k in c13.BEHAVIOURS}, lazy=True, tag="behavior")
    srv = VObj(sv.RandomUDSServer, {"state": state, "behavior": beh,
                                    "services": c13.mk_model(I), "seed": VInt(1),
                                    "randomness_parameters": te.stub("params")})
    return srv, state


HANDLERS = {
    "ecu_reset": ("ECUResetRequest", ["int", "bool"]),
    "security_access/seed": ("RequestSeedRequest", ["int", "bytes", "bool"]),
    "security_access/key": ("SendKeyRequest", ["int", "bytes", "bool"]),
    "routine_control": ("StartRoutineRequest", ["int", "bytes", "bool"]),
    "read_data_by_identifier": ("ReadDataByIdentifierRequest", ["int"]),
    "read_data_by_identifier/several-identifiers": ("ReadDataByIdentifierRequest", ["intlist"]),
    "write_data_by_identifier": ("WriteDataByIdentifierRequest", ["int", "bytes"]),
    "input_output_control_by_identifier": ("InputOutputControlByIdentifierRequest",
                                           ["int", "bytes", "bytes"]),
    "clear_diagnostic_information": ("ClearDiagnosticInformationRequest", ["int"]),
    "read_dtc_information": ("ReportDTCByStatusMaskRequest", ["int", "bool"]),
    "read_dtc_information/other": ("ReportNumberOfDTCByStatusMaskRequest", ["int", "bool"]),
}


def accept(I: Interp, reply: V, req: VObj, tag: str) -> None:
    """Acceptance lemma: the real client-side parse_pdu returns for (reply.pdu, request)."""
    H = c03.helpers_module()
    if reply is NONE:
        return
    try:
        pdu = I.getattr_v(reply, "pdu")
    except PyExc as e:
        I.fail(f"{tag}-reply-serialises", e.exc.cls.__name__)
        return
    try:
        r = I.call(H.parse_pdu, pdu, req)
    except PyExc as e:
        I.fail(f"{tag}-reply-is-accepted-by-gallia's-own-client",
               f"parse_pdu raised {e.exc.cls.__name__} for a {reply.cls.__name__}")
        return
    I.prove(f"{tag}-accepted-reply-keeps-its-bytes",
            models.bytes_eq(I, I.getattr_v(r, "pdu").t, pdu.t))


def handler_harness(name: str):
    cname, kinds = HANDLERS[name]

    def harness(I: Interp) -> None:
        sv = SV()
        from gallia.services.uds.core import service as S
        install_rng(I.ex)
        c03.install(I.ex)
        srv, state = mk_random_server(I, sa_pending=(name == "security_access/key"))
        args = []
        for i, k in enumerate(kinds):
            args.append({"int": lambda: I.fresh_int(f"a{i}", inp=True),
                         "bool": lambda: I.fresh_bool(f"a{i}", inp=True),
                         "bytes": lambda: I.fresh_bytes(f"a{i}", inp=True),
                         "intlist": lambda: VList([
                             I.fresh_int(f"a{i}_{j}", inp=True)
                             for j in range(2 + I.choose([z3.BoolVal(True)] * 2))])}[k]())
        try:
            req = I.call(getattr(S, cname), *args)
            I.getattr_v(req, "pdu")
        except PyExc:
            return
        try:
            reply = I.await_v(I.call_v(I.getattr_v(srv, "respond_after_default"), [req], {}))
        except PyExc as e:
            I.fail("H-handler-does-not-raise", f"{name}: {e.exc.cls.__name__}")
            return
        I.prove("H-handler-produces-a-reply", z3.BoolVal(reply is not NONE))
        accept(I, reply, req, "H")
    return harness


def default_rule_harness(kind: str):
    def harness(I: Interp) -> None:
        sv = SV()
        c13.install(I.ex)
        c03.install(I.ex)
        install_rng(I.ex)
        srv, state = mk_random_server(I)
        cur = state.fields["session"].t
        I.assume(c13.in_dom(I, cur))
        try:
            req, pdu = c13.mk_request(I, kind)
        except PyExc:
            return
        if kind == "raw":
            # the client re-parses the request bytes; for the negative replies a raw request
            # gets, only its service id matters: contract of UDSRequest.parse_dynamic (C01)
            from gallia.services.uds.core import service as S
            I.ex.contracts[S.UDSRequest.__dict__["parse_dynamic"].__func__] = \
                lambda I2, p: VObj(S.RawRequest, {"_pdu": p})
        I.ghost["sf"] = pdu.t[1] % 0x80
        I.ex.contracts[sv.RandomUDSServer.respond_after_default] = \
            lambda I2, self_, rq: coro(lambda: NONE)
        try:
            reply = I.await_v(I.call_v(I.getattr_v(srv, "respond_without_state_change"),
                                       [req], {}))
        except PyExc as e:
            I.fail("D-default-rules-do-not-raise", e.exc.cls.__name__)
            return
        accept(I, reply, req, "D")
    return harness


def session_harness(I: Interp) -> None:
    sv = SV()
    from gallia.services.uds.core import service as S
    c13.install(I.ex)
    install_rng(I.ex)
    srv, state = mk_random_server(I)
    cur = state.fields["session"].t
    I.assume(c13.in_dom(I, cur))
    # model invariants established by randomize (C16): transitions lead to offered sessions,
    # the default session is offered
    I.assume(c13.in_dom(I, z3.IntVal(1)))
    tgt = I.fresh_int("target_session", 0, 0x7F, inp=True)
    I.assume(z3.Implies(z3.And(c13.SVC(cur, 0x10), c13.SUB(cur, 0x10, tgt.t)),
                        c13.in_dom(I, tgt.t)))
    kind = I.choose([z3.BoolVal(True)] * 3)
    if kind == 0:
        req = I.call(S.DiagnosticSessionControlRequest, tgt, I.fresh_bool("sup"))
    elif kind == 1:
        req = I.call(S.ECUResetRequest, I.fresh_int("rt", 0, 0x7F), I.fresh_bool("sup"))
    else:
        req = VObj(S.RawRequest, {"_pdu": I.fresh_bytes("raw", inp=True, minlen=1)})
        I.assume(z3.And(req.fields["_pdu"].t[0] >= 0, req.fields["_pdu"].t[0] <= 255))
    pdu = I.getattr_v(req, "pdu")
    I.ghost["sf"] = pdu.t[1] % 0x80
    ad = I.choose([z3.BoolVal(True)] * 2)
    handler_reply: V = NONE if ad == 0 else (
        I.call(S.ECUResetResponse, I.fresh_int("rrt", 0, 0x7F)) if kind == 1
        else VObj(S.RawPositiveResponse, {"_pdu": I.fresh_bytes("hr", minlen=1)}))
    I.ex.contracts[sv.RandomUDSServer.respond_after_default] = \
        lambda I2, self_, rq: coro(lambda: handler_reply)
    try:
        I.await_v(I.call_v(I.getattr_v(srv, "respond"), [req], {}))
    except PyExc as e:
        I.fail("S-respond-does-not-raise", e.exc.cls.__name__)
        return
    new = state.fields["session"].t
    I.prove("S-server-stays-in-a-session-it-offers", c13.in_dom(I, new))


def transport_harness(I: Interp) -> None:
    sv = SV()
    from gallia.services.uds.core import service as S
    clock = {"n": 0}

    def now(I2: Interp, a: list[V], k: dict[str, V]) -> V:
        clock["n"] += 1
        return VFloat(z3.Real(f"t{clock['n']}"))
    models.MODELS[sv.time] = now
    reply_kind = I.choose([z3.BoolVal(True)] * 2)
    reply: V = NONE if reply_kind == 0 else VObj(S.RawPositiveResponse,
                                                 {"_pdu": I.fresh_bytes("reply", minlen=1)})
    resets = {"n": 0}
    state = VObj(Stub, {}, lazy=True, tag="state")
    I.ex.stubs[("state", "reset")] = lambda I2, r, a, k: (resets.__setitem__("n", 1), NONE)[1]

    def respond(I2: Interp, recv: V, args: list[V], kwargs: dict[str, V]) -> V:
        I2.ghost["request_obj"] = args[0]
        return coro(lambda: reply)
    I.ex.stubs[("server", "respond")] = respond
    I.ex.contracts[S.UDSRequest.__dict__["parse_dynamic"].__func__] = \
        lambda I2, pdu: VObj(S.RawRequest, {"_pdu": pdu})
    last = VFloat(z3.Real("last_active"))
    t = VObj(sv.UDSServerTransport, {"server": te.stub("server", state=state),
                                     "last_time_active": last})
    pdu = I.fresh_bytes("request_pdu", inp=True, minlen=1)
    try:
        r = I.await_v(I.call_v(I.getattr_v(t, "handle_request"), [pdu], {}))
    except PyExc as e:
        I.fail("T-handle_request-does-not-raise", e.exc.cls.__name__)
        return
    I.prove("T-request-object-is-parsed-from-the-received-bytes",
            z3.BoolVal(I.ghost["request_obj"].fields["_pdu"] is pdu))
    out, dur = r.items
    if reply is NONE:
        I.prove("T-no-reply-is-reported-as-None", z3.BoolVal(out is NONE))
    else:
        I.prove("T-reply-bytes-are-the-reply's-pdu",
                models.bytes_eq(I, out.t, reply.fields["_pdu"].t))
    I.prove("T-inactivity-reset-iff-more-than-10s-since-the-last-request",
            z3.BoolVal(resets["n"] == 1) == (z3.Real("t1") - last.t > 10))


def build_units(tier: str) -> list[Unit]:
    units = []
    for h in HANDLERS:
        b = "at most 2 random DTC records" if h == "read_dtc_information" else ""
        units.append(Unit(f"handler/{h}", handler_harness(h), max_paths=50000, bounded=b))
    for k in ("raw", "dsc", "rdbi", "rdbi-list2", "rdbi-list3", "tp", "reset", "wdbi"):
        units.append(Unit(f"default-rules/{k}", default_rule_harness(k), max_paths=50000))
    # handle_request hands the received bytes to UDSRequest.parse_dynamic: its contract (total,
    # keeps the bytes) is discharged against its body here as well (units shared with C01)
    from . import c01
    for u in c01.build_units(tier)[0]:
        if u.uid.startswith("parse-total/"):
            units.append(u)
    units.append(Unit("session-invariant/respond", session_harness, max_paths=20000))
    units.append(Unit("transport/handle_request", transport_harness))
    # the connection loop around handle_request (unit of C19): it ends only on end of stream,
    # also when a response is suppressed (None) - a tester is not disconnected by any request
    from . import c19
    units.append(Unit("transport/handle_client", c19.server_harness))
    return units


def native_replay(unit: str, obligation: str, model: dict) -> tuple[bool, str]:
    """Drive the real RandomUDSServer (a few seeds) with the request family of the unit and feed
    every reply to the real parse_pdu."""
    import asyncio
    import logging
    logging.disable(logging.CRITICAL)
    if unit.startswith("parse-total/"):
        from . import c01
        return c01.native_parse_total(unit, model)
    if unit.startswith("transport/handle_client"):
        from . import c19
        return c19.native_server_messages()
    sv = SV()
    from gallia.services.uds import helpers
    from gallia.services.uds.core import service as S
    if unit.startswith("handler/security_access"):
        return native_security_access()
    probes = {"handler/ecu_reset": [bytes([0x11, i]) for i in (1, 2, 3, 4, 0x84)],
              "handler/read_data_by_identifier/several": [
                  bytes([0x22]) + a.to_bytes(2, "big") + b.to_bytes(2, "big")
                  for a in (0xF186, 0x0001, 0x0002, 0x0100, 0x1234, 0xF190)
                  for b in (0xF190, 0x0003, 0x4321)],
              "default-rules/rdbi-list": [
                  bytes([0x22]) + b"".join(x.to_bytes(2, "big") for x in ids)
                  for ids in ((0x1234, 0xF186), (0xF186, 0x1234), (0x0001, 0x0002, 0xF186),
                              (0xF190, 0xF186, 0x0001), (0x0001, 0x0002))],
              "handler/security_access": [bytes([0x27, 1]), bytes([0x27, 2, 1, 2])],
              "handler/read_dtc": [bytes([0x19, 2, 0xFF]), bytes([0x19, 1, 0xFF])]}
    reqs = next((v for k, v in probes.items() if unit.startswith(k)), None) or \
        [bytes([sid, a, b]) for sid in (0x10, 0x11, 0x22, 0x27, 0x2E, 0x2F, 0x31, 0x14, 0x19, 0x3E)
         for a in (0, 1, 2, 0x81) for b in (0, 1, 0xFF)]

    async def go() -> tuple[bool, str]:
        dense = sv.RandomUDSServer.RandomnessParameters(
            p_identifier=0.5, p_service=1.0, mandatory_services=[0x10, 0x22])
        for seed in range(1, 9):
            # identifier-level units: a model that supports many identifiers
            srv = sv.RandomUDSServer(seed, dense) if "identifier" in unit or "rdbi" in unit else \
                sv.RandomUDSServer(seed)
            await srv.setup()
            for raw in reqs:
                q = S.UDSRequest.parse_dynamic(raw)
                try:
                    r = await srv.respond(q)
                except Exception as e:  # noqa: BLE001
                    return True, f"seed {seed}: respond({raw.hex()}) raised {type(e).__name__}"
                if r is None:
                    continue
                try:
                    helpers.parse_pdu(r.pdu, q)
                except Exception as e:  # noqa: BLE001
                    return True, (f"seed {seed}: reply {r.pdu.hex()} to {raw.hex()} is refused "
                                  f"by parse_pdu: {type(e).__name__}")
        return False, "no refusal on the sampled seeds/requests"
    return asyncio.run(go())


def native_security_access() -> tuple[bool, str]:
    """Seed request followed by the matching key, for every level a few models support: both
    replies must be accepted by the client-side parse_pdu."""
    import asyncio
    sv = SV()
    from gallia.services.uds import helpers
    from gallia.services.uds.core import service as S

    async def go() -> tuple[bool, str]:
        prm = sv.RandomUDSServer.RandomnessParameters(p_service=1.0, p_sub_function=0.5)
        tried = 0
        for seed in range(1, 7):
            srv = sv.RandomUDSServer(seed, prm)
            await srv.setup()
            for level in range(1, 0x42, 2):
                q1 = S.RequestSeedRequest(level)
                r1 = await srv.respond(q1)
                if not isinstance(r1, S.SecurityAccessResponse):
                    continue
                helpers.parse_pdu(r1.pdu, q1)
                q2 = S.SendKeyRequest(level + 1, r1.security_seed)
                try:
                    r2 = await srv.respond(q2)
                except Exception as e:  # noqa: BLE001
                    return True, f"seed {seed}: SendKey level {level + 1} raised {type(e).__name__}"
                tried += 1
                if r2 is None:
                    continue
                try:
                    helpers.parse_pdu(r2.pdu, q2)
                except Exception as e:  # noqa: BLE001
                    return True, (f"RandomUDSServer(seed={seed}): {q1.pdu.hex()} -> "
                                  f"{r1.pdu.hex()}, then {q2.pdu.hex()} -> {r2.pdu.hex()}, which "
                                  f"the client refuses: {type(e).__name__}")
        return False, f"{tried} seed/key exchanges accepted"
    return asyncio.run(go())


def native_search(unit: str, obligation: str, seed: int) -> dict | None:
    return {}


TRUSTED = [
    "pyvc VC generator; z3 5.1.0",
    "random.Random draws are any value in the documented range (randint, random, expovariate)",
    "model invariants assumed here and checked by the C16 stand-in on randomize: the default "
    "session is offered; every DSC sub-function of a session is an offered session",
]


def main(tier: str, seed: int, only: str | None = None, jobs: int = 16) -> int:
    chk = Check("C14", "contracts.c14", tier, seed)
    units = build_units(tier)
    if only:
        units = [u for u in units if only in u.uid]
    results = run_units(units, jobs)
    chk.trusted_base = TRUSTED
    chk.assumptions = [
        "proved-partial: one request at a time (any state, any model); histories enter only "
        "through the symbolic state (session, pending security access)",
        "requests are what UDSRequest.parse_dynamic produces for the handler's service (typed "
        "classes with symbolic fields); raw requests go through the default rules",
    ]
    return chk.finish(results, native_replay, native_search)
