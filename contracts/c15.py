"""C15 - every run leaves a consistent exit code, META.json, log file and database record.

Functions under contract: `BaseCommand.entry_point`, `run_hook`, `_db_finish_run_meta`,
`AsyncScript.run`, `Scanner.teardown`, `UDSScanner.teardown` - executed from the real AST.
Abstracted by contract (outcome = unconstrained choice): `self.run()` (returns int | raises
KeyboardInterrupt | SystemExit(int) | SystemExit(other) | an expected exception | any other
Exception), the lock file, `prepare_artifacts_dir`, the zstd log handler functions, the DBHandler
methods, `subprocess.run` for hooks, `Path.write_text`, `run_meta.json()`.
Ghost resources: lock, log handlers, META.json writes, database run entry, hook invocations.
"""
from __future__ import annotations

import os
import subprocess
import sys
from datetime import datetime
from pathlib import Path
from typing import Any

import z3

from pyvc import loops, models
from pyvc.engine import Explorer, Frame, Interp, PyExc, VCoro
from pyvc.runner import Check, Unit, run_units
from pyvc.values import (NONE, Unsupported, V, VBool, VBytes, VConst, VDict, VFloat, VInt, VList,
                         VObj, VStr, VTuple, wrap)


class Stub:
    """Class of abstract environment objects (config, run_meta, db handler, paths …)."""


def coro(thunk: Any) -> V:
    return VCoro(thunk, "contract")


def base_module() -> Any:
    import gallia.command.base as B
    return B


RUN_OUTCOMES = ["return", "keyboard-interrupt", "sys-exit-int", "sys-exit-other", "expected",
                "unexpected"]


def install(ex: Explorer) -> None:
    B = base_module()
    from gallia import exitcodes

    # ---- lock file
    def open_lock(I: Interp, self_: V, path: V) -> V:
        if I.choose([z3.BoolVal(True)] * 2) == 1:
            I.raise_py(OSError, "cannot open lock file")
        I.ghost["lock"] = "opened"
        return VInt(7)

    def acquire(I: Interp, self_: V) -> V:
        def go() -> V:
            if I.choose([z3.BoolVal(True)] * 2) == 1:
                I.raise_py(OSError, "cannot lock")
            I.ghost["lock"] = "held"
            return NONE
        return coro(go)

    def release(I: Interp, self_: V) -> V:
        I.prove("L-release-only-a-held-lock", z3.BoolVal(I.ghost.get("lock") == "held"))
        I.ghost["lock"] = "released"
        return NONE
    ex.contracts[B.BaseCommand._open_lockfile] = open_lock
    ex.contracts[B.BaseCommand._aquire_flock] = acquire
    ex.contracts[B.BaseCommand._release_flock] = release

    # ---- artifacts dir / log handlers
    def prepare(I: Interp, self_: V) -> V:
        if I.ghost["want_artifacts"]:
            return VObj(Stub, {}, lazy=True, tag="path")
        return NONE
    ex.contracts[B.BaseCommand.prepare_artifacts_dir] = prepare

    def add_handler(I: Interp, args: list[V], kwargs: dict[str, V]) -> V:
        h = VObj(Stub, {}, lazy=True, tag="handler")
        I.ghost["handlers_open"].append(h)
        return h

    def remove_handler(I: Interp, args: list[V], kwargs: dict[str, V]) -> V:
        h = kwargs.get("handler", args[1] if len(args) > 1 else NONE)
        I.prove("H-removed-handler-was-open",
                z3.BoolVal(any(h is x for x in I.ghost["handlers_open"])))
        I.ghost["handlers_open"] = [x for x in I.ghost["handlers_open"] if x is not h]
        I.ghost["handlers_closed"] += 1
        return NONE
    models.MODELS[B.add_zst_log_handler] = add_handler
    models.MODELS[B.remove_zst_log_handler] = remove_handler
    models.MODELS[B.get_file_log_level] = lambda I, a, k: VInt(10)
    ex.stubs[("path", "joinpath")] = lambda I, r, a, k: VObj(Stub, {}, lazy=True, tag="file")

    def write_text(I: Interp, recv: V, args: list[V], kwargs: dict[str, V]) -> V:
        I.ghost["meta_writes"].append(I.ghost.get("json_exit_code"))
        return VInt(1)
    ex.stubs[("file", "write_text")] = write_text

    # ---- run_meta
    def meta_json(I: Interp, recv: V, args: list[V], kwargs: dict[str, V]) -> V:
        I.ghost["json_exit_code"] = recv.fields.get("exit_code")
        return VStr()
    ex.stubs[("run_meta", "json")] = meta_json

    # ---- time
    def now(I: Interp, args: list[V], kwargs: dict[str, V]) -> V:
        return VObj(Stub, {}, lazy=True, tag="time")
    models.MODELS[datetime.now] = now
    ex.stubs[("time", "astimezone")] = lambda I, r, a, k: r
    ex.stubs[("time", "isoformat")] = lambda I, r, a, k: VStr()

    # ---- the command body
    def run_contract(I: Interp, self_: V) -> V:
        def go() -> V:
            k = I.choose([z3.BoolVal(True)] * len(RUN_OUTCOMES))
            I.ghost["run_outcome"] = RUN_OUTCOMES[k]
            I.ghost["run_called"] += 1
            if k == 0:
                n = I.fresh_int("returned_code", inp=True)
                I.ghost["run_value"] = n
                return n
            if k == 1:
                I.raise_py(KeyboardInterrupt)
            if k == 2:
                n = I.fresh_int("exit_code", inp=True)
                I.ghost["run_value"] = n
                e = VObj(SystemExit, {"args": VTuple([n]), "code": n})
                raise PyExc(e)
            if k == 3:
                e = VObj(SystemExit, {"args": VTuple([VStr("msg")]), "code": VStr("msg")})
                raise PyExc(e)
            if k == 4:
                I.raise_py(ConnectionResetError, "expected")
            I.raise_py(ValueError, "unexpected")
            raise AssertionError
        return coro(go)
    ex.contracts[B.BaseCommand.run] = run_contract

    # ---- database
    def db_insert(I: Interp, self_: V) -> V:
        def go() -> V:
            if not I.ghost["want_db"]:
                return NONE
            k = I.choose([z3.BoolVal(True)] * 3)
            if k == 2:
                I.ghost["db_open_failed"] = True
                I.raise_py(ValueError, "cannot open the database")
            h = VObj(Stub, {"connection": VObj(Stub, {}, lazy=True, tag="conn"),
                            "meta": VInt(1) if k == 0 else NONE}, lazy=True, tag="db")
            self_.fields["db_handler"] = h
            I.ghost["db"] = "run-inserted" if k == 0 else "connected"
            return NONE
        return coro(go)
    ex.contracts[B.BaseCommand._db_insert_run_meta] = db_insert

    def complete(I: Interp, recv: V, args: list[V], kwargs: dict[str, V]) -> V:
        def go() -> V:
            I.prove("D-complete-only-an-open-run-entry",
                    z3.BoolVal(I.ghost.get("db") == "run-inserted"))
            I.ghost["db_completed"].append(args[1] if len(args) > 1 else NONE)
            if I.choose([z3.BoolVal(True)] * 2) == 1:
                I.raise_py(RuntimeError, "db write failed")
            return NONE
        return coro(go)

    def disconnect(I: Interp, recv: V, args: list[V], kwargs: dict[str, V]) -> V:
        def go() -> V:
            I.ghost["db_disconnects"] += 1
            recv.fields["connection"] = NONE
            if I.ghost.get("db") in ("run-inserted", "connected"):
                I.ghost["db"] = "closed:" + I.ghost["db"]
            if I.choose([z3.BoolVal(True)] * 2) == 1:
                I.raise_py(RuntimeError, "db close failed")
            return NONE
        return coro(go)
    ex.stubs[("db", "complete_run_meta")] = complete
    ex.stubs[("db", "disconnect")] = disconnect

    # ---- hooks
    def sp_run(I: Interp, args: list[V], kwargs: dict[str, V]) -> V:
        env = kwargs.get("env")
        code = None
        if isinstance(env, VDict):
            for k_, v_ in env.items:
                if isinstance(k_, VStr) and k_.s == "GALLIA_EXIT_CODE":
                    code = v_
        I.ghost["hooks"].append((I.ghost.get("hook_variant"), code))
        # contract of subprocess.run: through the shell (shell=True) a script that is missing or
        # not executable ends as exit status 127/126 of /bin/sh, i.e. CalledProcessError with
        # check=True; without the shell, spawning the program itself can fail with an OSError
        # (FileNotFoundError, PermissionError, exec format error)
        sh = kwargs.get("shell")
        through_shell = isinstance(sh, VBool) and sh.concrete() is True
        k = I.choose([z3.BoolVal(True)] * (2 if through_shell else 4))
        if k >= 2:
            I.raise_py(FileNotFoundError if k == 2 else PermissionError, "hook script")
        if k == 1:
            e = VObj(subprocess.CalledProcessError, {"args": VTuple([]), "returncode": VInt(3),
                                                     "stdout": VStr(), "stderr": VStr()})
            raise PyExc(e)
        return VObj(Stub, {"stdout": VStr(), "stderr": VStr(), "returncode": VInt(0)},
                    lazy=True, tag="proc")
    models.MODELS[subprocess.run] = sp_run
    import shlex
    models.MODELS[shlex.split] = lambda I, a, k: VList([VStr(), VStr()])
    models.CLASS_MODELS[Path] = lambda I, cls, a, k: VObj(Stub, {"name": VStr()}, lazy=True,
                                                         tag="path")
    ex.stub_attrs[("config", "lock_file")] = lambda I, o: (
        VObj(Stub, {}, lazy=True, tag="path") if I.ghost["want_lock"] else NONE)
    ex.stub_attrs[("config", "hooks")] = lambda I, o: VBool(I.ghost["want_hooks"])
    ex.stub_attrs[("config", "pre_hook")] = lambda I, o: VStr("pre.sh")
    ex.stub_attrs[("config", "post_hook")] = lambda I, o: VStr("post.sh")
    ex.stub_attrs[("config", "db")] = lambda I, o: (
        VObj(Stub, {}, lazy=True, tag="path") if I.ghost["want_db"] else NONE)


def _str_of(I: Interp, v: V) -> Any:
    return v


def entry_harness(artifacts: bool, db: bool, lock: bool, hooks: bool):
    B = base_module()
    from gallia import exitcodes

    def harness(I: Interp) -> None:
        I.ghost.update({"want_artifacts": artifacts, "want_db": db, "want_lock": lock,
                        "want_hooks": hooks, "lock": "none", "handlers_open": [],
                        "handlers_closed": 0, "meta_writes": [], "run_called": 0,
                        "db": "none", "db_completed": [], "db_disconnects": 0, "hooks": [],
                        "run_outcome": None, "run_value": None, "db_open_failed": False})
        config = VObj(Stub, {}, lazy=True, tag="config")
        run_meta = VObj(Stub, {"exit_code": NONE, "end_time": NONE}, lazy=True, tag="run_meta")
        cmd = VObj(B.BaseCommand, {"config": config, "run_meta": run_meta,
                                   "artifacts_dir": NONE, "_lock_file_fd": NONE,
                                   "db_handler": NONE, "log_file_handlers": VList([]),
                                   "CATCHED_EXCEPTIONS": VList([VConst(ConnectionError)])})
        # observe which hook variant is running
        orig_hook = B.BaseCommand.run_hook

        def hook_contract(I2: Interp, self_: V, variant: V, exit_code: V = NONE) -> V:
            I2.ghost["hook_variant"] = getattr(variant.py, "value", None) \
                if isinstance(variant, VConst) else None
            try:
                r = I2.exec_function(orig_hook, [self_, variant, exit_code], {}, B.BaseCommand)
            except PyExc as e:
                I2.fail("K-run_hook-never-raises", f"{I2.ghost['hook_variant']}-hook raised "
                                                   f"{e.exc.cls.__name__}")
                raise
            return r
        I.ex.contracts[orig_hook] = hook_contract
        try:
            rc = I.await_v(I.call_v(I.getattr_v(cmd, "entry_point"), [], {}))
        except PyExc as e:
            name = "X-entry_point-never-raises"
            if I.ghost["db_open_failed"]:
                name += "{opening-the-database-failed}"
            I.fail(name, f"raised {e.exc.cls.__name__} (run outcome {I.ghost['run_outcome']})")
            return
        G = I.ghost
        assert isinstance(rc, VInt)
        outcome = G["run_outcome"]
        if outcome is None:
            # run() was never reached: the lock could not be taken
            I.prove("X-early-exit-code-is-OSFILE", rc.t == int(exitcodes.OSFILE))
            I.prove("X-early-exit-leaves-no-lock", z3.BoolVal(G["lock"] != "held"))
            return
        want = {"return": lambda: G["run_value"].t,
                "keyboard-interrupt": lambda: z3.IntVal(130),
                "sys-exit-int": lambda: G["run_value"].t,
                "sys-exit-other": lambda: z3.IntVal(int(exitcodes.SOFTWARE)),
                "expected": lambda: z3.IntVal(int(exitcodes.IOERR)),
                "unexpected": lambda: z3.IntVal(int(exitcodes.SOFTWARE))}[outcome]()
        I.prove(f"X-exit-code-mapping({outcome})", rc.t == want)
        mc = run_meta.fields.get("exit_code")
        I.prove("M-run_meta.exit_code-is-the-exit-code",
                z3.BoolVal(isinstance(mc, VInt)) if not isinstance(mc, VInt) else mc.t == rc.t)
        I.prove("M-run_meta.end_time-set", z3.BoolVal(run_meta.fields.get("end_time") is not NONE))
        if artifacts:
            I.prove("M-META.json-written-exactly-once", z3.BoolVal(len(G["meta_writes"]) == 1))
            if len(G["meta_writes"]) == 1 and isinstance(G["meta_writes"][0], VInt):
                I.prove("M-META.json-carries-the-exit-code", G["meta_writes"][0].t == rc.t)
            else:
                I.prove("M-META.json-carries-the-exit-code", z3.BoolVal(False))
            I.prove("H-every-log-handler-closed", z3.BoolVal(
                not G["handlers_open"] and G["handlers_closed"] == 1))
        else:
            I.prove("M-no-META.json-without-artifacts-dir", z3.BoolVal(not G["meta_writes"]))
        if lock:
            I.prove("L-lock-released", z3.BoolVal(G["lock"] == "released"))
        if G["db"].endswith("run-inserted"):
            done = G["db_completed"]
            I.prove("D-run-entry-completed-exactly-once", z3.BoolVal(len(done) == 1))
            if len(done) == 1 and isinstance(done[0], VInt):
                I.prove("D-run-entry-has-the-exit-code", done[0].t == rc.t)
            I.prove("D-handler-disconnected", z3.BoolVal(G["db"].startswith("closed:")))
        if hooks:
            hk = G["hooks"]
            I.prove("K-pre-and-post-hook-invoked-once-each",
                    z3.BoolVal([h[0] for h in hk] == ["pre", "post"]))
            post = [h for h in hk if h[0] == "post"]
            I.prove("K-post-hook-sees-no-stale-exit-code", z3.BoolVal(
                len(post) == 1 and post[0][1] is not None))
        else:
            I.prove("K-no-hook-without-hooks-option", z3.BoolVal(not G["hooks"]))
        I.prove("X-run-called-once", z3.BoolVal(G["run_called"] == 1))
    return harness


def teardown_harness(cls_name: str):
    """Frame contract of run(): the command body does not disconnect the database handler that
    entry_point still needs for the run entry."""
    def harness(I: Interp) -> None:
        B = base_module()
        I.ghost.update({"db_disconnects": 0, "closed": []})
        if cls_name == "Scanner":
            cls = B.Scanner
        else:
            import gallia.command.uds as U
            cls = U.UDSScanner
        db = VObj(Stub, {"connection": VObj(Stub, {}, lazy=True, tag="conn")}, lazy=True,
                  tag="db")

        def disconnect(I2: Interp, recv: V, args: list[V], kwargs: dict[str, V]) -> V:
            def go() -> V:
                I2.ghost["db_disconnects"] += 1
                return NONE
            return coro(go)
        I.ex.stubs[("db", "disconnect")] = disconnect
        for tag in ("transport", "dumpcap", "ecu", "ps"):
            for meth in ("close", "stop", "disconnect", "stop_cyclic_tester_present"):
                I.ex.stubs[(tag, meth)] = (lambda I2, r, a, k: coro(lambda: NONE))
        obj = VObj(cls, {"db_handler": db,
                         "transport": VObj(Stub, {}, lazy=True, tag="transport"),
                         "dumpcap": VObj(Stub, {}, lazy=True, tag="dumpcap"),
                         "power_supply": NONE,
                         "ecu": VObj(Stub, {}, lazy=True, tag="ecu"),
                         "config": VObj(Stub, {}, lazy=True, tag="config"),
                         "_implicit_logging": VBool(True)})
        I.ex.stub_attrs[("config", "tester_present")] = lambda I2, o: VBool(True)
        I.ex.stub_attrs[("config", "properties")] = lambda I2, o: I2.fresh_bool("properties")
        I.ex.stub_attrs[("config", "compare_properties")] = lambda I2, o: VBool(False)
        I.ex.stub_attrs[("ecu", "transport")] = lambda I2, o: VObj(
            Stub, {"is_closed": I2.fresh_bool("closed")}, lazy=True, tag="transport")
        I.ex.stubs[("ecu", "properties")] = lambda I2, r, a, k: coro(
            lambda: VObj(Stub, {}, lazy=True, tag="props"))
        I.ex.stubs[("props", "to_json")] = lambda I2, r, a, k: VStr()
        I.ex.stubs[("db", "complete_scan_run")] = lambda I2, r, a, k: coro(lambda: NONE)
        obj.fields["artifacts_dir"] = NONE
        I.ex.stub_attrs[("ecu", "db_handler")] = lambda I2, o: NONE
        failed: dict[str, Any] = {}

        def close(I2: Interp, r: V, a: list[V], k: dict[str, V]) -> V:
            def go() -> V:
                # closing a transport whose peer is gone may fail with a connection error - one
                # of the "expected" exceptions entry_point maps to exit code 74
                if I2.choose([z3.BoolVal(True)] * 2) == 1:
                    failed["exc"] = VObj(ConnectionResetError, {"args": VTuple([])})
                    raise PyExc(failed["exc"])
                return NONE
            return coro(go)
        I.ex.stubs[("transport", "close")] = close
        try:
            I.await_v(I.call_v(I.getattr_v(obj, "teardown"), [], {}))
        except PyExc as e:
            if e.exc is failed.get("exc"):
                return  # propagates to run() -> entry_point: exit code 74, recorded everywhere
            I.fail("F-teardown-does-not-raise-on-its-own", e.exc.cls.__name__)
            return
        I.prove("F-a-connection-error-while-closing-the-transport-is-not-swallowed(exit-code-74)",
                z3.BoolVal("exc" not in failed))
        I.prove("F-run-body-does-not-disconnect-the-db-handler",
                z3.BoolVal(I.ghost["db_disconnects"] == 0))
    return harness


def async_run_harness(I: Interp) -> None:
    """AsyncScript.run: teardown runs iff setup returned, also when main raises."""
    B = base_module()
    log: list[str] = []

    def mk(name: str, may_raise: bool):
        def c(I2: Interp, self_: V) -> V:
            def go() -> V:
                log.append(name)
                if may_raise and I2.choose([z3.BoolVal(True)] * 2) == 1:
                    log.append(name + "!")
                    I2.raise_py(ValueError, name)
                return NONE
            return coro(go)
        return c
    I.ex.contracts[B.AsyncScript.setup] = mk("setup", True)
    I.ex.contracts[B.AsyncScript.main] = mk("main", True)
    I.ex.contracts[B.AsyncScript.teardown] = mk("teardown", False)
    obj = VObj(B.AsyncScript, {})
    log.clear()
    raised = False
    try:
        r = I.await_v(I.call_v(I.getattr_v(obj, "run"), [], {}))
    except PyExc:
        raised = True
    if "setup!" in log:
        I.prove("A-no-teardown-when-setup-failed", z3.BoolVal("teardown" not in log and raised))
    else:
        I.prove("A-teardown-runs-after-setup-returned", z3.BoolVal(log.count("teardown") == 1))
        I.prove("A-failure-of-main-propagates", z3.BoolVal(raised == ("main!" in log)))
        if not raised:
            I.prove("A-returns-OK", r.t == 0)


def complete_run_meta_harness(with_path: bool):
    """`DBHandler.complete_run_meta` against the contract entry_point relies on: one UPDATE of
    the run's row that stores end time, time zone and the exit code, then a commit - with and
    without an artifacts directory."""
    def harness(I: Interp) -> None:
        import gallia.command  # noqa: F401
        from gallia.db import handler as H
        log: list[tuple[str, Any]] = []

        def execute(I2: Interp, r: V, a: list[V], k: dict[str, V]) -> V:
            log.append(("execute", a))
            return coro(lambda: VObj(Stub, {}, lazy=True, tag="cursor"))
        I.ex.stubs[("conn", "execute")] = execute
        I.ex.stubs[("conn", "commit")] = lambda I2, r, a, k: (
            log.append(("commit", None)), coro(lambda: NONE))[1]
        ts, tzn = VFloat(z3.Real("end_ts")), VStr()
        I.ex.stubs[("time", "timestamp")] = lambda I2, r, a, k: ts
        I.ex.stubs[("time", "tzname")] = lambda I2, r, a, k: tzn
        meta = I.fresh_int("meta_id", 1, None, inp=True)
        code = I.fresh_int("exit_code", 0, 255, inp=True)
        h = VObj(H.DBHandler, {"connection": VObj(Stub, {}, lazy=True, tag="conn"), "meta": meta})
        path: V = VObj(Stub, {}, lazy=True, tag="path") if with_path else NONE
        I.ex.stubs[("path", "__str__")] = lambda I2, r, a, k: VStr("/artifacts/run-1")
        try:
            I.await_v(I.call_v(I.getattr_v(h, "complete_run_meta"),
                               [VObj(Stub, {}, lazy=True, tag="time"), code, path], {}))
        except PyExc as e:
            I.fail("M-complete_run_meta-does-not-raise", e.exc.cls.__name__)
            return
        ex = [a for k, a in log if k == "execute"]
        I.prove("M-exactly-one-statement-is-executed", z3.BoolVal(len(ex) == 1))
        I.prove("M-committed-after-the-update",
                z3.BoolVal(bool(log) and log[-1][0] == "commit" and len(log) >= 2))
        if len(ex) != 1:
            return
        q = ex[0][0]
        qs = q.s if isinstance(q, VStr) and q.s is not None else ""
        I.prove("M-statement-updates-run_meta-end-time-zone-and-exit-code", z3.BoolVal(
            qs.startswith("UPDATE run_meta SET") and all(
                c in qs for c in ("end_time = ?", "end_timezone = ?", "exit_code = ?"))
            and qs.rstrip().endswith("WHERE id = ?")))
        params = ex[0][1].items if len(ex[0]) > 1 and isinstance(ex[0][1], VTuple) else []
        cols = [c.strip().split(" ")[0] for c in qs.split("SET", 1)[-1].split("WHERE")[0]
                .split(",")] if "SET" in qs else []
        I.prove("M-one-parameter-per-placeholder", z3.BoolVal(len(params) == qs.count("?")))
        if len(params) != qs.count("?") or not params:
            return
        byname = dict(zip(cols + ["id"], params))
        I.prove("M-exit-code-parameter-is-the-exit-code",
                z3.BoolVal(byname.get("exit_code") is code))
        I.prove("M-end-time-parameter-is-the-end-time", z3.BoolVal(byname.get("end_time") is ts))
        I.prove("M-row-is-the-run's-own", z3.BoolVal(byname.get("id") is meta))
    return harness


def init_harness(I: Interp) -> None:
    """Ownership: the per-run resources of a command object are instance state created by
    `BaseCommand.__init__` - two command objects in one process (a script that runs another
    command) never share the list of open log handlers entry_point closes at its end."""
    B = base_module()

    class Cmd(B.BaseCommand):  # type: ignore[misc]
        async def run(self) -> int:
            return 0
    models.MODELS[B.camel_to_snake] = lambda I2, a, k: VStr("cmd")
    models.CLASS_MODELS[B.RunMeta] = lambda I2, cls, a, k: VObj(Stub, dict(k), lazy=True,
                                                                tag="run_meta")
    dumps: list[tuple] = []
    loaded: list[tuple] = []
    models.MODELS[B.json.loads] = lambda I2, a, k: (loaded.append((a[0],)), VDict([]))[1]
    I.ex.stubs[("config", "model_dump_json")] = lambda I2, r, a, k: (
        dumps.append((r, list(a), dict(k), VStr(t=z3.String(f"dump{len(dumps)}")))), dumps[-1][3])[1]
    I.ex.stubs[("config", "model_dump")] = lambda I2, r, a, k: (
        dumps.append((r, list(a), dict(k), VDict([]))), dumps[-1][3])[1]
    models.MODELS[B.datetime.now] = lambda I2, a, k: VObj(Stub, {}, lazy=True, tag="time")
    I.ex.stubs[("time", "isoformat")] = lambda I2, r, a, k: VStr()
    a_, b_ = VObj(Cmd, {}), VObj(Cmd, {})
    cfg = VObj(Stub, {}, lazy=True, tag="config")
    try:
        I.call_py(B.BaseCommand.__init__, [a_, cfg], {}, owner=B.BaseCommand)
        I.call_py(B.BaseCommand.__init__, [b_, cfg], {}, owner=B.BaseCommand)
    except PyExc as e:
        I.fail("N-BaseCommand.__init__-does-not-raise", e.exc.cls.__name__)
        return
    # what META.json / the run_meta row store as `config` is the *complete* dump of this run's
    # configuration - no exclude_defaults / exclude_unset / include filter - so that a rerun
    # from the stored configuration does not depend on defaults evaluated in another process
    rm = a_.fields.get("run_meta")
    first = dumps[0] if dumps else None
    I.prove("N-stored-configuration-is-the-complete-dump-of-this-run's-config", z3.BoolVal(
        first is not None and first[0] is cfg and not first[1] and not any(
            k_ in first[2] for k_ in ("exclude_defaults", "exclude_unset", "exclude_none",
                                      "include", "exclude"))),
        str(first[2] if first else None))
    I.prove("N-stored-configuration-is-what-run_meta-carries", z3.BoolVal(
        isinstance(rm, VObj) and "config" in rm.fields and bool(loaded or dumps)))
    la, lb = a_.fields.get("log_file_handlers"), b_.fields.get("log_file_handlers")
    I.prove("N-log_file_handlers-is-instance-state-created-by-__init__",
            z3.BoolVal(isinstance(la, VList) and la.items == []))
    I.prove("N-two-commands-do-not-share-their-log-handler-list",
            z3.BoolVal(la is not None and la is not lb))
    for attr in ("_lock_file_fd", "db_handler", "artifacts_dir"):
        I.prove(f"N-{attr}-starts-unset-per-instance", z3.BoolVal(a_.fields.get(attr) is NONE))


def native_teardown_close() -> tuple[bool, str]:
    """Scanner.teardown with a transport whose close() fails with a connection error"""
    import asyncio
    import logging
    logging.disable(logging.CRITICAL)
    B = base_module()

    class T:
        async def close(self) -> None:
            raise ConnectionResetError("peer is gone")

    class S(B.Scanner):  # type: ignore[misc]
        def __init__(self) -> None:
            self.transport = T()  # type: ignore[assignment]
            self.dumpcap = None
            self.power_supply = None

        async def main(self) -> None:
            pass
    try:
        asyncio.run(B.Scanner.teardown(S()))
    except ConnectionError:
        return False, "the connection error of transport.close() leaves teardown (exit code 74)"
    except Exception as e:  # noqa: BLE001
        return False, f"teardown raised {type(e).__name__}"
    return True, ("transport.close() failed with ConnectionResetError after main() succeeded and "
                  "teardown returned normally: the run ends with exit code 0 instead of 74")


def native_stored_config() -> tuple[bool, str]:
    """every option of the configuration object appears in run_meta.config, defaults included"""
    import gallia.command  # noqa: F401
    B = base_module()
    from gallia.commands.script.vecu import RngVirtualECU, RngVirtualECUConfig
    cfg = RngVirtualECUConfig(target="unix-lines:///tmp/c15-stored.sock")
    cmd = RngVirtualECU(cfg)
    stored = cmd.run_meta.config
    missing = [k for k in type(cfg).model_fields if k not in stored]
    return bool(missing), (f"options missing from the stored configuration of `vecu rng` "
                           f"(all at their default): {missing[:8]}"
                           if missing else "all options are stored")


def build_units(tier: str) -> list[Unit]:
    units = [Unit("db/complete_run_meta/with-artifacts-dir", complete_run_meta_harness(True)),
             Unit("db/complete_run_meta/without-artifacts-dir", complete_run_meta_harness(False)),
             Unit("ownership/BaseCommand.__init__", init_harness)]
    for a in (False, True):
        for d in (False, True):
            for l_ in (False, True):
                for h in (False, True):
                    units.append(Unit(f"entry_point/artifacts={int(a)},db={int(d)},"
                                      f"lock={int(l_)},hooks={int(h)}",
                                      entry_harness(a, d, l_, h), setup=install,
                                      max_paths=20000))
    units.append(Unit("frame/Scanner.teardown", teardown_harness("Scanner"), setup=install))
    units.append(Unit("frame/UDSScanner.teardown", teardown_harness("UDSScanner"),
                      setup=install))
    units.append(Unit("AsyncScript.run", async_run_harness, setup=install))
    # "the log file holds the run's records": the writer side of the log handler (unit of C17) -
    # one complete line per record for every level, and the serialised record is ASCII, so the
    # listener thread's encode()/write() cannot fail on any message text
    from . import c17
    units.append(Unit("log/emit-and-format", c17.writer_harness, setup=_log_setup))
    return units


def _log_setup(ex: Explorer) -> None:
    ex.obligation_filter = lambda name: name.startswith(  # type: ignore[attr-defined]
        ("W-emit-does-not-raise", "W-format-does-not-raise", "W-one-line-with-prefix",
         "W-serialised-record-is-ASCII"))


# --------------------------------------------------------------------------- native side
def native_run(outcome: str, hooks_fail: bool, db: bool, scanner: bool = False) -> dict:
    """Run the real entry_point of a minimal command in a temp dir; returns observations."""
    import asyncio
    import json
    import logging
    import tempfile
    B = base_module()
    logging.disable(logging.CRITICAL)
    tmp = tempfile.mkdtemp(prefix="c15_")

    class Cmd(B.AsyncScript):
        CONFIG_TYPE = B.AsyncScriptConfig
        SHORT_HELP = "x"
        CATCHED_EXCEPTIONS = [ConnectionError]

        async def main(self) -> None:
            if outcome == "keyboard-interrupt":
                raise KeyboardInterrupt
            if outcome == "sys-exit-int":
                sys.exit(3)
            if outcome == "sys-exit-other":
                sys.exit("msg")
            if outcome == "expected":
                raise ConnectionResetError("x")
            if outcome == "unexpected":
                raise ValueError("x")
    cfg = B.AsyncScriptConfig(
        artifacts_base=Path(tmp), artifacts_dir=Path(tmp) / "run", hooks=True,
        pre_hook="exit 1" if hooks_fail else "true", post_hook="exit 1" if hooks_fail else "true",
        db=(Path(tmp) / "db.sqlite") if db else None)
    cmd = Cmd(cfg)
    obs: dict[str, Any] = {"tmp": tmp}
    try:
        obs["rc"] = asyncio.run(cmd.entry_point())
    except BaseException as e:  # noqa: BLE001
        obs["raised"] = f"{type(e).__name__}: {e}"
    meta = Path(tmp) / "run" / "META.json"
    if meta.exists():
        obs["meta_exit_code"] = json.loads(meta.read_text()).get("exit_code")
    if db and (Path(tmp) / "db.sqlite").exists():
        import sqlite3
        con = sqlite3.connect(Path(tmp) / "db.sqlite")
        try:
            obs["db_rows"] = con.execute("select exit_code, end_time from run_meta").fetchall()
        except Exception as e:  # noqa: BLE001
            obs["db_rows"] = f"error {e}"
        con.close()
    return obs


def native_db_complete(with_path: bool) -> tuple[bool, str]:
    import asyncio
    import logging
    import shutil
    import sqlite3
    import tempfile
    logging.disable(logging.CRITICAL)
    import gallia.command  # noqa: F401
    from gallia.command.config import GalliaBaseModel
    from gallia.db.handler import DBHandler
    tmp = tempfile.mkdtemp(prefix="c15_")
    dbp = Path(tmp) / "x.sqlite"

    async def go() -> None:
        h = DBHandler(dbp)
        await h.connect()
        await h.insert_run_meta(script="x", config=GalliaBaseModel(),
                                start_time=datetime.now().astimezone(),
                                path=Path(tmp) if with_path else None)
        await h.complete_run_meta(datetime.now().astimezone(), 3,
                                  Path(tmp) if with_path else None)
        await h.disconnect()
    err = None
    try:
        asyncio.run(go())
    except Exception as e:  # noqa: BLE001
        err = f"{type(e).__name__}: {e}"
    rows: list = []
    try:
        con = sqlite3.connect(dbp)
        rows = con.execute("select exit_code, end_time, end_timezone from run_meta").fetchall()
        con.close()
    except Exception as e:  # noqa: BLE001
        err = (err or "") + f" / {e}"
    shutil.rmtree(tmp, ignore_errors=True)
    bad = err is not None or len(rows) != 1 or rows[0][0] != 3 or rows[0][1] is None
    return bad, (f"run_meta row after complete_run_meta(exit_code=3, path="
                 f"{'dir' if with_path else None}): {rows} (error: {err})")


def native_ownership() -> tuple[bool, str]:
    B = base_module()

    class Cmd(B.AsyncScript):  # type: ignore[misc]
        CONFIG_TYPE = B.AsyncScriptConfig

        async def main(self) -> None:
            pass
    a, b = Cmd(B.AsyncScriptConfig()), Cmd(B.AsyncScriptConfig())
    shared = a.log_file_handlers is b.log_file_handlers
    own = "log_file_handlers" in vars(a)
    return (shared or not own), (f"two command objects: log_file_handlers shared={shared}, "
                                 f"instance attribute={own}")


def native_replay(unit: str, obligation: str, model: dict) -> tuple[bool, str]:
    import shutil
    if unit.startswith("log/"):
        from . import c17
        return c17.native_replay("writer/emit-and-format", obligation, model)
    if unit.startswith("db/complete_run_meta"):
        return native_db_complete("with-" in unit)
    if unit.startswith("ownership/"):
        return native_ownership()
    if obligation.startswith("K-run_hook-never-raises") or "entry_point-never-raises" in obligation:
        obs = native_run("return", True, False)
        shutil.rmtree(obs["tmp"], ignore_errors=True)
        return "raised" in obs, f"entry_point with a failing pre/post hook: {obs}"
    if obligation.startswith("F-a-connection-error-while-closing"):
        return native_teardown_close()
    if obligation.startswith("F-run-body"):
        src = __import__("inspect").getsource(base_module().Scanner.teardown)
        return "db_handler.disconnect" in src, ("Scanner.teardown disconnects self.db_handler, "
                                                "so _db_finish_run_meta skips complete_run_meta")
    for outcome in RUN_OUTCOMES:
        obs = native_run(outcome, False, "db=1" in unit)
        shutil.rmtree(obs["tmp"], ignore_errors=True)
        want = {"return": 0, "keyboard-interrupt": 130, "sys-exit-int": 3, "sys-exit-other": 70,
                "expected": 74, "unexpected": 70}[outcome]
        if obs.get("rc") != want or obs.get("meta_exit_code") != want:
            return True, f"outcome {outcome}: expected exit code {want}, observed {obs}"
        if "db=1" in unit and (not isinstance(obs.get("db_rows"), list) or not obs["db_rows"]
                               or obs["db_rows"][0][0] != want):
            return True, f"outcome {outcome}: database run entry {obs.get('db_rows')} lacks " \
                         f"exit code {want}"
    return False, "exit codes, META.json and the database entry agree on the sampled outcomes"


def native_search(unit: str, obligation: str, seed: int) -> dict | None:
    return {}


TRUSTED = [
    "pyvc VC generator (exceptional control flow incl. finally, definite assignment)",
    "contracts of fcntl/lock helpers, prepare_artifacts_dir, add/remove_zst_log_handler, "
    "DBHandler.complete_run_meta/disconnect, subprocess.run, Path.write_text, run_meta.json(), "
    "datetime.now - each reduced to 'succeeds or raises' with ghost effects",
    "z3 5.1.0",
]


def main(tier: str, seed: int, only: str | None = None, jobs: int = 16) -> int:
    chk = Check("C15", "contracts.c15", tier, seed)
    units = build_units(tier)
    if only:
        units = [u for u in units if only in u.uid]
    results = run_units(units, jobs)
    chk.trusted_base = TRUSTED
    chk.assumptions = [
        "content of the log file / META.json / database row beyond 'written once with value v' "
        "is the callee's contract",
        "self.run() is abstract: returns an int or raises one of the six exit kinds at any "
        "lifecycle point inside it (setup/main/teardown are covered by AsyncScript.run)",
    ]
    return chk.finish(results, native_replay, native_search)
