"""C06 - DoIP: frames are demultiplexed correctly under any segmentation and interleaving
(proved-partial, DESIGN 5/C06).

  codec     GenericHeader / RoutingActivationRequest / DiagnosticMessage / acknowledgements /
            RoutingActivationResponse / AliveCheckResponse: pack layout by ISO 13400-2, unpack
            inverse of pack, inverse-version check
  connect   the routing activation request on the wire carries exactly the configured source
            address, activation type (all values) and protocol version; usable iff code 0x10
  framing   `_read_frame` consumes exactly 8 + PayloadLength bytes of the ghost *stream* and
            returns their decode (segmentation does not occur in the VC)
  worker    one arbitrary iteration of `_read_worker` (Hoare rule on `while True`): alive check ->
            exactly one AliveCheckResponse with the source address, other known frames queued,
            every exit path closes the connection
  demux     one arbitrary iteration of `read_diag_request_raw`, `_read_ack`,
            `_read_routing_activation_response` over an arbitrary dequeued frame: the first frame
            satisfying the awaited predicate ends the wait, any other frame is kept and re-queued
            on return (count and identity); order / cancel-safety obligations
  write     `write_request_raw`: bytes written, write <=> ack, negative ack -> error,
            timeout -> close + BrokenPipeError within the acknowledgement time; TargetUnreachable
  wait      alive-check answer path vs. locks held by a blocked reader (wait-level obligation)
Not claimed: numeric latency, TCP back-pressure, true interleavings of the two tasks.
"""
from __future__ import annotations

import ast
import asyncio
import inspect
import textwrap
from typing import Any

import z3

from pyvc import loops, models
from pyvc.engine import Explorer, Frame, Interp, PyExc, VCoro
from pyvc.runner import Check, Unit, run_units
from pyvc.values import (NONE, Unsupported, V, VBool, VBytes, VConst, VFloat, VInt, VList, VObj,
                         VStr, VTuple)

from . import codec_spec as cs
from . import transport_env as te
from .c15 import Stub, coro

FID = z3.Function("FRAME_ID", z3.IntSort(), z3.IntSort())


def D() -> Any:
    import gallia.command  # noqa: F401
    from gallia.transports import doip
    return doip


def unit(x: Any) -> Any:
    return cs.unit(x)


def be(I: Interp, x: Any, n: int) -> Any:
    return models.mk_be(I, x, n)


def hdr_bytes(I: Interp, ver: Any, typ: Any, ln: Any) -> Any:
    return z3.Concat(unit(ver), unit(255 - ver), be(I, typ, 2), be(I, ln, 4))


# --------------------------------------------------------------------------- codec
def codec_harness(I: Interp) -> None:
    d = D()
    ver = I.fresh_int("version", 0, 255, inp=True)
    typ = I.fresh_int("payload_type", 0, 0xFFFF, inp=True)
    ln = I.fresh_int("payload_length", 0, 0xFFFFFFFF, inp=True)
    h = I.call(d.GenericHeader, ver, typ, ln)
    p = I.call_v(I.getattr_v(h, "pack"), [], {})
    I.prove("G-header-layout(ver,~ver,type16,len32)", p.t == hdr_bytes(I, ver.t, typ.t, ln.t))
    # unpack is the inverse of pack on every 8-byte string it accepts
    raw = I.fresh_bytes("hdr_bytes", inp=True)
    I.assume(models.seq_len(raw.t) == 8)
    try:
        h2 = I.call_v(I.getattr_v(VConst(d.GenericHeader), "unpack"), [raw], {})
    except PyExc as e:
        I.assume(z3.And(raw.t[0] >= 0, raw.t[0] <= 255, raw.t[1] >= 0, raw.t[1] <= 255))
        I.prove("G-header-rejected-only-for-a-wrong-inverse-version",
                z3.And(raw.t[1] != 255 - raw.t[0], z3.BoolVal(issubclass(e.exc.cls, ValueError))))
    else:
        p2 = I.call_v(I.getattr_v(h2, "pack"), [], {})
        I.prove("G-header-unpack-then-pack-is-identity", models.bytes_eq(I, p2.t, raw.t))
        I.prove("G-header-accepted-only-with-inverse-version", raw.t[1] == 255 - raw.t[0])
    # out-of-range fields are refused
    big = I.fresh_int("big_version", inp=True)
    try:
        I.call_v(I.getattr_v(I.call(d.GenericHeader, big, typ, ln), "pack"), [], {})
        I.prove("G-header-version-range", z3.And(big.t >= 0, big.t <= 255))
    except PyExc:
        I.prove("G-header-refuses-only-out-of-range", z3.Not(z3.And(big.t >= 0, big.t <= 255)))


def payload_harness(I: Interp) -> None:
    d = D()
    src = I.fresh_int("src", 0, 0xFFFF, inp=True)
    tgt = I.fresh_int("tgt", 0, 0xFFFF, inp=True)
    at = I.fresh_int("activation_type", 0, 255, inp=True)
    data = I.fresh_bytes("user_data", inp=True)
    r = I.call(d.RoutingActivationRequest, src, at, VInt(0))
    I.prove("P-routing-activation-request-layout(src16,type8,reserved32)",
            I.call_v(I.getattr_v(r, "pack"), [], {}).t ==
            z3.Concat(be(I, src.t, 2), unit(at.t), be(I, z3.IntVal(0), 4)))
    m = I.call(d.DiagnosticMessage, src, tgt, data)
    pm = I.call_v(I.getattr_v(m, "pack"), [], {})
    I.prove("P-diagnostic-message-layout(src16,tgt16,data)",
            pm.t == z3.Concat(be(I, src.t, 2), be(I, tgt.t, 2), data.t))
    a = I.call(d.AliveCheckResponse, src)
    I.prove("P-alive-check-response-layout(src16)",
            I.call_v(I.getattr_v(a, "pack"), [], {}).t == be(I, src.t, 2))
    # unpack directions on arbitrary bytes
    raw = I.fresh_bytes("payload", inp=True)
    k = I.choose([z3.BoolVal(True)] * 4)
    cls = [d.DiagnosticMessage, d.DiagnosticMessagePositiveAcknowledgement,
           d.DiagnosticMessageNegativeAcknowledgement, d.RoutingActivationResponse][k]
    try:
        o = I.call_v(I.getattr_v(VConst(cls), "unpack"), [raw], {})
    except PyExc as e:
        I.prove(f"P-{cls.__name__}-rejects-with-an-Exception",
                z3.BoolVal(issubclass(e.exc.cls, Exception)))
        return
    ln = models.seq_len(raw.t)
    if k == 0:
        I.prove("P-DiagnosticMessage-unpack-fields",
                z3.And(ln >= 4, o.fields["SourceAddress"].t == raw.t[0] * 256 + raw.t[1],
                       o.fields["TargetAddress"].t == raw.t[2] * 256 + raw.t[3]))
        I.prove("P-DiagnosticMessage-unpack-then-pack-is-identity", models.bytes_eq(
            I, I.call_v(I.getattr_v(o, "pack"), [], {}).t, raw.t))
    elif k in (1, 2):
        I.prove(f"P-{cls.__name__}-unpack-fields",
                z3.And(ln >= 5, o.fields["SourceAddress"].t == raw.t[0] * 256 + raw.t[1],
                       o.fields["TargetAddress"].t == raw.t[2] * 256 + raw.t[3]))
        if k == 1:
            I.prove("P-positive-ack-code-is-a-known-code", o.fields["ACKCode"].t == raw.t[4])
    else:
        I.prove("P-RoutingActivationResponse-unpack-fields",
                z3.And(ln == 9, o.fields["SourceAddress"].t == raw.t[0] * 256 + raw.t[1],
                       o.fields["TargetAddress"].t == raw.t[2] * 256 + raw.t[3],
                       o.fields["RoutingActivationResponseCode"].t == raw.t[4]))


# --------------------------------------------------------------------------- connection object
def mk_conn(I: Interp, closed: bool = False, separate: bool = False) -> VObj:
    d = D()
    src = I.fresh_int("src_addr", 0, 0xFFFF, inp=True)
    tgt = I.fresh_int("target_addr", 0, 0xFFFF, inp=True)
    ver = I.fresh_int("protocol_version", 0, 255, inp=True)
    return VObj(d.DoIPConnection, {
        "reader": te.stub("reader"), "writer": te.stub("writer"), "src_addr": src,
        "target_addr": tgt, "protocol_version": ver,
        "separate_diagnostic_message_queue": VBool(separate),
        "_diagnostic_message_queue": te.stub("dqueue"), "_read_queue": te.stub("queue"),
        "_read_task": te.stub("task"), "_is_closed": VBool(closed),
        "_mutex": te.stub("lock:conn._mutex")})


def framing_harness(I: Interp) -> None:
    d = D()
    te.install_io(I.ex)
    conn = mk_conn(I)
    stream = I.fresh_bytes("stream", inp=True)
    I.ghost.update({"stream": stream, "pos": z3.IntVal(0), "reads": 0})
    total = models.seq_len(stream.t)
    try:
        r = I.await_v(I.call_v(I.getattr_v(conn, "_read_frame"), [], {}))
    except PyExc as e:
        if issubclass(e.exc.cls, asyncio.IncompleteReadError):
            I.prove("F-eof-only-when-the-stream-ends-inside-the-frame",
                    I.ghost["pos"] == total)
        else:
            I.prove("F-malformed-frame-raises-an-Exception",
                    z3.BoolVal(issubclass(e.exc.cls, Exception)), e.exc.cls.__name__)
        return
    s = stream.t
    plen = ((s[4] * 256 + s[5]) * 256 + s[6]) * 256 + s[7]
    I.prove("F-consumes-exactly-header-plus-payload", I.ghost["pos"] == 8 + plen)
    assert isinstance(r, VTuple)
    hdr, payload = r.items
    ptype = s[2] * 256 + s[3]
    known = [0x0000, 0x0006, 0x8002, 0x8003, 0x8001, 0x0007]
    if hdr is NONE:
        I.prove("F-unknown-payload-type-is-skipped-after-consuming-it",
                z3.And(*[ptype != k for k in known], z3.BoolVal(payload is NONE)))
        return
    I.prove("F-header-fields", z3.And(hdr.fields["ProtocolVersion"].t == s[0],
                                      hdr.fields["PayloadType"].t == ptype,
                                      hdr.fields["PayloadLength"].t == plen))
    I.prove("F-known-payload-type", z3.Or(*[ptype == k for k in known]))
    if isinstance(payload, VObj) and payload.cls is d.DiagnosticMessage:
        I.prove("F-diagnostic-message-decoded-from-the-payload-bytes", z3.And(
            ptype == 0x8001, payload.fields["SourceAddress"].t == s[8] * 256 + s[9],
            payload.fields["TargetAddress"].t == s[10] * 256 + s[11],
            models.bytes_eq(I, payload.fields["UserData"].t,
                            z3.SubSeq(s, z3.IntVal(12), plen - 4))))


def worker_harness(I: Interp) -> None:
    d = D()
    te.install_io(I.ex)
    conn = mk_conn(I)
    puts: list[V] = []
    I.ghost.update({"alive": 0, "closes": 0})

    def read_frame(I2: Interp, self_: V) -> V:
        def go() -> V:
            k = I2.choose([z3.BoolVal(True)] * 6)
            I2.ghost["frame_kind"] = k
            if k == 0:
                return VTuple([NONE, NONE])
            if k == 4:
                raise PyExc(VObj(asyncio.IncompleteReadError, {"args": VTuple([])}))
            if k == 5:
                raise PyExc(VObj(ValueError, {"args": VTuple([])}))
            ptype = {1: 0x0007, 2: 0x8001, 3: 0x8002}[k]
            hdr = I2.call(d.GenericHeader, VInt(3), VInt(ptype), I2.fresh_int("len", 0))
            pl = {1: lambda: I2.call(d.AliveCheckRequest),
                  2: lambda: I2.call(d.DiagnosticMessage, I2.fresh_int("s"), I2.fresh_int("t"),
                                     I2.fresh_bytes("ud")),
                  3: lambda: VObj(d.DiagnosticMessagePositiveAcknowledgement, {})}[k]()
            I2.ghost["frame"] = VTuple([hdr, pl])
            return I2.ghost["frame"]
        return coro(go)
    I.ex.contracts[d.DoIPConnection._read_frame] = read_frame

    def alive(I2: Interp, self_: V) -> V:
        I2.ghost["alive"] += 1
        return coro(lambda: NONE)
    I.ex.contracts[d.DoIPConnection.write_alive_check_response] = alive

    def close(I2: Interp, self_: V) -> V:
        I2.ghost["closes"] += 1
        return coro(lambda: NONE)
    I.ex.contracts[d.DoIPConnection.close] = close
    I.ex.stubs[("queue", "put")] = lambda I2, r, a, k: (puts.append(a[0]), coro(lambda: NONE))[1]
    I.ex.stubs[("dqueue", "put")] = lambda I2, r, a, k: (puts.append(a[0]),
                                                         coro(lambda: NONE))[1]

    def check_iteration(I2: Interp, fr: Frame) -> list[tuple[str, Any]]:
        # evaluated at the loop head: before the first iteration, and after an arbitrary one
        k = I2.ghost.get("frame_kind")
        if k is None:
            return []
        out = []
        if k == 1:
            out.append(("alive-check-answered-exactly-once-and-not-queued",
                        z3.BoolVal(I2.ghost["alive"] == 1 and not puts)))
        elif k in (2, 3):
            out.append(("known-frame-queued-exactly-once",
                        z3.BoolVal(I2.ghost["alive"] == 0 and len(puts) == 1
                                   and puts[0].items[1] is I2.ghost["frame"].items[1])))
        else:
            out.append(("unknown-frame-dropped", z3.BoolVal(not puts and I2.ghost["alive"] == 0)))
        return out

    def havoc(I2: Interp, fr: Frame) -> None:
        puts.clear()
        I2.ghost["alive"] = 0
        I2.ghost["frame_kind"] = None
    I.ex.loop_contracts[("DoIPConnection._read_worker", 0)] = loops.LoopContract(
        havoc, check_iteration)
    try:
        I.await_v(I.call_v(I.getattr_v(conn, "_read_worker"), [], {}))
    except PyExc as e:
        I.fail("W-read-worker-swallows-reader-failures", e.exc.cls.__name__)
        return
    I.prove("W-every-exit-of-the-reader-closes-the-connection",
            z3.BoolVal(I.ghost["closes"] == 1))


# --------------------------------------------------------------------------- demux loops
def mk_frame(I: Interp, kind: int) -> VTuple:
    d = D()
    hdr = I.call(d.GenericHeader, VInt(3), I.fresh_int("ptype"), I.fresh_int("plen"))
    src, tgt = I.fresh_int("f_src", 0, 0xFFFF), I.fresh_int("f_tgt", 0, 0xFFFF)
    if kind == 0:
        pl = I.call(d.DiagnosticMessage, src, tgt, I.fresh_bytes("f_data"))
    elif kind == 1:
        pl = VObj(d.DiagnosticMessagePositiveAcknowledgement, {
            "SourceAddress": src, "TargetAddress": tgt, "ACKCode": VInt(0),
            "PreviousDiagnosticMessageData": I.fresh_bytes("f_prev")})
    elif kind == 2:
        pl = VObj(d.DiagnosticMessageNegativeAcknowledgement, {
            "SourceAddress": src, "TargetAddress": tgt, "ACKCode": I.fresh_int("nack", 0, 255),
            "PreviousDiagnosticMessageData": I.fresh_bytes("f_prev")})
    elif kind == 3:
        pl = VObj(d.RoutingActivationResponse, {
            "SourceAddress": src, "TargetAddress": tgt,
            "RoutingActivationResponseCode": I.fresh_int("rac", 0, 255), "Reserved": VInt(0)})
    else:
        pl = VObj(d.GenericDoIPHeaderNACK, {"GenericHeaderNACKCode": I.fresh_int("hn", 0, 255)})
    return VTuple([hdr, pl])


def demux_harness(which: str):
    def harness(I: Interp) -> None:
        d = D()
        te.install_io(I.ex)
        te.install_locks()
        conn = mk_conn(I)
        prev = I.fresh_bytes("written_user_data", inp=True)
        putlog = VList([])
        I.ghost.update({"dequeued": z3.IntVal(0), "putlog": putlog, "cancelled": False,
                        "cur": None, "cur_kind": None})

        def get_frame(I2: Interp, self_: V) -> V:
            def go() -> V:
                k = I2.choose([z3.BoolVal(True)] * 6)
                if k == 5:
                    # cancellation point: the caller's timeout (wait_for) or task cancellation
                    I2.ghost["cancelled"] = True
                    raise PyExc(VObj(asyncio.CancelledError, {"args": VTuple([])}))
                f = mk_frame(I2, k)
                I2.ghost["cur"], I2.ghost["cur_kind"] = f, k
                I2.ghost["dequeued"] = I2.ghost["dequeued"] + 1
                return f
            return coro(go)
        I.ex.contracts[d.DoIPConnection.read_frame] = get_frame
        I.ex.contracts[d.DoIPConnection.read_frame_unsafe] = get_frame

        def put(I2: Interp, recv: V, args: list[V], kwargs: dict[str, V]) -> V:
            models.list_method(I2, I2.ghost["putlog"], "append", [args[0]], {})
            return coro(lambda: NONE)
        I.ex.stubs[("queue", "put")] = put
        fname = {"diag": "read_diag_request_raw", "ack": "_read_ack",
                 "routing": "_read_routing_activation_response"}[which]

        def awaited_pred(cur: Any, kind: int) -> Any:
            pl = cur.items[1]
            src_ok = z3.And(pl.fields["SourceAddress"].t == conn.fields["target_addr"].t,
                            pl.fields["TargetAddress"].t == conn.fields["src_addr"].t) \
                if "SourceAddress" in pl.fields else z3.BoolVal(False)
            if which == "diag":
                return z3.And(z3.BoolVal(kind == 0), src_ok)
            if which == "ack":
                pd = pl.fields.get("PreviousDiagnosticMessageData")
                echo = z3.BoolVal(False)
                if pd is not None:
                    n = models.seq_len(pd.t)
                    echo = z3.Or(n == 0, z3.And(n <= models.seq_len(prev.t),
                                                pd.t == z3.SubSeq(prev.t, z3.IntVal(0), n)))
                return z3.And(z3.BoolVal(kind in (1, 2)), src_ok, echo)
            return z3.BoolVal(kind == 3)

        def havoc(I2: Interp, fr: Frame) -> None:
            k = I2.fresh_int("skipped", 0)
            I2.ghost["cur"] = None
            I2.ghost["dequeued"] = k.t
            I2.ghost["skipped0"] = k.t
            fr.env[loops.list_accumulator(fr)] = VList(
                None, k.t, lambda j: VTuple([VObj(Stub, {"fid": VInt(FID(j))}, tag="skipped"),
                                             NONE]))
            for n in ("hdr", "payload", "item"):
                fr.env.pop(n, None)
                fr.poison.add(n)

        def inv(I2: Interp, fr: Frame) -> list[tuple[str, Any]]:
            up = fr.env[loops.list_accumulator(fr)]
            out = [("every-dequeued-frame-so-far-was-kept-aside",
                    up.length() == I2.ghost["dequeued"])]
            if I2.ghost.get("cur") is not None:
                out.append(("a-frame-that-is-kept-aside-is-not-the-awaited-one",
                            z3.Not(awaited_pred(I2.ghost["cur"], I2.ghost["cur_kind"]))))
            return out
        I.ex.loop_contracts[(f"DoIPConnection.{fname}", 0)] = loops.LoopContract(havoc, inv)
        args = [prev] if which == "ack" else []
        raised = None
        try:
            r = I.await_v(I.call_v(I.getattr_v(conn, fname), args, {}))
        except PyExc as e:
            raised, r = e.exc, None
        cur, kind = I.ghost["cur"], I.ghost["cur_kind"]
        k0 = I.ghost.get("skipped0")
        if I.ghost["cancelled"]:
            I.prove("Q-cancel-safe(no-dequeued-frame-is-lost-when-the-wait-is-cancelled)",
                    k0 == 0 if k0 is not None else z3.BoolVal(True))
            return
        if cur is None:
            return
        pl = cur.items[1]
        awaited = awaited_pred(cur, kind)
        # the call ended in this iteration (returned or raised an ack/activation error)
        I.prove("Q-wait-ends-only-on-the-awaited-frame", awaited, f"kind={kind}")
        pll = I.ghost["putlog"]
        I.prove("Q-every-skipped-frame-is-requeued(count)", pll.length() == k0)
        sk = z3.Int(I.fresh_name("q_sk"))
        I.note_index(sk)
        el = pll.at(sk) if not (pll.items is not None and not pll.items) else None
        if el is not None:
            I.prove("Q-every-skipped-frame-is-requeued(identity)", z3.Implies(
                z3.And(sk >= 0, sk < k0), el.items[0].fields["fid"].t == FID(sk)))
        I.prove("Q-requeue-keeps-arrival-order(skipped-frames-precede-later-arrivals)",
                k0 == 0, "re-queued with put(): behind every frame that arrived meanwhile")
        if which == "diag":
            I.prove("Q-returns-the-awaited-diagnostic-message",
                    z3.BoolVal(raised is None and isinstance(r, VTuple) and r.items[1] is pl))
        elif which == "ack":
            if kind == 2:
                I.prove("Q-negative-ack-raises-DoIPNegativeAckError", z3.BoolVal(
                    raised is not None and raised.cls is d.DoIPNegativeAckError))
            else:
                I.prove("Q-positive-ack-returns", z3.BoolVal(raised is None))
        else:
            code = pl.fields["RoutingActivationResponseCode"].t
            if raised is None:
                I.prove("Q-routing-activation-succeeds-only-on-code-0x10", code == 0x10)
            else:
                I.prove("Q-routing-activation-denied-otherwise", z3.And(
                    code != 0x10, z3.BoolVal(raised.cls is d.DoIPRoutingActivationDeniedError)))
    return harness


def demux_scripted_harness(which: str, k: int):
    """Bounded companion of the demux units (labelled): a scripted history of k frames of
    another kind followed by the awaited frame, the loop executed as written."""
    def harness(I: Interp) -> None:
        d = D()
        te.install_io(I.ex)
        te.install_locks()
        conn = mk_conn(I)
        prev = VBytes(bytes.fromhex("22f190"))
        state = {"i": 0}
        frames: list[VTuple] = []
        putlog: list[V] = []
        # awaited kind / kind of the frames that have to be kept aside
        good, other = {"diag": (0, 1), "ack": (1, 0), "nack": (2, 0), "routing": (3, 0)}[which]

        def get_frame(I2: Interp, self_: V) -> V:
            def go() -> V:
                i = state["i"]
                state["i"] += 1
                if i > k:
                    I2.fail("Q-wait-ends-on-the-awaited-frame(scripted)", "read past it")
                    raise PyExc(VObj(asyncio.CancelledError, {"args": VTuple([])}))
                f = mk_frame(I2, good if i == k else other)
                pl = f.items[1]
                if i == k and "SourceAddress" in pl.fields and which != "routing":
                    pl.fields["SourceAddress"] = conn.fields["target_addr"]
                    pl.fields["TargetAddress"] = conn.fields["src_addr"]
                if i == k and "PreviousDiagnosticMessageData" in pl.fields:
                    pl.fields["PreviousDiagnosticMessageData"] = VBytes(bytes.fromhex("22f1"))
                if i == k and which == "routing":
                    pl.fields["RoutingActivationResponseCode"] = VInt(0x10)
                frames.append(f)
                return f
            return coro(go)
        I.ex.contracts[d.DoIPConnection.read_frame] = get_frame
        I.ex.contracts[d.DoIPConnection.read_frame_unsafe] = get_frame

        def put(I2: Interp, recv: V, args: list[V], kwargs: dict[str, V]) -> V:
            putlog.append(args[0])
            return coro(lambda: NONE)
        I.ex.stubs[("queue", "put")] = put
        I.ex.stubs[("queue", "put_nowait")] = lambda I2, r, a, kw: (putlog.append(a[0]), NONE)[1]
        fname = {"diag": "read_diag_request_raw", "ack": "_read_ack", "nack": "_read_ack",
                 "routing": "_read_routing_activation_response"}[which]
        raised = None
        try:
            I.await_v(I.call_v(I.getattr_v(conn, fname),
                               [prev] if which in ("ack", "nack") else [], {}))
        except PyExc as e:
            raised = e.exc
        if which == "nack":
            I.prove(f"Q-negative-ack-raises-DoIPNegativeAckError(scripted,k={k})", z3.BoolVal(
                raised is not None and raised.cls is d.DoIPNegativeAckError))
        elif raised is not None:
            I.fail("Q-demux-loop-does-not-raise-on-a-frame(scripted)", raised.cls.__name__)
            return
        I.prove(f"Q-wait-ends-only-on-the-awaited-frame(scripted,k={k})",
                z3.BoolVal(state["i"] == k + 1))
        same = len(putlog) == k and all(
            isinstance(a, VTuple) and all(x is y for x, y in zip(a.items, b.items))
            for a, b in zip(putlog, frames))
        I.prove(f"Q-skipped-frames-are-requeued-once-each-in-arrival-order(scripted,k={k})",
                z3.BoolVal(same), f"{len(putlog)} re-queued of {k}")
    return harness


def not_awaited_harness(which: str):
    """Complement of Q-wait-ends-only-on-the-awaited-frame: an awaited frame is never skipped."""
    base = demux_harness(which)
    return base


# --------------------------------------------------------------------------- write path
def write_harness(kind: str):
    def harness(I: Interp) -> None:
        d = D()
        te.install_io(I.ex)
        te.install_locks()
        conn = mk_conn(I)
        I.ghost.update({"written": [], "closes": 0, "held": set(), "ack_waits": 0})
        outcome = {"v": None}

        def read_ack(I2: Interp, self_: V, prev: V) -> V:
            def go() -> V:
                I2.ghost["ack_waits"] += 1
                I2.ghost["ack_prev"] = prev
                I2.prove("X-ack-awaited-under-the-connection-mutex",
                         z3.BoolVal("lock:conn._mutex" in I2.ghost["held"]))
                k = I2.choose([z3.BoolVal(True)] * 2)
                outcome["v"] = ["positive", "negative"][k]
                if k == 1:
                    e = VObj(d.DoIPNegativeAckError, {"args": VTuple([]),
                                                      "nack_code": I2.fresh_int("nack", 0, 255)})
                    outcome["exc"] = e
                    raise PyExc(e)
                return NONE
            return coro(go)

        def read_rar(I2: Interp, self_: V) -> V:
            def go() -> V:
                I2.ghost["ack_waits"] += 1
                k = I2.choose([z3.BoolVal(True)] * 2)
                outcome["v"] = ["success", "denied"][k]
                if k == 1:
                    outcome["exc"] = VObj(d.DoIPRoutingActivationDeniedError, {"args": VTuple([])})
                    raise PyExc(outcome["exc"])
                return NONE
            return coro(go)
        I.ex.contracts[d.DoIPConnection._read_ack] = read_ack
        I.ex.contracts[d.DoIPConnection._read_routing_activation_response] = read_rar

        def close(I2: Interp, self_: V) -> V:
            I2.ghost["closes"] += 1
            return coro(lambda: NONE)
        I.ex.contracts[d.DoIPConnection.close] = close
        data = I.fresh_bytes("user_data", inp=True)
        I.assume(models.seq_len(data.t) <= 0xFFFFFFFF - 4)  # DoIP payload length is 32 bit
        at = I.fresh_int("activation_type", 0, 255, inp=True)
        meth, args = {"diag": ("write_diag_request", [data]),
                      "routing": ("write_routing_activation_request", [at]),
                      "alive": ("write_alive_check_response", [])}[kind]
        raised = None
        try:
            I.await_v(I.call_v(I.getattr_v(conn, meth), args, {}))
        except PyExc as e:
            raised = e.exc
        w = I.ghost["written"]
        ver, src, tgt = (conn.fields["protocol_version"].t, conn.fields["src_addr"].t,
                         conn.fields["target_addr"].t)
        I.prove("X-exactly-one-write-per-request", z3.BoolVal(len(w) == 1))
        if len(w) == 1:
            if kind == "diag":
                want = z3.Concat(hdr_bytes(I, ver, z3.IntVal(0x8001), models.seq_len(data.t) + 4),
                                 be(I, src, 2), be(I, tgt, 2), data.t)
            elif kind == "routing":
                want = z3.Concat(hdr_bytes(I, ver, z3.IntVal(0x0005), z3.IntVal(7)),
                                 be(I, src, 2), unit(at.t), be(I, z3.IntVal(0), 4))
            else:
                want = z3.Concat(hdr_bytes(I, ver, z3.IntVal(0x0008), z3.IntVal(2)), be(I, src, 2))
            I.prove(f"X-bytes-on-the-wire({kind})", models.bytes_eq(I, w[0].t, want))
        I.prove("X-mutex-released", z3.BoolVal(not I.ghost["held"]))
        timed_out = I.ghost.get("timed_out", False)
        dl = I.ghost.get("deadlines", [])
        if kind in ("diag", "routing"):
            I.prove("X-acknowledgement-wait-has-the-protocol-deadline(2s)",
                    z3.BoolVal(len(dl) == 1 and isinstance(dl[0], VFloat)
                               and dl[0].concrete() == 2.0))
            if timed_out:
                I.prove("X-ack-timeout-closes-and-raises-BrokenPipeError", z3.BoolVal(
                    I.ghost["closes"] == 1 and raised is not None
                    and issubclass(raised.cls, BrokenPipeError)))
            elif outcome["v"] in ("positive", "success"):
                I.prove("X-write-completes-iff-acknowledged", z3.BoolVal(raised is None))
            else:
                I.prove("X-negative-outcome-is-a-connection-error", z3.BoolVal(
                    raised is not None and issubclass(raised.cls, ConnectionError)))
                # the caller must be able to tell *which* negative acknowledgement it got
                # (DoIPTransport.write tolerates exactly TargetUnreachable), and a negative
                # acknowledgement does not cost the connection
                I.prove("X-negative-acknowledgement-reaches-the-caller-with-its-code",
                        z3.BoolVal(raised is outcome.get("exc")),
                        f"raised {raised.cls.__name__ if raised is not None else None}")
                I.prove("X-negative-acknowledgement-leaves-the-connection-open",
                        z3.BoolVal(I.ghost["closes"] == 0))
            if kind == "diag" and I.ghost["ack_waits"]:
                I.prove("X-ack-is-matched-against-the-written-user-data",
                        z3.BoolVal(I.ghost.get("ack_prev") is data))
        else:
            I.prove("X-alive-check-response-needs-no-acknowledgement",
                    z3.BoolVal(raised is None and I.ghost["ack_waits"] == 0))
    return harness


def transport_write_harness(I: Interp) -> None:
    """DoIPTransport.write swallows exactly TargetUnreachable."""
    d = D()
    te.install_io(I.ex)
    code = I.fresh_int("nack_code", 0, 255, inp=True)
    kind = I.choose([z3.BoolVal(True)] * 3)

    def wdr(I2: Interp, recv: V, args: list[V], kwargs: dict[str, V]) -> V:
        def go() -> V:
            if kind == 1:
                members = [int(m) for m in d.DiagnosticMessageNegativeAckCodes]
                c = z3.If(z3.Or(*[code.t == m for m in members]), code.t, 0xFF)
                e = VObj(d.DoIPNegativeAckError, {
                    "args": VTuple([]), "nack_code": VInt(c, d.DiagnosticMessageNegativeAckCodes)})
                raise PyExc(e)
            if kind == 2:
                raise PyExc(VObj(BrokenPipeError, {"args": VTuple([])}))
            return NONE
        return coro(go)
    I.ex.stubs[("conn", "write_diag_request")] = wdr
    t = VObj(d.DoIPTransport, {"_conn": te.stub("conn"), "_is_closed": VBool(False)})
    data = I.fresh_bytes("data", inp=True)
    I.ghost["timed_out"] = False
    try:
        r = I.await_v(I.call_v(I.getattr_v(t, "write"), [data, VFloat(1.0), NONE], {}))
        raised = None
    except PyExc as e:
        raised, r = e.exc, None
    if I.ghost.get("timed_out"):
        I.prove("T-caller-timeout-surfaces-as-TimeoutError",
                z3.BoolVal(raised is not None and issubclass(raised.cls, TimeoutError)))
    elif kind == 0:
        I.prove("T-acknowledged-write-returns-the-length",
                z3.And(z3.BoolVal(raised is None), r.t == models.seq_len(data.t))
                if raised is None else z3.BoolVal(False))
    elif kind == 1:
        if raised is None:
            I.prove("T-only-TargetUnreachable-is-tolerated", code.t == 0x06)
        else:
            I.prove("T-other-negative-acks-are-connection-errors",
                    z3.And(code.t != 0x06, z3.BoolVal(issubclass(raised.cls, ConnectionError))))
    else:
        I.prove("T-connection-errors-propagate", z3.BoolVal(raised is not None))


def connect_harness(I: Interp) -> None:
    """The activation type handed to write_routing_activation_request is the configured one."""
    d = D()
    at = I.fresh_int("activation_type", 0, 255, inp=True)
    seen: dict[str, V] = {}

    def conn_connect(I2: Interp, cls: V, *a: V, **k: V) -> V:
        seen["connect_args"] = VTuple(list(a))
        seen["kwargs"] = k
        return coro(lambda: te.stub("conn"))
    I.ex.contracts[d.DoIPConnection.__dict__["connect"].__func__] = conn_connect

    def wrar(I2: Interp, recv: V, args: list[V], kwargs: dict[str, V]) -> V:
        seen["activation_type"] = args[0]
        return coro(lambda: NONE)
    I.ex.stubs[("conn", "write_routing_activation_request")] = wrar
    src = I.fresh_int("src_addr", 0, 0xFFFF, inp=True)
    tgt = I.fresh_int("target_addr", 0, 0xFFFF, inp=True)
    ver = I.fresh_int("protocol_version", 0, 255, inp=True)
    try:
        I.await_v(I.call(d.DoIPTransport._connect, VStr("host"), VInt(13400), src, tgt, at, ver))
    except PyExc as e:
        I.fail("C-connect-does-not-raise-for-valid-settings", e.exc.cls.__name__)
        return
    got = seen.get("activation_type")
    I.prove("C-activation-type-on-the-wire-is-the-configured-one",
            models.as_int(I, got) == at.t if got is not None else z3.BoolVal(False))
    ca = seen["connect_args"].items
    I.prove("C-connection-gets-the-configured-addresses-and-version", z3.And(
        ca[2].t == src.t, ca[3].t == tgt.t,
        models.as_int(I, seen["kwargs"].get("protocol_version", VInt(-1))) == ver.t))


# --------------------------------------------------------------------------- wait levels
def wait_level_harness(I: Interp) -> None:
    """The reader task answers alive checks through write_request_raw, which needs
    conn._mutex.  Obligation: no blocking wait on the frame queue happens while that mutex is
    held (Leino-Mueller-Smans wait levels; sufficient for 'alive check answered whatever the
    client is doing')."""
    d = D()
    cls = d.DoIPConnection

    def calls_under_mutex(fn: Any) -> list[str]:
        tree = ast.parse(textwrap.dedent(inspect.getsource(fn)))
        out: list[str] = []

        class Vst(ast.NodeVisitor):
            depth = 0

            def visit_AsyncWith(self, n: ast.AsyncWith) -> None:
                locked = any(isinstance(it.context_expr, ast.Attribute)
                             and it.context_expr.attr == "_mutex" for it in n.items)
                self.depth += locked
                for st in n.body:
                    self.visit(st)
                self.depth -= locked

            def visit_Call(self, n: ast.Call) -> None:
                if self.depth and isinstance(n.func, ast.Attribute):
                    out.append(n.func.attr)
                self.generic_visit(n)
        Vst().visit(tree)
        return out
    blocking = {"read_frame_unsafe", "_read_ack", "_read_routing_activation_response", "get"}
    alive_needs = "write_request_raw" in inspect.getsource(cls.write_alive_check_response)
    I.prove("L-alive-check-answer-acquires-conn._mutex(fact)", z3.BoolVal(alive_needs))
    for name in ("read_frame", "write_request_raw", "read_diag_request_raw"):
        held_calls = [c for c in calls_under_mutex(getattr(cls, name)) if c in blocking]
        I.prove(f"L-no-blocking-queue-wait-under-conn._mutex({name})",
                z3.BoolVal(not held_calls or not alive_needs), f"blocks in {held_calls}")


def build_units(tier: str) -> list[Unit]:
    units = [Unit("codec/GenericHeader", codec_harness), Unit("codec/payloads", payload_harness),
             Unit("framing/_read_frame", framing_harness),
             Unit("worker/_read_worker", worker_harness),
             Unit("connect/routing-activation", connect_harness),
             Unit("write/DoIPTransport.write", transport_write_harness),
             Unit("wait-levels/alive-check", wait_level_harness)]
    for w in ("diag", "ack", "routing"):
        units.append(Unit(f"demux/{w}", demux_harness(w), max_paths=20000))
    for w in ("diag", "ack", "nack", "routing"):
        for k in range(0, 4):
            units.append(Unit(f"demux-scripted/{w}/k={k}", demux_scripted_harness(w, k),
                              bounded="scripted history of k <= 3 skipped frames"))
    for k in ("diag", "routing", "alive"):
        units.append(Unit(f"write/{k}", write_harness(k)))
    return units


# --------------------------------------------------------------------------- native side
def native_replay(unit: str, obligation: str, model: dict) -> tuple[bool, str]:
    import logging
    logging.disable(logging.CRITICAL)
    d = D()
    if "keeps-arrival-order" in obligation or "cancel-safe" in obligation:
        return native_queue_scenarios(obligation)
    if obligation.startswith("L-no-blocking"):
        return native_alive_deadlock()
    if obligation.startswith("C-activation-type"):
        at = model.get("activation_type", 2)
        got = int(d.RoutingActivationRequestTypes(at)) if "RoutingActivationRequestTypes(" in \
            inspect.getsource(d.DoIPTransport._connect) else at
        return got != at, f"activation type {at} is sent as {got:#x}"
    if "negative-acknowledgement" in obligation:
        return native_nack()
    if unit.startswith("framing/"):
        return native_segmentation()
    if unit == "write/routing" or obligation.startswith("C-activation-type"):
        return native_activation_types()
    if unit.startswith("demux-scripted/"):
        return native_scripted(unit.split("/")[1])
    return False, "no native replay for this obligation"


def native_nack() -> tuple[bool, str]:
    """every negative acknowledgement code: the writer gets DoIPNegativeAckError with that code,
    the connection stays open; at transport level TargetUnreachable (0x06) is tolerated"""
    d = D()

    async def go() -> tuple[bool, str]:
        for code in (0x02, 0x03, 0x04, 0x05, 0x06, 0x07, 0x08):
            r = asyncio.StreamReader()
            w = FakeWriter()
            conn = d.DoIPConnection(r, w, 0x0E00, 0x1D, 3)  # type: ignore[arg-type]
            data = b"\x22\xf1\x90"
            r.feed_data(frame(d, 0x8003, bytes([0x00, 0x1D, 0x0E, 0x00, code]) + data))
            got: Any = None
            try:
                await asyncio.wait_for(conn.write_diag_request(data), 3)
            except Exception as e:  # noqa: BLE001
                got = e
            closed = conn._is_closed
            conn._read_task.cancel()
            if not isinstance(got, d.DoIPNegativeAckError) or int(got.nack_code) != code or closed:
                return True, (f"negative acknowledgement {code:#04x} for a diagnostic message: "
                              f"write raised {got!r}, connection closed: {closed}")
        return False, "negative acknowledgements reach the writer with their code, connection open"
    return asyncio.run(go())


def native_activation_types() -> tuple[bool, str]:
    """The routing activation request on the wire carries the requested activation type, for all
    256 values (connection level and transport level)."""
    d = D()

    async def go() -> tuple[bool, str]:
        wrong = []
        for at in range(256):
            r = asyncio.StreamReader()
            w = FakeWriter()
            conn = d.DoIPConnection(r, w, 0x0E00, 0x1D, 3)  # type: ignore[arg-type]
            try:
                await asyncio.wait_for(conn.write_routing_activation_request(at), 0.01)
            except Exception:  # noqa: BLE001
                pass
            conn._read_task.cancel()
            if len(w.data) < 11 or w.data[10] != at:
                wrong.append((at, w.data.hex()))
        if wrong:
            return True, (f"{len(wrong)} of 256 activation types are not sent as given, e.g. type "
                          f"{wrong[0][0]:#04x} -> frame {wrong[0][1]}")
        return False, "all 256 activation types reach the wire unchanged"
    return asyncio.run(go())


def native_scripted(which: str) -> tuple[bool, str]:
    """k frames of another kind arrive before the awaited one: afterwards they are read back
    once each and in their arrival order."""
    d = D()
    tgt, src = 0x001D, 0x0E00

    def diag(i: int) -> bytes:
        return frame(d, 0x8001, tgt.to_bytes(2, "big") + src.to_bytes(2, "big")
                     + bytes([0x50, i]))

    def ack(code_type: int, i: int = 0) -> bytes:
        return frame(d, code_type, tgt.to_bytes(2, "big") + src.to_bytes(2, "big")
                     + bytes([0x00 if code_type == 0x8002 else 0x03]) + bytes.fromhex("22f1"))

    async def go() -> tuple[bool, str]:
        for k in (1, 2, 3):
            r = asyncio.StreamReader()
            conn = d.DoIPConnection(r, FakeWriter(), src, tgt, 3)  # type: ignore[arg-type]
            if which in ("ack", "nack"):
                skipped = [diag(i) for i in range(k)]
                r.feed_data(b"".join(skipped) + ack(0x8002 if which == "ack" else 0x8003))
                await asyncio.sleep(0.01)
                try:
                    await asyncio.wait_for(conn._read_ack(bytes.fromhex("22f190")), 0.5)
                except d.DoIPNegativeAckError:
                    pass
                got = []
                for _ in range(k):
                    try:
                        _, p = await asyncio.wait_for(conn.read_diag_request_raw(), 0.1)
                        got.append(bytes(p.UserData).hex())
                    except TimeoutError:
                        got.append("<missing>")
                want = [bytes([0x50, i]).hex() for i in range(k)]
            else:
                return False, "no native scenario for this wait"
            await conn.close()
            if got != want:
                return True, (f"{k} diagnostic messages, then the "
                              f"{'negative ' if which == 'nack' else ''}acknowledgement: reads "
                              f"deliver {got}, sent {want}")
        return False, "skipped frames come back once each and in order for k=1..3"
    return asyncio.run(go())


def native_segmentation() -> tuple[bool, str]:
    """Two frames delivered in two TCP segments, for every split offset: the frames handed out
    must not depend on the segmentation."""
    d = D()
    f1 = frame(d, 0x8001, bytes([0x00, 0x1D, 0x0E, 0x00]) + bytes.fromhex("62f190") + b"VIN-0123456789")
    f2 = frame(d, 0x8002, bytes([0x00, 0x1D, 0x0E, 0x00, 0x00]))
    stream = f1 + f2

    async def decode(cut: int | None) -> list[str]:
        r = asyncio.StreamReader()
        conn = d.DoIPConnection(r, FakeWriter(), 0x0E00, 0x1D, 3)  # type: ignore[arg-type]
        conn._read_task.cancel()
        out: list[str] = []

        async def feeder() -> None:
            if cut is None:
                r.feed_data(stream)
            else:
                r.feed_data(stream[:cut])
                await asyncio.sleep(0.002)
                r.feed_data(stream[cut:])
            r.feed_eof()
        t = asyncio.ensure_future(feeder())
        for _ in range(2):
            try:
                hdr, payload = await asyncio.wait_for(conn._read_frame(), 0.5)
                out.append(f"{hdr.PayloadType:#06x}/{hdr.PayloadLength}/"
                           f"{payload.pack().hex() if payload is not None else None}")
            except Exception as e:  # noqa: BLE001
                out.append(type(e).__name__)
        await t
        return out

    async def go() -> tuple[bool, str]:
        want = await decode(None)
        for cut in range(1, len(stream)):
            got = await decode(cut)
            if got != want:
                return True, (f"stream of two frames split after byte {cut}: frames {got}, "
                              f"unsegmented: {want}")
        return False, "all single splits decode like the unsegmented stream"
    return asyncio.run(go())


class FakeWriter:
    def __init__(self) -> None:
        self.data = b""
        self.closed = False
        self.closing = False  # set by a scenario: the peer reset the connection

    def is_closing(self) -> bool:
        return self.closed or self.closing

    def write(self, b: bytes) -> None:
        self.data += b

    async def drain(self) -> None:
        pass

    def close(self) -> None:
        self.closed = True

    async def wait_closed(self) -> None:
        pass

    def get_extra_info(self, *a: Any) -> Any:
        return None


def frame(d: Any, ptype: int, payload: bytes) -> bytes:
    return d.GenericHeader(3, ptype, len(payload)).pack() + payload


def native_queue_scenarios(obligation: str) -> tuple[bool, str]:
    d = D()

    async def go() -> tuple[bool, str]:
        r = asyncio.StreamReader()
        w = FakeWriter()
        conn = d.DoIPConnection(r, w, 0x0E00, 0x1234, 3)  # type: ignore
        d1 = frame(d, 0x8001, bytes.fromhex("12340e00") + b"\x50\x01")
        ack = frame(d, 0x8002, bytes.fromhex("12340e0000"))
        d2 = frame(d, 0x8001, bytes.fromhex("12340e00") + b"\x50\x02")
        if "cancel-safe" in obligation:
            r.feed_data(d1)
            try:
                await asyncio.wait_for(conn._read_ack(b"\x10\x01"), 0.05)
            except TimeoutError:
                pass
            try:
                got = await asyncio.wait_for(conn.read_diag_request(), 0.05)
                res = (False, f"frame survived: {got.hex()}")
            except TimeoutError:
                res = (True, "a diagnostic message dequeued while waiting for an ack is lost "
                             "when that wait times out (stream: [D1]; then read -> timeout)")
        else:
            r.feed_data(d1 + ack + d2)
            await asyncio.sleep(0.01)
            await conn._read_ack(b"\x10\x01")
            a = await conn.read_diag_request()
            b = await conn.read_diag_request()
            res = (a + b != b"\x50\x01\x50\x02", f"stream [D1, ACK, D2]: reads deliver "
                                                 f"{a.hex()}, {b.hex()}")
        await conn.close()
        return res
    return asyncio.run(go())


def native_alive_deadlock() -> tuple[bool, str]:
    d = D()

    async def go() -> tuple[bool, str]:
        r = asyncio.StreamReader()
        w = FakeWriter()
        conn = d.DoIPConnection(r, w, 0x0E00, 0x1234, 3)  # type: ignore
        reader = asyncio.create_task(conn.read_diag_request())  # client blocked in a read
        await asyncio.sleep(0.01)
        r.feed_data(frame(d, 0x0007, b""))
        await asyncio.sleep(0.6)  # alive-check time is 500 ms
        answered = bytes([3, 0xFC, 0, 8]) in w.data
        reader.cancel()
        await conn.close()
        return (not answered, f"client blocked in read, AliveCheckRequest arrives: bytes written "
                              f"after 600 ms = {w.data.hex() or '(none)'}")
    return asyncio.run(go())


def native_search(unit: str, obligation: str, seed: int) -> dict | None:
    return {}


TRUSTED = [
    "pyvc VC generator; z3 5.1.0",
    "asyncio.StreamReader.readexactly(n): next n bytes of the stream regardless of segmentation, "
    "or IncompleteReadError at EOF; StreamWriter.write/drain/close/wait_closed",
    "asyncio.Queue (FIFO), asyncio.Lock, asyncio.wait_for (cancels the awaitable after t and "
    "raises TimeoutError)",
    "ISO 13400-2 frame layouts as written in the harness",
]


def main(tier: str, seed: int, only: str | None = None, jobs: int = 16) -> int:
    chk = Check("C06", "contracts.c06", tier, seed)
    units = build_units(tier)
    if only:
        units = [u for u in units if only in u.uid]
    results = run_units(units, jobs)
    chk.trusted_base = TRUSTED
    chk.assumptions = [
        "proved-partial: per-function obligations; the interleaving of the reader task and the "
        "client task is replaced by lock / wait-level obligations (sufficient conditions)",
        "real-time bounds only as 'the wait carries the protocol deadline'",
        "separate_diagnostic_message_queue mode: only the reader-task part",
    ]
    return chk.finish(results, native_replay, native_search)
