"""C11 - every exchange is recorded once, in order and byte-exact, in the scan database.

Functions under contract:
  * `ECU._request`: on every exit of `super()._request` (return | ResponseException | other
    Exception | CancelledError) exactly one `insert_scan_result` call happens iff implicit
    logging is on and a handler is present; its arguments are the state before `update_state`,
    the response (or the one carried by the ResponseException), the exception, send/receive
    times and the mode (emphasized iff "ANALYZE" is among the tags).
  * `DBHandler.insert_scan_result`, per request class and per response class: never raises
    (every public attribute is JSON-serialisable after the bytes->hex conversion), enqueues
    exactly one tuple whose request/response columns are the *complete* hex form of the PDUs.
Trusted: asyncio.Queue (FIFO, put never blocks), json.dumps on JSON-serialisable values, sqlite.
"""
from __future__ import annotations

import json
from datetime import datetime
from typing import Any

import z3

from pyvc import models, strings
from pyvc.engine import Explorer, Interp, PyExc, VCoro
from pyvc.runner import Check, Unit, run_units
from pyvc.values import (NONE, Unsupported, V, VBool, VBytes, VConst, VDict, VFloat, VInt, VList,
                         VObj, VStr, VTuple, wrap)

from . import codec_spec as cs
from . import iso14229 as iso
from . import utils_contracts as uc
from .c01 import alternatives as req_alternatives
from .c01 import request_classes, service_module
from .c02 import alternatives as resp_alternatives
from .c02 import make_dict_arg, response_classes
from .c15 import Stub, coro


def jsonable(I: Interp, v: V) -> str | None:
    """None if json.dumps accepts the value, else the reason it raises TypeError."""
    if isinstance(v, (VInt, VBool, VFloat, VStr)) or v is NONE:
        return None
    if isinstance(v, VBytes):
        return "bytes object"
    if isinstance(v, (VList, VTuple)):
        if isinstance(v, VList) and v.items is None:
            el = v.at(z3.Int(I.fresh_name("jk")))
            return jsonable(I, el)
        for x in v.items:
            r = jsonable(I, x)
            if r:
                return r
        return None
    if isinstance(v, VDict):
        for k, x in v.items:
            if not isinstance(k, (VStr, VInt, VBool, VFloat)) and k is not NONE:
                return "dict key"
            r = jsonable(I, x)
            if r:
                return r
        return None
    return f"{type(v).__name__} value"


def install_db(ex: Explorer) -> None:
    uc.install(ex)

    def dumps(I: Interp, args: list[V], kwargs: dict[str, V]) -> V:
        why = jsonable(I, args[0])
        if why:
            I.raise_py(TypeError, f"Object of type {why} is not JSON serializable")
        return VStr()
    models.MODELS[json.dumps] = dumps
    ex.stubs[("time", "timestamp")] = lambda I, r, a, k: VFloat(z3.Real(I.fresh_name("ts")))
    ex.stubs[("time", "tzname")] = lambda I, r, a, k: VStr()

    def put(I: Interp, recv: V, args: list[V], kwargs: dict[str, V]) -> V:
        I.ghost.setdefault("puts", []).append(args[0])
        return coro(lambda: NONE)
    ex.stubs[("queue", "put")] = put


def hex_of(I: Interp, b: VBytes) -> Any:
    c = b.concrete()
    if c is not None:
        return z3.StringVal(c.hex())
    return strings.hex_term(I, b.t)


def insert_harness(kind: str, cname: str, cls: type, alts: dict[str, str], dict_size: int = 0):
    """insert_scan_result with a request (kind='request') or a response of class cname."""
    S = service_module()
    C = __import__("gallia.services.uds.core.constants", fromlist=["x"])

    def harness(I: Interp) -> None:
        import gallia.command  # noqa: F401
        from gallia.db import handler as H
        params = cs.param_alternatives(cls)
        args: list[V] = []
        for name, kinds, default in params:
            k = alts[name]
            if k.startswith("dict_"):
                args.append(make_dict_arg(I, name, k, dict_size))
            else:
                args.append(cs.make_arg(I, name, k, C))
        try:
            obj = I.call(cls, *args)
            pdu = I.getattr_v(obj, "pdu")
        except PyExc:
            return
        assert isinstance(pdu, VBytes)
        I.assume(models.seq_len(pdu.t) >= 1)
        if kind == "request":
            req, resp = obj, NONE
        else:
            req = VObj(S.RawRequest, {"_pdu": I.fresh_bytes("reqpdu", minlen=1)})
            resp = obj
            obj.fields.setdefault("trigger_request", req)
        h = VObj(H.DBHandler, {"connection": VObj(Stub, {}, lazy=True, tag="conn"),
                               "_execute_queue": VObj(Stub, {}, lazy=True, tag="queue"),
                               "scan_run": VInt(1)})
        state = VDict([(VStr("session"), I.fresh_int("session")),
                       (VStr("security_access_level"), NONE)])
        t1 = VObj(Stub, {}, lazy=True, tag="time")
        # ECU._request passes receive_time=None together with the reply when the reply raised a
        # ResponseException (mismatching / malformed): the reply bytes are logged all the same
        no_recv = kind == "response" and I.choose([z3.BoolVal(True)] * 2) == 1
        t2: V = NONE if no_recv else VObj(Stub, {}, lazy=True, tag="time")
        mode = VConst(H.LogMode.implicit)
        I.ghost["puts"] = []
        try:
            I.await_v(I.call_v(I.getattr_v(h, "insert_scan_result"),
                               [state, req, resp, NONE, t1, t2, mode], {}))
        except PyExc as e:
            msg = e.exc.fields.get("args")
            I.fail("I-insert_scan_result-never-raises",
                   f"{cname}: {e.exc.cls.__name__} {msg.items[0].s if msg and msg.items else ''}")
            return
        puts = I.ghost["puts"]
        I.prove("I-exactly-one-row-enqueued", z3.BoolVal(len(puts) == 1))
        if len(puts) != 1:
            return
        tup = puts[0]
        ok = isinstance(tup, VTuple) and len(tup.items) == 2 and isinstance(tup.items[1], VTuple) \
            and len(tup.items[1].items) == 12
        I.prove("I-row-has-12-columns", z3.BoolVal(ok))
        if not ok:
            return
        cols = tup.items[1].items
        rq = cols[2]
        want_rq = hex_of(I, pdu if kind == "request" else req.fields["_pdu"])
        I.prove("I-request-column-is-the-complete-hex-pdu",
                models.str_term(rq) == want_rq if isinstance(rq, VStr) and
                (rq.t is not None or rq.s is not None) else z3.BoolVal(False))
        if kind == "response":
            rs = cols[6]
            I.prove("I-response-column-is-the-complete-hex-pdu",
                    models.str_term(rs) == hex_of(I, pdu) if isinstance(rs, VStr) and
                    (rs.t is not None or rs.s is not None) else z3.BoolVal(False))
            I.prove("I-response-time-present-iff-a-receive-time-was-taken",
                    z3.BoolVal((cols[7] is not NONE) == (not no_recv)))
        else:
            I.prove("I-no-response-columns-without-response",
                    z3.BoolVal(cols[6] is NONE and cols[7] is NONE and cols[9] is NONE))
        I.prove("I-exception-column-null-without-exception", z3.BoolVal(cols[10] is NONE))
    return harness


# --------------------------------------------------------------------------- writer task
def writer_harness(I: Interp) -> None:
    """`DBHandler._executor_func`, Hoare rule on its `while True` loop (one arbitrary row):
    `disconnect()` relies on `Queue.join()`, i.e. on the unfinished-task count; a row may be
    reported done (`task_done`) only when it is in the database (execute + commit returned) or
    back in the queue *already* (a synchronous put, which raises the count before task_done
    lowers it) - otherwise join() returns while a row is neither stored nor queued and the row
    is lost at shutdown."""
    import asyncio
    import aiosqlite
    import gallia.command  # noqa: F401
    from gallia.db import handler as H
    from pyvc import loops as L
    log: list[tuple[str, Any]] = []
    item = {"v": None}

    def qget(I2: Interp, recv: V, args: list[V], kwargs: dict[str, V]) -> V:
        def go() -> V:
            if I2.choose([z3.BoolVal(True)] * 2) == 1:
                raise PyExc(VObj(asyncio.CancelledError, {"args": VTuple([])}))
            q = VStr(t=z3.String(I2.fresh_name("query")))
            p = VTuple([VObj(Stub, {}, lazy=True, tag=f"col{i}") for i in range(12)])
            item["v"] = (q, p)
            log.append(("get", None))
            return VTuple([q, p])
        return coro(go)
    I.ex.stubs[("queue", "get")] = qget

    def db_op(name: str):
        def c(I2: Interp, recv: V, args: list[V], kwargs: dict[str, V]) -> V:
            def go() -> V:
                if I2.choose([z3.BoolVal(True)] * 2) == 1:
                    log.append((name + "-failed", None))
                    raise PyExc(VObj(aiosqlite.OperationalError, {"args": VTuple([])}))
                log.append((name, tuple(args)))
                return NONE
            return coro(go)
        return c
    I.ex.stubs[("conn", "execute")] = db_op("execute")
    I.ex.stubs[("conn", "commit")] = db_op("commit")

    def put_back(I2: Interp, recv: V, args: list[V], kwargs: dict[str, V]) -> V:
        log.append(("put", args[0]))
        return coro(lambda: NONE)
    I.ex.stubs[("queue", "put")] = put_back
    I.ex.stubs[("queue", "put_nowait")] = lambda I2, r, a, k: (log.append(("put", a[0])), NONE)[1]
    I.ex.stubs[("queue", "task_done")] = lambda I2, r, a, k: (
        log.append(("task_done", None)), NONE)[1]
    # a deferred callback does nothing *now*
    models.MODELS[asyncio.get_running_loop] = lambda I2, a, k: VObj(Stub, {}, lazy=True, tag="loop")
    models.MODELS[asyncio.get_event_loop] = models.MODELS[asyncio.get_running_loop]
    I.ex.stubs[("loop", "call_later")] = lambda I2, r, a, k: (log.append(("deferred", a)), NONE)[1]
    I.ex.stubs[("loop", "call_soon")] = I.ex.stubs[("loop", "call_later")]
    h = VObj(H.DBHandler, {"connection": VObj(Stub, {}, lazy=True, tag="conn"),
                           "_execute_queue": VObj(Stub, {}, lazy=True, tag="queue")},
             lazy=True, tag="handler")

    def havoc(I2: Interp, fr: Frame) -> None:
        log.clear()
        for nme in ("query", "query_parameter"):
            fr.env.pop(nme, None)
            fr.poison.add(nme)

    def inv(I2: Interp, fr: Frame) -> list[tuple[str, Any]]:
        if I2.ghost["__loop_phase"] != "preserved":
            return []
        names = [n for n, _ in log]
        out = [("one-row-taken-one-row-reported-done",
                z3.BoolVal(names.count("get") == 1 and names.count("task_done") == 1))]
        if "task_done" in names:
            before = log[:names.index("task_done")]
            q, p = item["v"]
            stored = any(n == "execute" and a and a[0] is q and a[1] is p for n, a in before) \
                and any(n == "commit" for n, _ in before)
            requeued = any(n == "put" and isinstance(a, VTuple) and a.items[0] is q
                           and a.items[1] is p for n, a in before)
            out.append(("a-row-is-reported-done-only-when-it-is-stored-or-back-in-the-queue",
                        z3.BoolVal(stored or requeued)))
            out.append(("a-stored-row-is-not-queued-again", z3.BoolVal(not (stored and requeued))))
        return out
    I.ex.loop_contracts[("DBHandler._executor_func", 0)] = L.LoopContract(havoc, inv)
    try:
        I.await_v(I.call_v(I.getattr_v(h, "_executor_func"), [], {}))
    except PyExc as e:
        I.fail("X-writer-task-ends-quietly-when-cancelled", e.exc.cls.__name__)
    # precondition of the trusted contract "Queue.put never suspends" that ECU._request's finally
    # block relies on (a put that can suspend can be cancelled, losing the row of an exchange that
    # has already happened): the execute queue is constructed unbounded
    import ast
    import inspect
    import textwrap
    n_q = 0
    for name, fn in vars(H.DBHandler).items():
        if not inspect.isfunction(fn):
            continue
        for n in ast.walk(ast.parse(textwrap.dedent(inspect.getsource(fn)))):
            if isinstance(n, ast.Call) and ast.unparse(n.func) in ("asyncio.Queue", "Queue"):
                n_q += 1
                bounded = bool(n.args) or any(k.arg == "maxsize" for k in n.keywords)
                I.prove(f"Q-execute-queue-is-unbounded(put-never-suspends):{name}",
                        z3.BoolVal(not bounded), ast.unparse(n))
    I.prove("Q-queue-construction-found", z3.BoolVal(n_q >= 1))


# --------------------------------------------------------------------------- ECU._request
OUTCOMES = ["return", "response-exception", "other-exception", "cancelled", "illegal-response"]


def ecu_harness(logging_on: bool, db: bool, tags: str):
    def harness(I: Interp) -> None:
        import asyncio
        import gallia.command  # noqa: F401  (import order: resolves the handler/command cycle)
        from gallia.services.uds import ecu as E
        from gallia.services.uds.core import client as C
        from gallia.services.uds.core import exception as X
        S = service_module()
        from gallia.db.handler import LogMode
        models.MODELS[datetime.now] = lambda I2, a, k: VObj(Stub, {}, lazy=True, tag="time")
        I.ex.stubs[("time", "astimezone")] = lambda I2, r, a, k: VObj(
            Stub, {"seq": VInt(len(I2.ghost.setdefault("clock", [])) +
                               (I2.ghost["clock"].append(1) or 0))}, lazy=True, tag="time")
        rows: list[tuple] = []

        def insert(I2: Interp, recv: V, args: list[V], kwargs: dict[str, V]) -> V:
            def go() -> V:
                rows.append(tuple(args))
                I2.ghost["state_updates_at_insert"] = I2.ghost.get("state_updates", 0)
                return NONE
            return coro(go)
        I.ex.stubs[("db", "insert_scan_result")] = insert
        resp = VObj(S.RawPositiveResponse, {"_pdu": I.fresh_bytes("resp", minlen=1)})
        eresp = VObj(S.NegativeResponse, {"request_service_id": VInt(0x10),
                                          "response_code": VInt(0x31)})
        request = VObj(S.RawRequest, {"_pdu": I.fresh_bytes("req", minlen=1)})

        def super_request(I2: Interp, self_: V, rq: V, config: V = NONE) -> V:
            def go() -> V:
                k = I2.choose([z3.BoolVal(True)] * 5)
                I2.ghost["outcome"] = OUTCOMES[k]
                if k == 0:
                    return resp
                if k == 4:
                    # a reply that was read but does not belong to the request (stale / foreign):
                    # it is logged, and the replaying server will see it - so must the client
                    e = VObj(X.RequestResponseMismatch, {"request": rq, "response": eresp,
                                                         "args": VTuple([])})
                    I2.ghost["exc"] = e
                    raise PyExc(e)
                if k == 1:
                    e = VObj(X.UnexpectedResponse, {"request": rq, "response": eresp,
                                                    "args": VTuple([])})
                    I2.ghost["exc"] = e
                    raise PyExc(e)
                if k == 2:
                    e = VObj(X.MissingResponse, {"request": rq, "args": VTuple([])})
                    I2.ghost["exc"] = e
                    raise PyExc(e)
                e = VObj(asyncio.CancelledError, {"args": VTuple([])})
                I2.ghost["exc"] = e
                raise PyExc(e)
            return coro(go)
        I.ex.contracts[C.UDSClient._request] = super_request

        def upd(I2: Interp, self_: V, rq: V, rs: V) -> V:
            def go() -> V:
                I2.ghost["state_updates"] = I2.ghost.get("state_updates", 0) + 1
                I2.ghost["updated_with"] = rs
                return NONE
            return coro(go)
        I.ex.contracts[E.ECU.update_state] = upd
        I.ex.contracts[S.UDSRequest.__dict__["parse_dynamic"].__func__] = \
            lambda I2, pdu: VObj(S.RawRequest, {"_pdu": pdu})
        tagv: V = NONE
        if tags == "analyze":
            tagv = VList([VStr("ANALYZE")])
        elif tags == "other":
            tagv = VList([VStr("x")])
        config: V = NONE if tags == "noconfig" else VObj(
            C.UDSRequestConfig, {"tags": tagv, "timeout": NONE, "max_retry": NONE,
                                 "skip_hooks": VBool(False)})
        state = VObj(E.ECUState, {"session": I.fresh_int("session"),
                                  "security_access_level": NONE})
        ecu = VObj(E.ECU, {"implicit_logging": VBool(logging_on),
                           "db_handler": VObj(Stub, {}, lazy=True, tag="db") if db else NONE,
                           "state": state})
        I.ghost["state_updates"] = 0
        raised = None
        try:
            r = I.await_v(I.call_v(I.getattr_v(ecu, "_request"), [request, config], {}))
        except PyExc as e:
            raised = e.exc
        out = I.ghost["outcome"]
        want_rows = 1 if (logging_on and db) else 0
        I.prove(f"E-rows-per-exchange({out})", z3.BoolVal(len(rows) == want_rows))
        if out == "return":
            I.prove("E-return-value-is-the-response", z3.BoolVal(raised is None and r is resp))
        else:
            I.prove(f"E-exception-propagates({out})", z3.BoolVal(raised is I.ghost.get("exc")))
        if len(rows) == 1:
            st, rq, rs, ex_, t_send, t_recv, mode = rows[0]
            I.prove("E-row-state-is-the-state-before-the-request",
                    z3.BoolVal(I.ghost["state_updates_at_insert"] == 0
                               and isinstance(st, VDict) and
                               any(k.s == "session" and v is state.fields["session"]
                                   for k, v in st.items)))
            I.prove("E-row-request-is-parse_dynamic(request.pdu)",
                    z3.BoolVal(isinstance(rq, VObj) and rq.fields.get("_pdu") is
                               request.fields["_pdu"]))
            exp_resp = {"return": resp, "response-exception": eresp,
                        "illegal-response": eresp}.get(out, NONE)
            I.prove(f"E-row-response({out})", z3.BoolVal(rs is exp_resp))
            I.prove(f"E-row-exception({out})", z3.BoolVal(
                ex_ is (NONE if out == "return" else I.ghost.get("exc")) or
                (out == "cancelled")))
            I.prove("E-row-send-time-before-receive-time", z3.BoolVal(
                isinstance(t_send, VObj) and (t_recv is NONE or
                                              t_send.fields["seq"].concrete() <
                                              t_recv.fields["seq"].concrete())))
            I.prove("E-row-receive-time-iff-returned", z3.BoolVal((t_recv is not NONE) ==
                                                                  (out == "return")))
            I.prove("E-row-mode", z3.BoolVal(isinstance(mode, VConst) and mode.py is (
                LogMode.emphasized if tags == "analyze" else LogMode.implicit)))
        want_upd = 1 if out in ("return", "response-exception", "illegal-response") else 0
        I.prove(f"E-state-updated-from-the-response({out})",
                z3.BoolVal(I.ghost["state_updates"] == want_upd))
    return harness


def scanner_setup_harness(I: Interp) -> None:
    """`UDSScanner.setup` with a database handler: whenever a request can leave through
    `self.ecu`, the ECU object's implicit-logging switch equals the scanner's (a scanner that
    sets `implicit_logging = False` in its constructor - before the ECU object exists - gets
    nothing recorded, from the first request on).  Assumes `insert_scan_run` succeeds."""
    import gallia.command.base as B
    import gallia.command.uds as U
    wanted = I.fresh_bool("scanner_implicit_logging", inp=True)
    calls: list[tuple[str, V]] = []
    ecu = VObj(Stub, {"implicit_logging": VBool(True), "db_handler": NONE}, lazy=True,
               tag="ecu")

    def ecu_factory(*a: Any, **k: Any) -> None:  # stands for the class load_ecu returns
        return None
    # load_ecu(oem)(transport, ...) -> the ECU object (implicit_logging defaults to True)
    models.MODELS[U.load_ecu] = lambda I2, a, k: VConst(ecu_factory)
    models.MODELS[ecu_factory] = lambda I2, a, k: ecu
    for meth in ("ecu_reset", "set_session", "wait_for_ecu", "connect",
                 "start_cyclic_tester_present", "properties"):
        def sent(I2: Interp, r: V, a: list[V], k: dict[str, V], meth: str = meth) -> V:
            calls.append((meth, ecu.fields["implicit_logging"]))
            if meth == "properties":
                return coro(lambda: VObj(Stub, {}, lazy=True, tag="props"))
            if meth in ("ecu_reset", "set_session"):
                return coro(lambda: VObj(Stub, {}, lazy=True, tag="resp"))
            return coro(lambda: NONE)
        I.ex.stubs[("ecu", meth)] = sent
    I.ex.stubs[("props", "to_json")] = lambda I2, r, a, k: VStr()
    I.ex.stubs[("db", "insert_scan_run")] = lambda I2, r, a, k: coro(lambda: NONE)
    I.ex.stubs[("db", "insert_scan_run_properties_pre")] = lambda I2, r, a, k: coro(lambda: NONE)
    I.ex.contracts[B.Scanner.setup] = lambda I2, self_: coro(lambda: NONE)
    models.MODELS[U.raise_for_error] = lambda I2, a, k: NONE
    cfg = VObj(Stub, {}, lazy=True, tag="config")
    I.ex.stub_attrs[("config", "ecu_reset")] = lambda I2, o: (
        NONE if I2.choose([z3.BoolVal(True)] * 2) == 0 else VInt(1))
    for name in ("ping", "tester_present", "properties"):
        I.ex.stub_attrs[("config", name)] = lambda I2, o, name=name: VBool(
            I2.choose([z3.BoolVal(True)] * 2) == 1)
    for name in ("oem", "timeout", "max_retries", "tester_present_interval"):
        I.ex.stub_attrs[("config", name)] = lambda I2, o: VInt(1)
    I.ex.stub_attrs[("config", "target")] = lambda I2, o: VObj(Stub, {"raw": VStr()}, lazy=True,
                                                               tag="target")
    obj = VObj(U.UDSScanner, {"db_handler": VObj(Stub, {}, lazy=True, tag="db"),
                              "transport": VObj(Stub, {}, lazy=True, tag="transport"),
                              "power_supply": NONE, "config": cfg, "artifacts_dir": NONE,
                              "_implicit_logging": wanted})
    try:
        I.await_v(I.call_v(I.getattr_v(obj, "setup"), [], {}))
    except PyExc as e:
        I.fail("S-setup-does-not-raise-with-a-cooperative-environment", e.exc.cls.__name__)
        return
    for i, (meth, flag) in enumerate(calls):
        I.prove(f"S-ecu.implicit_logging-is-the-scanner's-setting-when-ecu.{meth}-runs",
                flag.t == wanted.t if isinstance(flag, VBool) else z3.BoolVal(False))
    fin = ecu.fields["implicit_logging"]
    I.prove("S-ecu.implicit_logging-is-the-scanner's-setting-after-setup",
            fin.t == wanted.t if isinstance(fin, VBool) else z3.BoolVal(False))
    I.prove("S-ecu-logs-to-the-scanner's-handler",
            z3.BoolVal(ecu.fields.get("db_handler") is obj.fields["db_handler"]))


def setter_harness(I: Interp) -> None:
    """The `implicit_logging` setter reaches the ECU object at once when a handler is present."""
    import gallia.command.uds as U
    ecu = VObj(Stub, {"implicit_logging": VBool(True)}, lazy=True, tag="ecu")
    obj = VObj(U.UDSScanner, {"db_handler": VObj(Stub, {}, lazy=True, tag="db"), "ecu": ecu,
                              "_implicit_logging": VBool(True)})
    v = I.fresh_bool("value", inp=True)
    I.setattr_v(obj, "implicit_logging", v)
    I.prove("S-setter-updates-the-scanner", obj.fields["_implicit_logging"].t == v.t)
    I.prove("S-setter-reaches-the-ecu-object", ecu.fields["implicit_logging"].t == v.t)


def build_units(tier: str) -> list[Unit]:
    units: list[Unit] = [Unit("writer/_executor_func", writer_harness),
                         Unit("scanner/UDSScanner.setup", scanner_setup_harness),
                         Unit("scanner/implicit_logging.setter", setter_harness)]
    for lg in (True, False):
        for db in (True, False):
            for tags in ("noconfig", "notags", "analyze", "other"):
                units.append(Unit(f"ECU._request/logging={int(lg)},db={int(db)},tags={tags}",
                                  ecu_harness(lg, db, tags), setup=install_db))
    for cname, cls in request_classes().items():
        if cname in iso.INTERNAL_REQUEST_BASES or cname not in iso.REQUESTS:
            continue
        for alts in req_alternatives(cls):
            if "none" in alts.values():
                continue
            tag = ",".join(f"{k}={v}" for k, v in alts.items())
            units.append(Unit(f"insert/request/{cname}/{tag}",
                              insert_harness("request", cname, cls, alts), setup=install_db,
                              allow_empty=True))
    for cname, cls in response_classes().items():
        if cname in iso.INTERNAL_RESPONSE_BASES or cname not in iso.RESPONSES:
            continue
        for alts in resp_alternatives(cls):
            if "none" in alts.values():
                continue
            if alts.get("dtc_and_status_record") == "bytes":
                continue
            tag = ",".join(f"{k}={v}" for k, v in alts.items())
            dsz = 1 if any(v.startswith("dict_") for v in alts.values()) else 0
            units.append(Unit(f"insert/response/{cname}/{tag}",
                              insert_harness("response", cname, cls, alts, dsz),
                              setup=install_db, allow_empty=True,
                              bounded="dict argument with 1 entry" if dsz else ""))
    return units


def native_ecu_request() -> tuple[bool, str]:
    """A scripted exchange history through the real ECU._request with a handler that records, at
    the moment of each insert_scan_result call, what it is given: one row per request, in order,
    with the client state *before* the request, the reply bytes (or None) and the exception."""
    import asyncio
    import json as _json
    import logging
    logging.disable(logging.CRITICAL)
    import gallia.command  # noqa: F401
    from gallia.services.uds import ecu as E
    from gallia.services.uds.core import service as S
    from gallia.transports.base import BaseTransport
    script = [("1003", "5003003201f4"), ("2701", "6701aabb"), ("2702aabb", "6702"),
              ("22f190", None), ("22f190", "62f18a00"), ("1101", "5101"), ("3e00", "7e00")]
    rows: list[dict] = []

    class T(BaseTransport, scheme="c11-script"):
        def __init__(self) -> None:
            self.mutex = asyncio.Lock()
            self.is_closed = False
            self.pending: list[bytes | None] = []

        @classmethod
        async def connect(cls, target: Any, timeout: float | None = None) -> Any:
            return cls()

        async def close(self) -> None:
            pass

        async def write(self, data: bytes, timeout: float | None = None, tags: Any = None) -> int:
            self.pending.append(dict(script_map).get(data.hex()))
            return len(data)

        async def read(self, timeout: float | None = None, tags: Any = None) -> bytes:
            r = self.pending.pop(0) if self.pending else None
            if r is None:
                raise TimeoutError
            return bytes.fromhex(r)
    script_map = [(q, r) for q, r in script]

    class DB:
        async def insert_scan_result(self, state: Any, request: Any, response: Any,
                                     exception: Any, send_time: Any, receive_time: Any,
                                     mode: Any) -> None:
            rows.append({"state": _json.loads(_json.dumps(state)), "request": request.pdu.hex(),
                         "response": None if response is None else response.pdu.hex(),
                         "exception": None if exception is None else type(exception).__name__})

        async def get_session_transition(self, level: int) -> None:
            return None

    async def go() -> list[dict]:
        t = T()
        # the second 22f190 gets a mismatching reply: serve replies in script order
        replies = [r for _, r in script]

        async def write(data: bytes, timeout: float | None = None, tags: Any = None) -> int:
            t.pending.append(replies.pop(0) if replies else None)
            return len(data)
        t.write = write  # type: ignore[method-assign]
        e = E.ECU(t, timeout=0.05, max_retry=0)
        e.db_handler = DB()  # type: ignore[assignment]
        want_states = []
        for q, _ in script:
            want_states.append(_json.loads(_json.dumps(e.state.__dict__)))
            try:
                await e._request(S.UDSRequest.parse_dynamic(bytes.fromhex(q)))
            except Exception:  # noqa: BLE001
                pass
        return want_states
    want_states = asyncio.run(go())
    problems = []
    if len(rows) != len(script):
        problems.append(f"{len(rows)} rows for {len(script)} requests")
    for i, ((q, r), row) in enumerate(zip(script, rows)):
        if row["request"] != q:
            problems.append(f"row {i}: request {row['request']} instead of {q}")
        if row["response"] != r:
            problems.append(f"row {i} ({q}): reply {row['response']} recorded, {r} received")
        if row["state"] != want_states[i]:
            problems.append(f"row {i} ({q}): state {row['state']} recorded, the client state "
                            f"before the request was {want_states[i]}")
    return bool(problems), "; ".join(problems[:3]) or f"{len(rows)} rows match the history"


def native_scanner_setup() -> tuple[bool, str]:
    """A real UDSScanner that switches implicit logging off in its constructor, run through
    entry_point() with a database and an in-memory transport, for the option combinations of
    setup (properties / ping): nothing may be recorded."""
    import asyncio
    import logging
    import shutil
    import sqlite3
    import tempfile
    from pathlib import Path
    logging.disable(logging.CRITICAL)
    import gallia.command  # noqa: F401
    import gallia.plugins.plugin as plugin
    from gallia.command.uds import UDSScanner, UDSScannerConfig
    from gallia.transports.base import BaseTransport

    class Fake(BaseTransport, scheme="tcp-lines"):
        def __init__(self, target: Any) -> None:
            self.mutex = asyncio.Lock()
            self.target = target
            self.is_closed = False
            self.pending: list[bytes] = []

        @classmethod
        async def connect(cls, target: Any, timeout: float | None = None) -> Any:
            return cls(target)

        async def close(self) -> None:
            self.is_closed = True

        async def write(self, data: bytes, timeout: float | None = None, tags: Any = None) -> int:
            self.pending.append(bytes([data[0] + 0x40]) + data[1:3])
            return len(data)

        async def read(self, timeout: float | None = None, tags: Any = None) -> bytes:
            if not self.pending:
                raise TimeoutError
            return self.pending.pop(0)

    class Quiet(UDSScanner):  # type: ignore[misc]
        CONFIG_TYPE = UDSScannerConfig

        def __init__(self, config: Any) -> None:
            super().__init__(config)
            self.implicit_logging = False

        async def main(self) -> None:
            await self.ecu.tester_present(False)
            await self.ecu.read_data_by_identifier(0xF190)
    orig = plugin.load_transport
    plugin.load_transport = lambda target: Fake  # type: ignore[assignment]
    tmp = Path(tempfile.mkdtemp(prefix="c11s_"))
    bad = None
    try:
        for props in (False, True):
            for ping in (False, True):
                db = tmp / f"p{int(props)}{int(ping)}.sqlite"
                cfg = UDSScannerConfig(target="tcp-lines://127.0.0.1:1", db=db, properties=props,
                                       ping=ping, tester_present=False, dumpcap=False,
                                       artifacts_base=tmp / "art")
                try:
                    asyncio.run(Quiet(cfg).entry_point())
                except BaseException as e:  # noqa: BLE001
                    bad = f"properties={props} ping={ping}: entry_point raised {type(e).__name__}"
                    break
                con = sqlite3.connect(db)
                n = con.execute("select count(*) from scan_result").fetchone()[0]
                con.close()
                if n:
                    bad = (f"a scanner with implicit logging switched off recorded {n} exchanges "
                           f"(properties={props}, ping={ping})")
                    break
            if bad:
                break
    finally:
        plugin.load_transport = orig  # type: ignore[assignment]
        shutil.rmtree(tmp, ignore_errors=True)
    return bad is not None, bad or "nothing is recorded while implicit logging is off"


def native_replay(unit: str, obligation: str, model: dict) -> tuple[bool, str]:
    """Insert a long request / the offending response class into a real sqlite database and read
    the row back."""
    if unit.startswith("writer/"):
        return native_writer_shutdown()
    if unit.startswith("ECU._request/"):
        return native_ecu_request()
    if unit.startswith("scanner/"):
        return native_scanner_setup()
    import asyncio
    import logging
    import os
    import sqlite3
    import tempfile
    logging.disable(logging.CRITICAL)
    import gallia.command  # noqa: F401
    from gallia.db.handler import DBHandler, LogMode
    S = service_module()
    if not unit.startswith(("insert/", "store/")):
        return False, "no native scenario for this obligation"
    tmp = tempfile.mkdtemp(prefix="c11_")
    path = os.path.join(tmp, "x.sqlite")
    long_req = S.WriteDataByIdentifierRequest(0x1234, bytes(range(20)))
    resp: Any = S.ReadDataByIdentifierResponse(0x1234, bytes(range(0x40, 0x58)))  # > 10 bytes
    if "ReportDTCExtDataRecordByDTCNumberResponse" in unit:
        resp = S.ReportDTCExtDataRecordByDTCNumberResponse((0x123456, 1), {1: b"\x01\x02"})

    async def go() -> Any:
        from pathlib import Path
        from gallia.command.config import GalliaBaseModel  # noqa: F401
        h = DBHandler(Path(path))
        await h.connect()
        from gallia.command.config import GalliaBaseModel as GBM
        await h.insert_run_meta(script="x", config=GBM(), start_time=datetime.now().astimezone(),
                                path=None)
        await h.insert_scan_run("c11://replay")
        await h.insert_scan_result({"session": 1}, long_req, resp, None,
                                   datetime.now().astimezone(), datetime.now().astimezone(),
                                   LogMode.implicit)
        # a reply the client flagged as mismatching: logged without receive time
        await h.insert_scan_result({"session": 1}, long_req, resp, None,
                                   datetime.now().astimezone(), None, LogMode.implicit)
        await h.disconnect()
    err = None
    try:
        asyncio.run(go())
    except Exception as e:  # noqa: BLE001
        err = f"{type(e).__name__}: {e}"
    rows = []
    try:
        con = sqlite3.connect(path)
        rows = con.execute("select request_pdu, response_pdu from scan_result").fetchall()
        con.close()
    except Exception as e:  # noqa: BLE001
        err = (err or "") + f" / {e}"
    import shutil
    shutil.rmtree(tmp, ignore_errors=True)
    want = long_req.pdu.hex()
    bad = err is not None or len(rows) != 2 or any(r[0] != want for r in rows)
    if "response-column" in obligation:
        bad = err is not None or len(rows) != 2 or any(r[1] != resp.pdu.hex() for r in rows)
        return bad, (f"rows (request, reply) {rows} for the reply {resp.pdu.hex()} logged with "
                     f"and without a receive time (error: {err})")
    return bad, f"stored row {rows} for request {want} (error: {err})"


def native_writer_shutdown() -> tuple[bool, str]:
    """three exchanges; the database is locked by another connection while the third row is
    written and while disconnect() runs; the lock goes away 1 s later: all three rows must be
    in the file"""
    import asyncio
    import logging
    import os
    import shutil
    import sqlite3
    import tempfile
    from pathlib import Path
    logging.disable(logging.CRITICAL)
    import gallia.command  # noqa: F401
    from gallia.command.config import GalliaBaseModel as GBM
    from gallia.db.handler import DBHandler, LogMode
    S = service_module()
    tmp = tempfile.mkdtemp(prefix="c11w_")
    path = os.path.join(tmp, "w.sqlite")

    async def go() -> None:
        h = DBHandler(Path(path))
        await h.connect()
        await h.insert_run_meta(script="x", config=GBM(), start_time=datetime.now().astimezone(),
                                path=None)
        await h.insert_scan_run("c11://writer")
        assert h.connection is not None
        await h.connection.execute("PRAGMA busy_timeout = 50")

        async def row(i: int) -> None:
            await h.insert_scan_result({"session": 1}, S.RawRequest(bytes([0x22, 0, i])),
                                       S.RawPositiveResponse(bytes([0x62, 0, i])), None,
                                       datetime.now().astimezone(), datetime.now().astimezone(),
                                       LogMode.implicit)
        await row(1)
        await row(2)
        await asyncio.sleep(0.2)
        other = sqlite3.connect(path, timeout=0.05, isolation_level=None)
        other.execute("BEGIN IMMEDIATE")
        await row(3)
        await asyncio.sleep(0.2)
        asyncio.get_running_loop().call_later(1.0, lambda: (other.execute("ROLLBACK"),
                                                            other.close()))
        await asyncio.wait_for(h.disconnect(), 10)
    err = None
    try:
        asyncio.run(go())
    except Exception as e:  # noqa: BLE001
        err = f"{type(e).__name__}: {e}"
    n = -1
    try:
        con = sqlite3.connect(path)
        n = con.execute("select count(*) from scan_result").fetchone()[0]
        con.close()
    except Exception as e:  # noqa: BLE001
        err = (err or "") + f" / {e}"
    shutil.rmtree(tmp, ignore_errors=True)
    return n != 3, (f"{n} of 3 exchanges are in the database after disconnect() (the database was "
                    f"locked by another connection for 1 s around the shutdown; error: {err})")


def native_search(unit: str, obligation: str, seed: int) -> dict | None:
    return {}


TRUSTED = [
    "pyvc VC generator; z3 5.1.0",
    "json.dumps accepts exactly None/bool/int/float/str and lists/tuples/dicts (str|int keys) of "
    "those; binascii.hexlify contract; asyncio.Queue.put (FIFO, unbounded)",
    "sqlite / aiosqlite effects of the executor task",
]


def main(tier: str, seed: int, only: str | None = None, jobs: int = 16) -> int:
    chk = Check("C11", "contracts.c11", tier, seed)
    units = build_units(tier)
    if only:
        units = [u for u in units if only in u.uid]
    results = run_units(units, jobs)
    chk.trusted_base = TRUSTED
    chk.assumptions = [
        "transmission order = order of insert_scan_result calls: Queue FIFO (trusted) and one "
        "exchange at a time under the client mutex (C05)",
        "writer task / disconnect sequencing (join before cancel) is read off the source, not "
        "proved: sqlite effects are outside the verifier's reach",
    ]
    return chk.finish(results, native_replay, native_search)
