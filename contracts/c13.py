"""C13 - the virtual ECU answers by the ISO 14229-1 default response rules.

The model `supported_services` is an *uninterpreted* map: a symbolic number of sessions
SESS(0..n-1), predicates SVC(session, service) and SUB(session, service, sub-function).  The nine
behaviour switches are symbolic booleans, the server state is symbolic, the request is any object
of the request lattice (raw bytes, or a typed request built by its real constructor).
Functions under contract (real AST): every `default_response_if_*`, `_is_sub_function_service`
(verified against a table for all 256 ids), `respond_without_state_change` (priority chain),
`respond`, `update_state`, `default_response_if_suppress`.
The loop of `default_response_if_sub_function_not_supported` carries a sidecar invariant with
quantifiers over the visited prefix of sessions.
"""
from __future__ import annotations

from typing import Any

import z3

from pyvc import loops, models
from pyvc.engine import Explorer, Frame, Interp, PyExc, VCoro
from pyvc.runner import Check, Unit, run_units
from pyvc.values import (NONE, Unsupported, V, VBool, VBytes, VConst, VDict, VInt, VList, VObj,
                         VStr, VSymMap, VTuple)

from . import codec_spec as cs
from . import utils_contracts as uc
from .c15 import Stub, coro

SESS = z3.Function("SESS", z3.IntSort(), z3.IntSort())
SVC = z3.Function("SVC", z3.IntSort(), z3.IntSort(), z3.BoolSort())
SUB = z3.Function("SUB", z3.IntSort(), z3.IntSort(), z3.IntSort(), z3.BoolSort())
IDX = z3.Function("IDX", z3.IntSort(), z3.IntSort())
NSESS = z3.Int("n_sessions")

BEHAVIOURS = ["default_response_if_service_not_supported",
              "default_response_if_missing_sub_function",
              "default_response_if_sub_function_not_supported",
              "default_response_if_incorrect_format", "default_response_if_session_change",
              "default_response_if_session_read", "default_response_if_tester_present",
              "default_response_if_none", "default_response_if_suppress"]

NRC_SNS, NRC_SNSIAS, NRC_SFNS, NRC_SFNSIAS, NRC_IMLOIF, NRC_GR = 0x11, 0x7F, 0x12, 0x7E, 0x13, 0x10


def server_module() -> Any:
    import gallia.command  # noqa: F401
    from gallia.services.uds import server
    return server


def issub_table() -> set[int]:
    """Service ids that carry a sub-function, by reflection over the service registry (the same
    data the real `_is_sub_function_service` consults)."""
    from gallia.services.uds.core import service as S
    out = set()
    for sid, svc in S.UDSService._SERVICES.items():
        if sid is None:
            continue
        if issubclass(svc, S.SpecializedSubFunctionService) or (
                svc.Request is not None and issubclass(svc.Request, S.SubFunctionRequest)):
            out.add(int(sid))
    return out


def ISSUB(sid: Any) -> Any:
    t = sorted(issub_table())
    return z3.Or(*[sid == k for k in t])


def in_dom(I: Interp, s: Any) -> Any:
    """session s is a key of the model; witness index IDX(s)."""
    e = z3.Bool(I.fresh_name("indom"))
    I.assume(z3.Implies(e, z3.And(IDX(s) >= 0, IDX(s) < NSESS, SESS(IDX(s)) == s)))
    I.note_index(IDX(s))
    I.lambda_axioms_add(lambda j: z3.Implies(z3.And(z3.Not(e), j >= 0, j < NSESS), SESS(j) != s))
    return e


def exists_session(I: Interp, pred: Any) -> Any:
    return loops.exists_fn(I, NSESS, lambda j: pred(SESS(j)))


def mk_model(I: Interp) -> VSymMap:
    I.assume(NSESS >= 1)

    def inner(sess: V) -> V:
        s = sess.t

        def sublist(sid: V) -> V:
            x = sid.t
            return VList(None, z3.Int(I.fresh_name("nsub")), lambda j: VInt(z3.Int("unused")),
                         member=lambda v: SUB(s, x, models.as_int(I, v)))
        return VSymMap(z3.Int(I.fresh_name("nsvc")), lambda j: VInt(z3.Int("unused")),
                       lambda k: SVC(s, models.as_int(I, k)), sublist, "services-of-session")
    return VSymMap(NSESS, lambda j: VInt(SESS(j)), lambda k: in_dom(I, models.as_int(I, k)),
                   inner, "supported_services")


class ModelServer:
    """Concrete subclass used only to obtain an instantiable class object."""


def mk_server(I: Interp, behaviours: dict[str, Any]) -> tuple[VObj, VObj]:
    SV = server_module()
    from gallia.services.uds.ecu import ECUState
    state = VObj(ECUState, {"session": I.fresh_int("cur_session", inp=True),
                            "security_access_level": NONE})
    beh = VObj(Stub, {k: VBool(v) for k, v in behaviours.items()}, lazy=True, tag="behavior")
    srv = VObj(SV.UDSServer, {"state": state, "behavior": beh,
                              "supported_services": mk_model(I)})
    return srv, state


def install(ex: Explorer) -> None:
    SV = server_module()
    uc.install(ex)

    def is_sub(I: Interp, self_: V, service_id: V) -> V:
        return VBool(ISSUB(models.as_int(I, service_id)))
    ex.contracts[SV.UDSServer._is_sub_function_service] = is_sub
    ex.loop_contracts[("UDSServer.default_response_if_sub_function_not_supported", 0)] = \
        loops.LoopContract(havoc_subfn, inv_subfn)


def _sf_terms(I: Interp, fr: Frame) -> tuple[Any, Any, Any]:
    req = fr.env["request"]
    sid = models.as_int(I, I.getattr_v(req, "service_id"))
    self_ = fr.env["self"]
    cur = self_.fields["state"].fields["session"].t
    return sid, cur, I.ghost["sf"]


def havoc_subfn(I: Interp, fr: Frame) -> None:
    fr.env["supported_in_active_session"] = I.fresh_bool("act")
    fr.env["supported_in_other_session"] = I.fresh_bool("oth")
    # only what the loop itself assigns is unknown after an arbitrary number of iterations
    for n in I.ghost.get("__loop_assigned", set()) - {"supported_in_active_session",
                                                       "supported_in_other_session"}:
        fr.env.pop(n, None)
        fr.poison.add(n)


def inv_subfn(I: Interp, fr: Frame) -> list[tuple[str, Any]]:
    sid, cur, sf = _sf_terms(I, fr)
    k = fr.env["__k0"].t
    act = I.truth(fr.env["supported_in_active_session"])
    oth = I.truth(fr.env["supported_in_other_session"])
    act = z3.BoolVal(act) if isinstance(act, bool) else act
    oth = z3.BoolVal(oth) if isinstance(oth, bool) else oth
    hit = lambda s: z3.And(SVC(s, sid), SUB(s, sid, sf))  # noqa: E731
    seen_other = loops.exists_fn(I, k, lambda j: z3.And(SESS(j) != cur, hit(SESS(j))))
    seen_cur = loops.exists_fn(I, k, lambda j: z3.And(SESS(j) == cur, hit(SESS(j))))
    return [("not-yet-found-in-the-active-session", z3.Not(act)),
            ("other-session-flag-is-exists-over-the-visited-prefix", oth == seen_other),
            ("active-session-not-among-the-visited-hits", z3.Not(seen_cur))]


# --------------------------------------------------------------------------- specification
def spec_reply(I: Interp, b: dict[str, Any], kind: str, req: VObj, pdu: VBytes, cur: Any,
               after_default: Any) -> tuple[str, Any]:
    """(kind of expected reply, payload) by the statement's priority chain; forks with
    I.branch on the spec conditions."""
    sid = models.as_int(I, I.getattr_v(req, "service_id"))
    ln = models.seq_len(pdu.t)
    if b[BEHAVIOURS[0]] and I.branch(z3.Not(SVC(cur, sid))):
        anywhere = exists_session(I, lambda s: SVC(s, sid))
        return "neg", z3.If(anywhere, NRC_SNSIAS, NRC_SNS)
    if b[BEHAVIOURS[1]] and I.branch(z3.And(ISSUB(sid), ln < 2)):
        return "neg", z3.IntVal(NRC_IMLOIF)
    if b[BEHAVIOURS[2]] and I.branch(z3.And(ISSUB(sid), sid != 0x31)):
        if I.branch(ln < 2):
            return "unspecified", None  # no sub-function byte and rule 2 switched off
        sf = pdu.t[1] % 0x80
        I.assume(z3.And(pdu.t[1] >= 0, pdu.t[1] <= 255))
        if I.branch(z3.Not(z3.And(SVC(cur, sid), SUB(cur, sid, sf)))):
            other = exists_session(I, lambda s: z3.And(s != cur, SVC(s, sid), SUB(s, sid, sf)))
            return "neg", z3.If(other, NRC_SFNSIAS, NRC_SFNS)
    if b[BEHAVIOURS[3]] and kind == "raw":
        return "neg", z3.IntVal(NRC_IMLOIF)
    if b[BEHAVIOURS[4]] and kind == "dsc":
        return "dsc", req.fields["diagnostic_session_type"].t
    if b[BEHAVIOURS[5]] and kind == "rdbi" and I.branch(
            I.getattr_v(req, "data_identifier").t == 0xF186):
        return "session-read", cur
    if b[BEHAVIOURS[6]] and kind == "tp":
        return "tp", None
    if after_default is not NONE:
        return "after-default", after_default
    if b[BEHAVIOURS[7]]:
        return "neg", z3.IntVal(NRC_GR)
    return "none", None


def mk_request(I: Interp, kind: str) -> tuple[VObj, VBytes]:
    from gallia.services.uds.core import service as S
    if kind == "raw":
        pdu = I.fresh_bytes("request", inp=True, minlen=1)
        I.assume(z3.And(pdu.t[0] >= 0, pdu.t[0] <= 255))
        return VObj(S.RawRequest, {"_pdu": pdu}), pdu
    if kind == "dsc":
        q = I.call(S.DiagnosticSessionControlRequest, I.fresh_int("dst", inp=True),
                   I.fresh_bool("suppress", inp=True))
    elif kind == "rdbi":
        q = I.call(S.ReadDataByIdentifierRequest, I.fresh_int("did", inp=True))
    elif kind.startswith("rdbi-list"):
        # several identifiers in one request (2 or 3)
        n = int(kind[-1])
        q = I.call(S.ReadDataByIdentifierRequest,
                   VList([I.fresh_int(f"did{j}", inp=True) for j in range(n)]))
    elif kind == "tp":
        q = I.call(S.TesterPresentRequest, I.fresh_bool("suppress", inp=True))
    elif kind == "reset":
        q = I.call(S.ECUResetRequest, I.fresh_int("rt", inp=True),
                   I.fresh_bool("suppress", inp=True))
    elif kind == "routine":
        q = I.call(S.StartRoutineRequest, I.fresh_int("rid", inp=True), I.fresh_bytes("rec"),
                   I.fresh_bool("suppress", inp=True))
    else:
        q = I.call(S.WriteDataByIdentifierRequest, I.fresh_int("did", inp=True),
                   I.fresh_bytes("rec", inp=True))
    p = I.getattr_v(q, "pdu")
    return q, p


def chain_harness(kind: str, off: tuple[int, ...]):
    """respond_without_state_change for one request kind with the switches in `off` disabled
    (the empty tuple = default behaviours)."""
    subset = 1 if off else 0

    def harness(I: Interp) -> None:
        SV = server_module()
        from gallia.services.uds.core import service as S
        b: dict[str, Any] = {k: (i not in off) for i, k in enumerate(BEHAVIOURS)}
        srv, state = mk_server(I, b)
        cur = state.fields["session"].t
        I.assume(in_dom(I, cur))  # the server is in a session it offers (C14 keeps it there)
        I.assume(z3.And(cur >= 0, cur <= 0x7F))  # sessions are diagnosticSessionType values
        try:
            req, pdu = mk_request(I, kind)
        except PyExc:
            return
        # abstract service-specific handler
        ad_kind = I.choose([z3.BoolVal(True)] * 2)
        ad: V = NONE if ad_kind == 0 else VObj(S.RawPositiveResponse,
                                               {"_pdu": I.fresh_bytes("handler_reply", minlen=1)})
        I.ex.contracts[SV.UDSServer.respond_after_default] = \
            lambda I2, self_, rq: coro(lambda: ad)
        I.ghost["sf"] = (pdu.t[1] % 0x80)
        try:
            r = I.await_v(I.call_v(I.getattr_v(srv, "respond_without_state_change"), [req], {}))
            raised = None
        except PyExc as e:
            r, raised = None, e.exc
        want, payload = spec_reply(I, b, kind, req, pdu, cur, ad)
        tag = "all-switches-on" if subset == 0 else "off:" + "+".join(
            BEHAVIOURS[i][len("default_response_if_"):] for i in off)
        if want == "unspecified":
            I.prove(f"R-no-crash-when-a-rule-is-switched-off({tag})", z3.BoolVal(raised is None),
                    f"raised {raised.cls.__name__ if raised else None}: sub-function service "
                    f"without sub-function byte while the missing-sub-function rule is off")
            return
        if raised is not None:
            I.fail(f"R-rule-chain-does-not-raise({tag})", raised.cls.__name__)
            return
        sid = models.as_int(I, I.getattr_v(req, "service_id"))
        if want == "neg":
            ok = isinstance(r, VObj) and r.cls is S.NegativeResponse
            I.prove(f"R-negative-reply-expected({tag})", z3.BoolVal(ok), f"got {r!r}"[:80])
            if ok:
                I.prove(f"R-response-code-by-priority-chain({tag})",
                        r.fields["response_code"].t == payload)
                I.prove(f"R-negative-reply-names-the-service({tag})",
                        r.fields["request_service_id"].t == sid)
        elif want == "dsc":
            ok = isinstance(r, VObj) and r.cls is S.DiagnosticSessionControlResponse
            I.prove(f"R-session-change-answered-positively({tag})", z3.BoolVal(ok))
            if ok:
                I.prove(f"R-session-change-echoes-the-session({tag})",
                        r.fields["diagnostic_session_type"].t == payload)
        elif want == "session-read":
            ok = isinstance(r, VObj) and r.cls is S.ReadDataByIdentifierResponse
            I.prove(f"R-session-read-answered({tag})", z3.BoolVal(ok))
            if ok:
                rec = I.getattr_v(r, "data_record")
                I.prove(f"R-session-read-reports-the-active-session({tag})",
                        z3.And(models.seq_len(rec.t) == 1, rec.t[0] == payload))
        elif want == "tp":
            I.prove(f"R-tester-present-answered({tag})",
                    z3.BoolVal(isinstance(r, VObj) and r.cls is S.TesterPresentResponse))
        elif want == "after-default":
            I.prove(f"R-service-handler-reply-passed-on({tag})", z3.BoolVal(r is payload))
        else:
            I.prove(f"R-silence-only-when-nothing-applies({tag})", z3.BoolVal(r is NONE))
    return harness


def respond_harness(I: Interp) -> None:
    """respond(): state update from the unsuppressed reply, then suppression."""
    SV = server_module()
    from gallia.services.uds.core import service as S
    b = {k: True for k in BEHAVIOURS}
    b["default_response_if_suppress"] = I.choose([z3.BoolVal(True)] * 2) == 0
    srv, state = mk_server(I, b)
    lvl0 = I.choose([z3.BoolVal(True)] * 2)
    if lvl0:
        state.fields["security_access_level"] = I.fresh_int("level0")
    s0, l0 = state.fields["session"], state.fields["security_access_level"]
    kinds = ["none", "negative", "dsc", "sa-odd", "sa-even", "reset", "other-positive"]
    k = kinds[I.choose([z3.BoolVal(True)] * len(kinds))]
    reply: V = NONE
    if k == "negative":
        reply = VObj(S.NegativeResponse, {"request_service_id": VInt(0x10),
                                          "response_code": VInt(0x31)})
    elif k == "dsc":
        reply = I.call(S.DiagnosticSessionControlResponse, I.fresh_int("newsess", 0, 0x7F))
    elif k in ("sa-odd", "sa-even"):
        t = I.fresh_int("satype", 0, 0x7F)
        I.assume(t.t % 2 == (1 if k == "sa-odd" else 0))
        reply = I.call(S.SecurityAccessResponse, t, I.fresh_bytes("seed"))
    elif k == "reset":
        reply = I.call(S.ECUResetResponse, I.fresh_int("rt", 0, 0x7F))
    elif k == "other-positive":
        reply = VObj(S.RawPositiveResponse, {"_pdu": I.fresh_bytes("pos", minlen=1)})
    I.ex.contracts[SV.UDSServer.respond_without_state_change] = \
        lambda I2, self_, rq: coro(lambda: reply)
    rq_kind = I.choose([z3.BoolVal(True)] * 2)
    sup = I.fresh_bool("suppress", inp=True)
    if rq_kind == 0:
        req = I.call(S.ECUResetRequest, I.fresh_int("q_rt", 0, 0x7F), sup)
        is_subfn = True
    else:
        req = I.call(S.WriteDataByIdentifierRequest, I.fresh_int("q_did", 0, 0xFFFF),
                     I.fresh_bytes("q_rec", minlen=1))
        is_subfn = False
    try:
        out = I.await_v(I.call_v(I.getattr_v(srv, "respond"), [req], {}))
    except PyExc as e:
        I.fail("S-respond-does-not-raise", e.exc.cls.__name__)
        return
    s1, l1 = state.fields["session"], state.fields["security_access_level"]
    # state transitions exactly on the positive replies ISO defines
    if k == "dsc":
        I.prove("S-session-change-on-positive-DSC",
                z3.And(s1.t == reply.fields["diagnostic_session_type"].t,
                       z3.BoolVal(l1 is NONE)))
    elif k == "reset":
        I.prove("S-reset-to-default-on-positive-ECUReset",
                z3.And(s1.t == 1, z3.BoolVal(l1 is NONE)))
    elif k == "sa-even":
        I.prove("S-security-level-on-positive-SendKey",
                z3.And(z3.BoolVal(isinstance(l1, VInt)),
                       l1.t == reply.fields["security_access_type"].t - 1
                       if isinstance(l1, VInt) else z3.BoolVal(False), s1.t == s0.t))
    else:
        same_l = (l1 is l0) if (l0 is NONE or l1 is NONE) else None
        I.prove(f"S-state-unchanged({k})",
                z3.And(s1.t == s0.t, z3.BoolVal(same_l) if same_l is not None
                       else l1.t == l0.t))
    # suppression
    positive = k in ("dsc", "sa-odd", "sa-even", "reset", "other-positive")
    if k == "none":
        I.prove("S-no-reply-stays-no-reply", z3.BoolVal(out is NONE))
    elif not positive:
        I.prove("S-negative-replies-are-never-suppressed", z3.BoolVal(out is reply))
    else:
        st = I.truth(sup)
        st = z3.BoolVal(st) if isinstance(st, bool) else st
        if is_subfn and b["default_response_if_suppress"]:
            if out is NONE:
                I.prove("S-positive-reply-suppressed-only-with-the-suppress-bit", st)
            else:
                I.prove("S-positive-reply-delivered-without-the-suppress-bit",
                        z3.And(z3.Not(st), z3.BoolVal(out is reply)))
        else:
            I.prove("S-no-suppression-without-sub-function-or-with-the-rule-off",
                    z3.BoolVal(out is reply))


def issub_harness(I: Interp) -> None:
    """`_is_sub_function_service` against the reflected table, for every service id."""
    SV = server_module()
    table = issub_table()
    srv = VObj(SV.UDSServer, {})
    for sid in range(256):
        try:
            r = I.call_py(SV.UDSServer._is_sub_function_service, [srv, VInt(sid)], {},
                          SV.UDSServer)
        except PyExc as e:
            # every byte is a possible service id of a request: the rules must answer, not raise
            I.fail(f"T-is-sub-function-service({sid:#04x})-does-not-raise", e.exc.cls.__name__)
            continue
        t = I.truth(r)
        I.prove(f"T-is-sub-function-service({sid:#04x})",
                z3.BoolVal(t == (sid in table)) if isinstance(t, bool) else t == (sid in table))
    # the ISO list of services with a sub-function parameter that gallia implements
    iso = {0x10, 0x11, 0x27, 0x28, 0x3E, 0x85, 0x19, 0x2C, 0x31}
    I.prove("T-table-equals-the-ISO-sub-function-services", z3.BoolVal(table == iso),
            f"{sorted(map(hex, table))}")


def build_units(tier: str) -> list[Unit]:
    units = [Unit("table/_is_sub_function_service", issub_harness)]
    for kind in ("raw", "dsc", "rdbi", "tp", "reset", "routine", "wdbi"):
        import itertools
        subsets: list[tuple[int, ...]] = [()] + [(i,) for i in range(8)]
        if tier != "quick":
            subsets += list(itertools.combinations(range(8), 2))
        for off in subsets:
            name = "all-on" if not off else "off=" + ",".join(map(str, off))
            units.append(Unit(f"chain/{kind}/{name}", chain_harness(kind, off), setup=install,
                              max_paths=20000))
    units.append(Unit("respond/state-and-suppression", respond_harness, setup=uc.install))
    # which requests count as "unparsable" (raw) is decided by UDSRequest.parse_dynamic: its
    # contract - every byte string parses to an object that keeps exactly these bytes, so bytes
    # no typed request encodes stay raw and get the format rule - is discharged here as well
    # (units shared with C01/C14)
    from . import c01
    for u in c01.build_units(tier)[0]:
        if u.uid.startswith("parse-total/"):
            units.append(u)
    return units


SUBFUNC_SERVICES = {0x10, 0x11, 0x19, 0x27, 0x28, 0x2C, 0x31, 0x3E, 0x85}
RULES = ["default_response_if_service_not_supported", "default_response_if_missing_sub_function",
         "default_response_if_sub_function_not_supported", "default_response_if_incorrect_format",
         "default_response_if_session_change", "default_response_if_session_read",
         "default_response_if_tester_present"]


def reference_reply(M: dict, cur: int, on: dict[str, bool], pdu: bytes, parsable: bool
                    ) -> tuple[str, Any] | None:
    """What the statement's priority chain implies for a request (None: no default rule
    applies, the handler / the none-rule decides).  M: session -> {service id -> sub-function
    list | None}."""
    sid = pdu[0]
    in_cur = sid in M.get(cur, {})
    if on[RULES[0]] and not in_cur:
        anywhere = any(sid in svcs for svcs in M.values())
        return ("neg", 0x7F if anywhere else 0x11)
    issub = sid in SUBFUNC_SERVICES
    if on[RULES[1]] and issub and len(pdu) < 2:
        return ("neg", 0x13)
    if on[RULES[2]] and issub and sid != 0x31 and len(pdu) >= 2:
        sf = pdu[1] & 0x7F
        subs = lambda s: (M.get(s, {}).get(sid) or [])  # noqa: E731
        if sf not in subs(cur):
            other = any(sf in subs(s) for s in M if s != cur)
            return ("neg", 0x7E if other else 0x12)
    if on[RULES[3]] and not parsable:
        return ("neg", 0x13)
    if on[RULES[4]] and sid == 0x10 and parsable and len(pdu) == 2:
        return ("session-change", pdu[1] & 0x7F)
    if on[RULES[5]] and pdu == bytes.fromhex("22f186"):
        return ("session-read", cur)
    if on[RULES[6]] and sid == 0x3E and parsable and len(pdu) == 2 and pdu[1] & 0x7F == 0:
        return ("tester-present", None)
    return None


def native_rules(seeds: range = range(1, 5)) -> tuple[bool, str]:
    """The real RandomUDSServer against the reference above: every request of a small family, in
    every session of the model, with all rules on and with each rule switched off; plus the
    state effects of suppressed positive replies."""
    import asyncio
    import logging
    logging.disable(logging.CRITICAL)
    SV = server_module()
    from gallia.services.uds.core import service as S

    async def go() -> tuple[bool, str]:
        for seed in seeds:
            srv = SV.RandomUDSServer(seed)
            await srv.setup()
            M = {int(s): {int(k): (list(v) if v is not None else None) for k, v in svcs.items()}
                 for s, svcs in srv.services.items()}
            sids = sorted({k for svcs in M.values() for k in svcs} | {0x00, 0x23, 0x84, 0xBA})
            reqs = []
            for sid in sids:
                reqs.append(bytes([sid]))
                for b in (0x00, 0x01, 0x02, 0x03, 0x81, 0x83, 0x7F, 0xC1):
                    reqs.append(bytes([sid, b]))
                    reqs.append(bytes([sid, b, 0x00]))
            reqs.append(bytes.fromhex("22f186"))
            configs = [dict.fromkeys(RULES, True)] + [
                {**dict.fromkeys(RULES, True), r: False} for r in RULES]
            for on in configs:
                for name, val in on.items():
                    setattr(srv.behavior, name, val)
                for cur in sorted(M):
                    for raw in reqs:
                        srv.state.reset()
                        srv.state.session = cur
                        q = S.UDSRequest.parse_dynamic(raw)
                        parsable = not isinstance(q, S.RawRequest)
                        want = reference_reply(M, cur, on, raw, parsable)
                        if want is None:
                            continue
                        try:
                            r = await srv.respond_without_state_change(q)
                        except Exception as e:  # noqa: BLE001
                            if raw == bytes([raw[0]]) and not on[RULES[1]]:
                                continue  # one-byte request with rule 2 off: unspecified
                            return True, (f"seed {seed}, session {cur:#x}, rules off "
                                          f"{[k for k, v in on.items() if not v]}: request "
                                          f"{raw.hex()} raised {type(e).__name__}")
                        got: tuple[str, Any]
                        if isinstance(r, S.NegativeResponse):
                            got = ("neg", int(r.response_code))
                        elif isinstance(r, S.DiagnosticSessionControlResponse):
                            got = ("session-change", r.diagnostic_session_type)
                        elif isinstance(r, S.ReadDataByIdentifierResponse) and raw.hex() == "22f186":
                            got = ("session-read", r.data_record[0])
                        elif isinstance(r, S.TesterPresentResponse):
                            got = ("tester-present", None)
                        else:
                            got = ("other", type(r).__name__)
                        if want[0] == "session-change" and got[0] == "neg":
                            continue  # target session not offered: decided by rule 3 / handler
                        if got != want:
                            return True, (f"RandomUDSServer(seed={seed}), session {cur:#x}, "
                                          f"rules off {[k for k, v in on.items() if not v]}: "
                                          f"request {raw.hex()} -> {got}, the rule chain of the "
                                          f"statement gives {want}")
            # state effects of suppressed positive replies
            for name in RULES:
                setattr(srv.behavior, name, True)
            srv.behavior.default_response_if_suppress = True
            for cur in sorted(M):
                for tgt in (M[cur].get(0x10) or []):
                    srv.state.reset()
                    srv.state.session = cur
                    r = await srv.respond(S.UDSRequest.parse_dynamic(bytes([0x10, 0x80 | tgt])))
                    if r is not None or srv.state.session != tgt:
                        return True, (f"seed {seed}: 10 {0x80 | tgt:02x} in session {cur:#x}: "
                                      f"reply {r!r}, session afterwards {srv.state.session:#x} "
                                      f"(expected no reply and session {tgt:#x})")
        return False, "the server follows the rule chain on the sampled models"
    return asyncio.run(go())


def native_replay(unit: str, obligation: str, model: dict) -> tuple[bool, str]:
    if unit.startswith("parse-total/"):
        from . import c01
        return c01.native_parse_total(unit, model)
    return native_rules()


def native_search(unit: str, obligation: str, seed: int) -> dict | None:
    return {}


TRUSTED = [
    "pyvc VC generator (Hoare rule with a quantified sidecar invariant; Skolem / instantiation "
    "scheme for exists over the visited prefix)",
    "z3 5.1.0",
    "model well-formedness: the server is in a session of the model; sub-function services "
    "carry a list of sub-functions (invariants C14 shows randomize establishes)",
]


def main(tier: str, seed: int, only: str | None = None, jobs: int = 16) -> int:
    chk = Check("C13", "contracts.c13", tier, seed)
    units = build_units(tier)
    if only:
        units = [u for u in units if only in u.uid]
    results = run_units(units, jobs)
    chk.trusted_base = TRUSTED
    chk.assumptions = [
        "the model is an uninterpreted map (any number of sessions, services, sub-functions)",
        "respond_after_default is abstract here (returns None or some reply); RandomUDSServer's "
        "handlers are the subject of C14",
    ]
    return chk.finish(results, native_replay, native_search)
