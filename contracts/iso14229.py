"""ISO 14229-1 request/response layouts as a declarative table (the oracle of C01/C02/C03).

Transcribed from the standard's message tables, *not* from service.py: per class the byte
fields in wire order and the attribute each field is read from.  `layout`, `in_range` and the
symbolic argument generators are derived from this table; no code is shared with gallia.

Field kinds
    subfn(a[,parity])   7-bit sub-function from attribute a (0..0x7F) + suppress bit (requests)
    subconst(v)         fixed sub-function v (+ suppress bit on requests)
    const8(v)           fixed byte
    u8(a) be16(a) be24(a)     unsigned big-endian integers
    nib2(hi, lo)        one byte, two 4-bit attributes
    alfid(a)            addressAndLengthFormatIdentifier: low nibble = address bytes (al),
                        high nibble = size bytes (sl), both 1..15
    lfid(a)             lengthFormatIdentifier of 0x74/0x75: high nibble = byte count, low nibble 0
    be_al(a) be_sl(a)   big-endian, width given by the alfid of the same message
    be_lf(a)            big-endian, width given by the lfid
    rec(a[,min])        byte record up to the end of the message
    opt16(a) / opt8(a)  optional trailing field (attribute None <=> absent)
    list16(a[,min])     repeated big-endian 16-bit items
    group([...][,min])  repeated group of fixed-width fields over parallel list attributes
"""
from __future__ import annotations

from typing import Any


def F(kind: str, attr: Any = None, **kw: Any) -> dict:
    d = {"kind": kind, "attr": attr}
    d.update(kw)
    return d


def subfn(a: str, parity: int | None = None) -> dict:
    return F("subfn", a, parity=parity)


def subconst(v: int) -> dict:
    return F("subconst", None, value=v)


def const8(v: int) -> dict:
    return F("const8", None, value=v)


def u8(a: str) -> dict:
    return F("u8", a)


def be16(a: str) -> dict:
    return F("be16", a)


def be24(a: str) -> dict:
    return F("be24", a)


def nib2(hi: str, lo: str) -> dict:
    return F("nib2", (hi, lo))


def alfid(a: str) -> dict:
    return F("alfid", a)


def lfid(a: str) -> dict:
    return F("lfid", a)


def be_al(a: str) -> dict:
    return F("be_al", a)


def be_sl(a: str) -> dict:
    return F("be_sl", a)


def be_lf(a: str) -> dict:
    return F("be_lf", a)


def rec(a: str, min: int = 0) -> dict:  # noqa: A002
    return F("rec", a, min=min)


def opt16(a: str) -> dict:
    return F("opt16", a)


def opt8(a: str) -> dict:
    return F("opt8", a)


def list16(a: str, min: int = 1) -> dict:  # noqa: A002
    return F("list16", a, min=min)


def group(fields: list[dict], min: int = 1) -> dict:  # noqa: A002
    return F("group", None, fields=fields, min=min)


def R(sid: int, sub: dict | None, fields: list[dict], **kw: Any) -> dict:
    d = {"sid": sid, "sub": sub, "fields": fields}
    d.update(kw)
    return d


_T0 = {"ReportNumberOfDTCByStatusMask": 0x01, "ReportDTCByStatusMask": 0x02,
       "ReportMirrorMemoryDTCByStatusMask": 0x0F, "ReportNumberOfMirrorMemoryDTCByStatusMask": 0x11,
       "ReportNumberOfEmissionsRelatedOBDDTCByStatusMask": 0x12,
       "ReportEmissionsRelatedOBDDTCByStatusMask": 0x13}
_T6 = {"ReportSupportedDTC": 0x0A, "ReportFirstTestFailedDTC": 0x0B,
       "ReportFirstConfirmedDTC": 0x0C, "ReportMostRecentFirstTestFailedDTC": 0x0D,
       "ReportMostRecentConfirmedDTC": 0x0E, "ReportDTCWithPermanentStatus": 0x15}

# ------------------------------------------------------------------------------- requests
REQUESTS: dict[str, dict] = {
    "RawRequest": {"raw": True},
    "DiagnosticSessionControlRequest": R(0x10, subfn("diagnostic_session_type"), []),
    "ECUResetRequest": R(0x11, subfn("reset_type"), []),
    "RequestSeedRequest": R(0x27, subfn("security_access_type", parity=1),
                            [rec("security_access_data_record")]),
    "SendKeyRequest": R(0x27, subfn("security_access_type", parity=0),
                        [rec("security_key", min=1)]),
    "CommunicationControlRequest": R(0x28, subfn("control_type"), [u8("communication_type")]),
    "TesterPresentRequest": R(0x3E, subconst(0x00), []),
    "ControlDTCSettingRequest": R(0x85, subfn("dtc_setting_type"),
                                  [rec("dtc_setting_control_option_record")]),
    "ReadDataByIdentifierRequest": R(0x22, None, [list16("data_identifiers", min=1)]),
    "ReadMemoryByAddressRequest": R(0x23, None, [alfid("address_and_length_format_identifier"),
                                                 be_al("memory_address"), be_sl("memory_size")]),
    "DefineByIdentifierRequest": R(0x2C, subconst(0x01), [
        be16("dynamically_defined_data_identifier"),
        group([be16("source_data_identifiers"), u8("positions_in_source_data_record"),
               u8("memory_sizes")], min=1)]),
    "DefineByMemoryAddressRequest": R(0x2C, subconst(0x02), [
        be16("dynamically_defined_data_identifier"),
        alfid("address_and_length_format_identifier"),
        group([be_al("memory_addresses"), be_sl("memory_sizes")], min=1)]),
    "ClearDynamicallyDefinedDataIdentifierRequest": R(0x2C, subconst(0x03), [
        opt16("dynamically_defined_data_identifier")]),
    "WriteDataByIdentifierRequest": R(0x2E, None, [be16("data_identifier"),
                                                   rec("data_record", min=1)]),
    "WriteMemoryByAddressRequest": R(0x3D, None, [alfid("address_and_length_format_identifier"),
                                                  be_al("memory_address"), be_sl("memory_size"),
                                                  rec("data_record", min=1)]),
    "ClearDiagnosticInformationRequest": R(0x14, None, [be24("group_of_dtc")]),
    "ReportDTCExtDataRecordByDTCNumberRequest": R(0x19, subconst(0x06), [
        be24("dtc_mask_record"), u8("dtc_ext_data_record_number")]),
    # 0x2F: the PDU carries no boundary between controlOptionRecord and controlEnableMaskRecord;
    # the service-level view is (dataIdentifier, optionRecord ++ maskRecord)
    "InputOutputControlByIdentifierRequest": R(0x2F, None, [
        be16("data_identifier"), rec("control_option_record", min=1),
        rec("control_enable_mask_record")], merge_tail=True),
    "ReturnControlToECURequest": R(0x2F, None, [
        be16("data_identifier"), rec("control_option_record", min=1),
        rec("control_enable_mask_record")], merge_tail=True, iocp=0x00, iocp_states=None),
    "ResetToDefaultRequest": R(0x2F, None, [
        be16("data_identifier"), rec("control_option_record", min=1),
        rec("control_enable_mask_record")], merge_tail=True, iocp=0x01, iocp_states=None),
    "FreezeCurrentStateRequest": R(0x2F, None, [
        be16("data_identifier"), rec("control_option_record", min=1),
        rec("control_enable_mask_record")], merge_tail=True, iocp=0x02, iocp_states=None),
    "ShortTermAdjustmentRequest": R(0x2F, None, [
        be16("data_identifier"), rec("control_option_record", min=1),
        rec("control_enable_mask_record")], merge_tail=True, iocp=0x03,
        iocp_states="control_states"),
    "StartRoutineRequest": R(0x31, subconst(0x01), [be16("routine_identifier"),
                                                    rec("routine_control_option_record")]),
    "StopRoutineRequest": R(0x31, subconst(0x02), [be16("routine_identifier"),
                                                   rec("routine_control_option_record")]),
    "RequestRoutineResultsRequest": R(0x31, subconst(0x03), [
        be16("routine_identifier"), rec("routine_control_option_record")]),
    "RequestDownloadRequest": R(0x34, None, [
        nib2("compression_method", "encryption_method"),
        alfid("address_and_length_format_identifier"), be_al("memory_address"),
        be_sl("memory_size")]),
    "RequestUploadRequest": R(0x35, None, [
        nib2("compression_method", "encryption_method"),
        alfid("address_and_length_format_identifier"), be_al("memory_address"),
        be_sl("memory_size")]),
    "TransferDataRequest": R(0x36, None, [u8("block_sequence_counter"),
                                          rec("transfer_request_parameter_record")]),
    "RequestTransferExitRequest": R(0x37, None, [rec("transfer_request_parameter_record")]),
}
for _n, _sf in _T0.items():
    REQUESTS[_n + "Request"] = R(0x19, subconst(_sf), [u8("dtc_status_mask")])
for _n, _sf in _T6.items():
    REQUESTS[_n + "Request"] = R(0x19, subconst(_sf), [])

# classes that exist in the module namespace but are internal bases (not reachable from the
# service registry, private or carrying the placeholder sub-function / service id)
INTERNAL_REQUEST_BASES = {
    "_ReadDTCType0Request": "private base of the six status-mask requests (placeholder "
                            "sub-function 0)",
    "_ReadDTCType6Request": "private base of the six mask-less requests (placeholder "
                            "sub-function 0)",
    "RoutineControlRequest": "base of the three routine requests; declared ABC, placeholder "
                             "sub-function 0 is not an ISO routineControlType",
    "_RequestUpOrDownloadRequest": "private base of RequestDownload/RequestUpload "
                                   "(service id None)",
}

# class the dynamic parser must produce for the PDU of an object of the keyed class
DYNAMIC_CLASS = {
    "ReturnControlToECURequest": "InputOutputControlByIdentifierRequest",
    "ResetToDefaultRequest": "InputOutputControlByIdentifierRequest",
    "FreezeCurrentStateRequest": "InputOutputControlByIdentifierRequest",
    "ShortTermAdjustmentRequest": "InputOutputControlByIdentifierRequest",
}

# ------------------------------------------------------------------------------- responses
_R0 = {"ReportNumberOfDTCByStatusMask": 0x01, "ReportNumberOfMirrorMemoryDTCByStatusMask": 0x11,
       "ReportNumberOfEmissionsRelatedOBDDTCByStatusMask": 0x12}
_R1 = {"ReportDTCByStatusMask": (0x02, None), "ReportMirrorMemoryDTCByStatusMask": (0x0F, None),
       "ReportEmissionsRelatedOBDDTCByStatusMask": (0x13, None),
       "ReportSupportedDTC": (0x0A, None), "ReportFirstTestFailedDTC": (0x0B, 1),
       "ReportFirstConfirmedDTC": (0x0C, 1), "ReportMostRecentTestFailedDTC": (0x0D, 1),
       "ReportMostrecentConfirmedDTC": (0x0E, 1), "ReportDTCWithPermanentStatus": (0x15, None)}

RESPONSES: dict[str, dict] = {
    "NegativeResponse": {"negative": True},
    "RawNegativeResponse": {"raw": True},
    "RawPositiveResponse": {"raw": True},
    "DiagnosticSessionControlResponse": R(0x10, subfn("diagnostic_session_type"),
                                          [rec("session_parameter_record")]),
    "ECUResetResponse": R(0x11, subfn("reset_type"), [opt8("power_down_time")]),
    "SecurityAccessResponse": R(0x27, subfn("security_access_type"), [rec("security_seed")]),
    "CommunicationControlResponse": R(0x28, subfn("control_type"), []),
    "TesterPresentResponse": R(0x3E, subconst(0x00), []),
    "ControlDTCSettingResponse": R(0x85, subfn("dtc_setting_type"), []),
    # several DID/record pairs cannot be separated without ECU knowledge: the decoded view is
    # (first DID, rest)
    "ReadDataByIdentifierResponse": R(0x22, None, [F("did_records", ("data_identifiers",
                                                                     "data_records"))]),
    "ReadMemoryByAddressResponse": R(0x23, None, [rec("data_record", min=1)]),
    "DefineByIdentifierResponse": R(0x2C, subconst(0x01),
                                    [be16("dynamically_defined_data_identifier")]),
    "DefineByMemoryAddressResponse": R(0x2C, subconst(0x02),
                                       [be16("dynamically_defined_data_identifier")]),
    "ClearDynamicallyDefinedDataIdentifierResponse": R(
        0x2C, subconst(0x03), [opt16("dynamically_defined_data_identifier")]),
    "WriteDataByIdentifierResponse": R(0x2E, None, [be16("data_identifier")]),
    "WriteMemoryByAddressResponse": R(0x3D, None, [
        alfid("address_and_length_format_identifier"), be_al("memory_address"),
        be_sl("memory_size")]),
    "ClearDiagnosticInformationResponse": R(0x14, None, []),
    "ReportDTCExtDataRecordByDTCNumberResponse": R(0x19, subconst(0x06), [
        F("dtc_status", "dtc_and_status_record"), F("ext_records", "dtc_ext_data_records")]),
    "InputOutputControlByIdentifierResponse": R(0x2F, None, [
        be16("data_identifier"), rec("control_status_record", min=1)]),
    "ReturnControlToECUResponse": R(0x2F, None, [
        be16("data_identifier"), rec("control_status_record", min=1)], iocp=0x00),
    "ResetToDefaultResponse": R(0x2F, None, [
        be16("data_identifier"), rec("control_status_record", min=1)], iocp=0x01),
    "FreezeCurrentStateResponse": R(0x2F, None, [
        be16("data_identifier"), rec("control_status_record", min=1)], iocp=0x02),
    "ShortTermAdjustmentResponse": R(0x2F, None, [
        be16("data_identifier"), rec("control_status_record", min=1)], iocp=0x03),
    "StartRoutineResponse": R(0x31, subconst(0x01), [be16("routine_identifier"),
                                                     rec("routine_status_record")]),
    "StopRoutineResponse": R(0x31, subconst(0x02), [be16("routine_identifier"),
                                                    rec("routine_status_record")]),
    "RequestRoutineResultsResponse": R(0x31, subconst(0x03), [be16("routine_identifier"),
                                                              rec("routine_status_record")]),
    "RequestDownloadResponse": R(0x34, None, [lfid("length_format_identifier"),
                                              be_lf("max_number_of_block_length")]),
    "RequestUploadResponse": R(0x35, None, [lfid("length_format_identifier"),
                                            be_lf("max_number_of_block_length")]),
    "TransferDataResponse": R(0x36, None, [u8("block_sequence_counter"),
                                           rec("transfer_response_parameter_record")]),
    "RequestTransferExitResponse": R(0x37, None, [rec("transfer_response_parameter_record")]),
}
for _n, _sf in _R0.items():
    RESPONSES[_n + "Response"] = R(0x19, subconst(_sf), [
        u8("dtc_status_availability_mask"), F("enum8", "dtc_format_identifier",
                                              enum="DTCFormatIdentifier"), be16("dtc_count")])
for _n, (_sf, _maxrec) in _R1.items():
    RESPONSES[_n + "Response"] = R(0x19, subconst(_sf), [
        u8("dtc_status_availability_mask"), F("dtc_dict", "dtc_and_status_record",
                                              max=_maxrec)])

INTERNAL_RESPONSE_BASES = {
    "_ReadDTCType0Response": "private base (placeholder sub-function 0)",
    "_ReadDTCType1Response": "private base (placeholder sub-function 0)",
    "_ReadDTCResponse": "private abstract base",
    "_DynamicallyDefineDataIdentifierResponse": "private base (placeholder sub-function 0)",
    "RoutineControlResponse": "base of the three routine responses (placeholder sub-function 0)",
    "_RequestUpOrDownloadResponse": "private base (service id None)",
}

# echoed part of a positive response, per service (C03 `echo`), as (request attr, response attr)
# pairs compared after parsing; taken from the statement of C03 / ISO message tables
ECHO: dict[int, list[tuple[str, str]]] = {
    0x10: [("diagnostic_session_type", "diagnostic_session_type")],
    0x11: [("reset_type", "reset_type")],
    0x27: [("security_access_type", "security_access_type")],
    0x28: [("control_type", "control_type")],
    0x3E: [],
    0x85: [("dtc_setting_type", "dtc_setting_type")],
    0x22: [("data_identifiers[0]", "data_identifiers[0]")],
    0x23: [("memory_size", "len(data_record)")],
    0x2C: [("sub_function", "sub_function")],
    0x2E: [("data_identifier", "data_identifier")],
    0x3D: [("address_and_length_format_identifier", "address_and_length_format_identifier"),
           ("memory_address", "memory_address"), ("memory_size", "memory_size")],
    0x14: [],
    0x19: [("sub_function", "sub_function")],
    0x2F: [("data_identifier", "data_identifier")],
    0x31: [("sub_function", "sub_function"), ("routine_identifier", "routine_identifier")],
    0x34: [],
    0x35: [],
    0x36: [("block_sequence_counter", "block_sequence_counter")],
    0x37: [],
}
