"""C12 - a database-backed virtual ECU replays the recorded ECU's answers (proved-partial).

  L1  state-tracking equivalence (relational lemma): for every response class and equal
      pre-states, `ECU.update_state` (what the client logged) and `UDSServer.update_state` (what
      the replaying server derives) yield the same (session, security_access_level);
  L2  key agreement: the request key stored by `DBHandler.insert_scan_result` and the one
      looked up by `DBUDSServer.respond_after_default` are the same function of the same bytes,
      and both sides serialise the same state keys;
  L3  replay control flow of `DBUDSServer.respond_after_default` with the SQL engine as an oracle
      (execute/fetchone return any row or None).
Not claimed: SQL semantics (ordering, wrap-around, joins) - the history-level fidelity.
"""
from __future__ import annotations

import json
from typing import Any

import z3

from pyvc import models, strings
from pyvc.engine import Explorer, Interp, PyExc, VCoro
from pyvc.runner import Check, Unit, run_units
from pyvc.values import (NONE, V, VBool, VBytes, VConst, VDict, VInt, VList, VObj, VStr, VTuple)

from . import codec_spec as cs
from . import iso14229 as iso
from . import utils_contracts as uc
from .c02 import alternatives as resp_alternatives
from .c02 import make_dict_arg, response_classes
from .c15 import Stub, coro


def state_harness(cname: str, cls: type, alts: dict[str, str]):
    def harness(I: Interp) -> None:
        import gallia.command  # noqa: F401
        from gallia.services.uds import ecu as E
        from gallia.services.uds import server as SV
        C = __import__("gallia.services.uds.core.constants", fromlist=["x"])
        args = []
        for name, kinds, default in cs.param_alternatives(cls):
            k = alts[name]
            args.append(make_dict_arg(I, name, k, 1) if k.startswith("dict_")
                        else cs.make_arg(I, name, k, C))
        try:
            resp = I.call(cls, *args)
        except PyExc:
            return
        sess = I.fresh_int("session", inp=True)
        lvl_none = I.choose([z3.BoolVal(True)] * 2) == 0
        lvl: V = NONE if lvl_none else I.fresh_int("level", inp=True)
        s1 = VObj(E.ECUState, {"session": sess, "security_access_level": lvl})
        s2 = VObj(E.ECUState, {"session": sess, "security_access_level": lvl})
        client = VObj(E.ECU, {"state": s1})
        server = VObj(SV.UDSServer, {"state": s2})
        req = NONE
        try:
            I.await_v(I.call_v(I.getattr_v(client, "update_state"), [req, resp], {}))
            I.await_v(I.call_v(I.getattr_v(server, "update_state"), [req, resp], {}))
        except PyExc as e:
            I.fail("L1-update_state-does-not-raise", e.exc.cls.__name__)
            return
        e1 = models.mk_eq(I, s1.fields["session"], s2.fields["session"])
        a, b = s1.fields["security_access_level"], s2.fields["security_access_level"]
        e2 = models.mk_eq(I, a, b)
        e1 = z3.BoolVal(e1) if isinstance(e1, bool) else e1
        e2 = z3.BoolVal(e2) if isinstance(e2, bool) else e2
        if cname == "ReadDataByIdentifierResponse":
            did = I.getattr_v(resp, "data_identifier").t
            f186 = did == 0xF186
            for nm, e in (("session", e1), ("security-level", e2)):
                I.prove(f"L1-client-and-server-derive-the-same-{nm}{{other-identifiers}}",
                        z3.Implies(z3.Not(f186), e))
                I.prove(f"L1-client-and-server-derive-the-same-{nm}"
                        f"{{ActiveDiagnosticSession-0xF186}}", z3.Implies(f186, e))
            return
        I.prove("L1-client-and-server-derive-the-same-session", e1)
        I.prove("L1-client-and-server-derive-the-same-security-level", e2)
    return harness


def key_harness(I: Interp) -> None:
    import gallia.command  # noqa: F401
    from gallia.db import handler as H
    from gallia.services.uds import ecu as E
    from gallia.services.uds import server as SV
    from gallia.services.uds.core import utils as U
    b = I.fresh_bytes("pdu", inp=True, minlen=1)
    stored = I.call(H.bytes_repr, b)
    looked = I.call(U.bytes_repr, b, VBool(False), NONE)
    I.prove("L2-stored-key-equals-lookup-key", models.str_term(stored) == models.str_term(looked))
    I.prove("L2-key-is-the-complete-hex-form", models.str_term(stored) == strings.HEX(b.t))
    st = I.call(E.ECUState)
    keys = [k.s for k, _ in I.getattr_v(st, "__dict__").items]
    I.prove("L2-state-keys", z3.BoolVal(keys == ["session", "security_access_level"]))
    import inspect
    src = inspect.getsource(SV.UDSServer.__init__)
    I.prove("L2-server-state-is-an-ECUState", z3.BoolVal("self.state = ECUState()" in src))


def replay_harness(ecu_given: bool, props_given: bool):
    def harness(I: Interp) -> None:
        import gallia.command  # noqa: F401
        from gallia.services.uds import ecu as E
        from gallia.services.uds import server as SV
        from gallia.services.uds.core import service as S
        uc.install(I.ex)
        models.MODELS[json.dumps] = lambda I2, a, k: VStr()
        script = {"n": 0}
        rows: list[Any] = []

        def execute(I2: Interp, recv: V, args: list[V], kwargs: dict[str, V]) -> V:
            def go() -> V:
                I2.ghost.setdefault("queries", []).append(args)
                return VObj(Stub, {}, lazy=True, tag="cursor")
            return coro(go)

        def fetchone(I2: Interp, recv: V, args: list[V], kwargs: dict[str, V]) -> V:
            def go() -> V:
                k = I2.choose([z3.BoolVal(True)] * 3)
                rows.append(k)
                if k == 0:
                    return NONE
                rid = I2.fresh_int("row_id")
                I2.ghost["row_id"] = rid
                if k == 1:
                    return VTuple([rid, NONE])
                h = VStr(t=z3.String(I2.fresh_name("hexreply")))
                I2.assume(strings.ISHEX(h.t))  # database invariant: replies are stored as hex (C11)
                I2.ghost["row_reply"] = h
                return VTuple([rid, h])
            return coro(go)
        I.ex.stubs[("conn", "execute")] = execute
        I.ex.stubs[("cursor", "fetchone")] = fetchone

        def parse(I2: Interp, pdu: V) -> V:
            I2.ghost["parsed_arg"] = pdu
            r = VObj(S.RawPositiveResponse, {"_pdu": pdu})
            I2.ghost["parsed"] = r
            return r
        I.ex.contracts[S.UDSResponse.__dict__["parse_dynamic"].__func__] = parse
        state = VObj(E.ECUState, {"session": I.fresh_int("session", inp=True),
                                  "security_access_level": NONE})
        last = I.fresh_int("last_response", inp=True)
        sess0 = state.fields["session"]
        srv = VObj(SV.DBUDSServer, {
            "connection": VObj(Stub, {}, lazy=True, tag="conn"), "state": state,
            "ecu": VStr("ecu1") if ecu_given else NONE,
            "properties": VDict([(VStr("p"), VStr("v"))]) if props_given else NONE,
            "last_response": last})
        req = VObj(S.RawRequest, {"_pdu": I.fresh_bytes("req", inp=True, minlen=1)})
        try:
            r = I.await_v(I.call_v(I.getattr_v(srv, "respond_after_default"), [req], {}))
        except PyExc as e:
            I.fail("L3-respond_after_default-does-not-raise", e.exc.cls.__name__)
            return
        qs = I.ghost.get("queries", [])
        I.prove("L3-one-query-then-at-most-one-wrap-around-query",
                z3.BoolVal(len(qs) == len(rows) and 1 <= len(qs) <= 2))
        for q in qs:
            params = q[1]
            ok = isinstance(params, VList) and params.items and len(params.items) >= 2
            I.prove("L3-lookup-key-is-the-hex-pdu-of-the-request", z3.BoolVal(bool(ok)) if not ok
                    else models.str_term(params.items[-2]) == strings.HEX(req.fields["_pdu"].t))
            if ok:
                I.prove("L3-lookup-continues-after-the-last-served-row",
                        models.mk_eq(I, params.items[-1], last))
                first = params.items[0]
                if ecu_given:
                    I.prove("L3-lookup-restricted-to-the-ecu-name",
                            z3.BoolVal(isinstance(first, VStr) and first.s == "ecu1"))
                I.prove("L3-lookup-filters-on-the-current-session",
                        z3.BoolVal(any(x is sess0 for x in params.items)),
                        repr([type(x).__name__ for x in params.items]))
        final = rows[-1]
        if final == 0:
            I.prove("L3-no-row-means-silence", z3.BoolVal(r is NONE and len(rows) == 2))
        elif final == 1:
            I.prove("L3-recorded-silence-resets-the-state-and-stays-silent",
                    z3.BoolVal(r is NONE) if r is not NONE else
                    z3.And(state.fields["session"].t == 1,
                           z3.BoolVal(state.fields["security_access_level"] is NONE)))
            I.prove("L3-served-row-remembered",
                    models.mk_eq(I, srv.fields["last_response"], I.ghost["row_id"]))
        else:
            I.prove("L3-recorded-reply-is-parsed-from-its-bytes", z3.BoolVal(
                r is I.ghost.get("parsed")))
            pa = I.ghost.get("parsed_arg")
            I.prove("L3-reply-bytes-are-unhexlify-of-the-stored-text",
                    pa.t == strings.UNHEX(I.ghost["row_reply"].t)
                    if isinstance(pa, VBytes) and pa.t is not None else z3.BoolVal(False))
            I.prove("L3-served-row-remembered",
                    models.mk_eq(I, srv.fields["last_response"], I.ghost["row_id"]))
    return harness


def build_units(tier: str) -> list[Unit]:
    units: list[Unit] = [Unit("keys/agreement", key_harness)]
    for cname, cls in response_classes().items():
        if cname in iso.INTERNAL_RESPONSE_BASES or cname not in iso.RESPONSES:
            continue
        for alts in resp_alternatives(cls):
            if alts.get("dtc_and_status_record") == "bytes" or "intlist" in alts.values():
                continue
            tag = ",".join(f"{k}={v}" for k, v in alts.items())
            units.append(Unit(f"state/{cname}/{tag}", state_harness(cname, cls, alts),
                              setup=uc.install))
    for e in (False, True):
        for p in (False, True):
            units.append(Unit(f"replay/ecu={int(e)},properties={int(p)}", replay_harness(e, p)))
    # L2 for the reply side: what insert_scan_result stores for a reply is the complete hex form
    # of its bytes whenever there is a reply - also when the client took no receive time because
    # the reply did not match (the row-construction harness is C11's; only its reply-column
    # obligations are kept here)
    from . import c11
    S = c11.service_module()
    for cname in ("ReadDataByIdentifierResponse", "NegativeResponse"):
        cls = getattr(S, cname)
        for alts in resp_alternatives(cls):
            if "none" in alts.values():
                continue
            tag = ",".join(f"{k}={v}" for k, v in alts.items())
            units.append(Unit(f"store/reply/{cname}/{tag}",
                              c11.insert_harness("response", cname, cls, alts),
                              setup=_store_setup, allow_empty=True))
    # L1 at the call site: every reply that is logged (the replaying server will serve it and
    # update *its* state from it) also drives the client's state tracking - for returned
    # replies, negative replies raised as exceptions and replies flagged as not matching
    units.append(Unit("client-state/ECU._request", c11.ecu_harness(True, True, "noconfig"),
                      setup=_state_setup))
    return units


def _state_setup(ex: Explorer) -> None:
    from . import c11
    c11.install_db(ex)
    ex.obligation_filter = lambda name: name.startswith(("E-state-updated", "E-row-response"))  # type: ignore[attr-defined]


def _store_setup(ex: Explorer) -> None:
    from . import c11
    c11.install_db(ex)
    ex.obligation_filter = lambda name: name.startswith(("I-response-column", "I-row-has"))  # type: ignore[attr-defined]


def native_client_state() -> tuple[bool, str]:
    """a state-changing reply that arrives as the (mismatching) answer to another request: the
    client must follow it, as the replaying server will"""
    import asyncio
    import logging
    logging.disable(logging.CRITICAL)
    import gallia.command  # noqa: F401
    from gallia.services.uds.core.exception import UDSException
    from gallia.services.uds.ecu import ECU
    from gallia.transports.base import BaseTransport, TargetURI

    class T(BaseTransport, scheme="c12state"):
        def __init__(self) -> None:
            self.mutex = asyncio.Lock()
            self.is_closed = False
            self.target = TargetURI("c12state://x")
            self.replies = [bytes.fromhex("5003003201f4")]

        async def connect(self, *a: object, **k: object) -> "T":  # type: ignore[override]
            return self

        async def close(self) -> None:
            pass

        async def write(self, data: bytes, timeout: float | None = None,
                        tags: list[str] | None = None) -> int:
            return len(data)

        async def read(self, timeout: float | None = None,
                       tags: list[str] | None = None) -> bytes:
            if not self.replies:
                raise asyncio.TimeoutError
            return self.replies.pop(0)

    async def go() -> tuple[bool, str]:
        ecu = ECU(T(), timeout=0.1, max_retry=0)
        try:
            # the late positive answer to an earlier 10 03 is read as the reply to 22 f1 90
            await ecu.read_data_by_identifier(0xF190)
        except UDSException:
            pass
        return (ecu.state.session != 3,
                f"reply 50 03 .. was read (and logged) as the answer to 22 f1 90; client state "
                f"session={ecu.state.session}, the replaying server moves to session 3")
    return asyncio.run(go())


HISTORIES: dict[str, list[tuple[str, str | None]]] = {
    "same request, different answers around a silence": [
        ("22f190", "62f19041414141"), ("31010203", None), ("22f190", "62f19042424242"),
        ("22f190", "62f19043434343")],
    "unlock in a non-default session, re-enter the same session, then ask": [
        ("1003", "5003003201f4"), ("2701", "6701a1b2"), ("2702a1b2", "6702"),
        ("22f190", "62f19055"), ("1003", "5003003201f4"), ("22f190", "7f2233")],
    "replies the client flags as mismatching": [
        ("22f190", "62f18a56494e"), ("2ef19001", "7f2231"), ("22f190", "62f19001")],
    "two sessions with different answers": [
        ("22f190", "62f19001"), ("1002", "5002003201f4"), ("22f190", "62f19002"),
        ("1001", "5001003201f4"), ("22f190", "62f19001")],
}


def native_record_replay() -> tuple[bool, str]:
    """Record scripted histories through the real ECU client and DBHandler into sqlite, replay
    them through DBUDSServer / UDSServerTransport.handle_request, compare reply by reply."""
    import asyncio
    import logging
    import shutil
    import tempfile
    from datetime import datetime
    from pathlib import Path
    logging.disable(logging.CRITICAL)
    import gallia.command  # noqa: F401
    from gallia.command.config import GalliaBaseModel
    from gallia.db.handler import DBHandler
    from gallia.services.uds import ecu as E
    from gallia.services.uds import server as SV
    from gallia.services.uds.core import service as S
    from gallia.transports.base import BaseTransport, TargetURI

    class Scripted(BaseTransport, scheme="c12-script"):
        def __init__(self, hist: list[tuple[str, str | None]]) -> None:
            self.mutex = asyncio.Lock()
            self.is_closed = False
            self.hist = list(hist)

        @classmethod
        async def connect(cls, target: Any, timeout: float | None = None) -> Any:
            raise NotImplementedError

        async def close(self) -> None:
            pass

        async def read(self, timeout: float | None = None, tags: Any = None) -> bytes:
            raise TimeoutError

        async def write(self, data: bytes, timeout: float | None = None, tags: Any = None) -> int:
            return len(data)

        async def request_unsafe(self, data: bytes, timeout: float | None = None,
                                 tags: Any = None) -> bytes:
            q, r = self.hist.pop(0)
            if r is None:
                raise TimeoutError("scripted silence")
            return bytes.fromhex(r)

    async def one(name: str, hist: list[tuple[str, str | None]], path: Path) -> str | None:
        db = DBHandler(path)
        await db.connect()
        await db.insert_run_meta("c12", GalliaBaseModel(), datetime.now().astimezone(), None)
        await db.insert_scan_run("c12-script://ecu")
        ecu = E.ECU(Scripted(hist), timeout=0.05, max_retry=0)
        ecu.db_handler = db
        for q, _ in hist:
            try:
                await ecu.request(S.UDSRequest.parse_dynamic(bytes.fromhex(q)))
            except Exception:  # noqa: BLE001
                pass
        await db.disconnect()
        srv = SV.DBUDSServer(path, None, None)
        await srv.setup()
        tr = SV.UDSServerTransport(srv, TargetURI("tcp://127.0.0.1:1"))
        try:
            for i, (q, r) in enumerate(hist):
                got, _ = await tr.handle_request(bytes.fromhex(q))
                if (got.hex() if got is not None else None) != r:
                    return (f"history '{name}', step {i}: request {q}: the ECU answered {r}, "
                            f"the replay answers {got.hex() if got is not None else None}")
        finally:
            await srv.teardown()
        return None

    async def go() -> tuple[bool, str]:
        tmp = Path(tempfile.mkdtemp(prefix="c12_"))
        try:
            for i, (name, hist) in enumerate(HISTORIES.items()):
                bad = await one(name, hist, tmp / f"h{i}.sqlite")
                if bad:
                    return True, bad
        finally:
            shutil.rmtree(tmp, ignore_errors=True)
        return False, f"{len(HISTORIES)} recorded histories are replayed reply by reply"
    return asyncio.run(go())


def native_replay(unit: str, obligation: str, model: dict) -> tuple[bool, str]:
    import asyncio
    import gallia.command  # noqa: F401
    from gallia.services.uds import ecu as E
    from gallia.services.uds import server as SV
    from gallia.services.uds.core import service as S

    if unit.startswith("store/"):
        from . import c11
        return c11.native_replay(unit, obligation, model)
    if unit.startswith("client-state/"):
        return native_client_state()
    if "ReadDataByIdentifierResponse" not in unit or "0xF186" not in obligation:
        return native_record_replay()

    class Srv(SV.UDSServer):
        @property
        def supported_services(self):  # type: ignore
            return {}

        async def respond_after_default(self, request):  # type: ignore
            return None
    resp = S.ReadDataByIdentifierResponse(0xF186, bytes([3]))
    srv = Srv()
    ecu = E.ECU.__new__(E.ECU)
    ecu.state = E.ECUState()

    async def go() -> None:
        await srv.update_state(None, resp)  # type: ignore
        await E.ECU.update_state(ecu, None, resp)  # type: ignore
    asyncio.run(go())
    bad = srv.state.__dict__ != ecu.state.__dict__
    return bad, (f"after ReadDataByIdentifierResponse(0xF186, 03): client state "
                 f"{ecu.state.__dict__}, replaying server state {srv.state.__dict__}")


def native_search(unit: str, obligation: str, seed: int) -> dict | None:
    return {}


TRUSTED = [
    "pyvc VC generator; z3 5.1.0",
    "SQL semantics of the replay query (next-id-first, wrap-around, joins, json_extract): the "
    "engine is an oracle returning any row or None",
    "binascii.hexlify/unhexlify contracts; json.dumps",
]


def main(tier: str, seed: int, only: str | None = None, jobs: int = 16) -> int:
    chk = Check("C12", "contracts.c12", tier, seed)
    units = build_units(tier)
    if only:
        units = [u for u in units if only in u.uid]
    results = run_units(units, jobs)
    chk.trusted_base = TRUSTED
    chk.assumptions = [
        "proved-partial: the per-function ingredients (state equivalence, key agreement, replay "
        "control flow); byte-exactness of the parsed reply is C02; history-level fidelity "
        "depends on the trusted SQL semantics",
    ]
    return chk.finish(results, native_replay, native_search)
