"""C07 - HSFZ: frames are demultiplexed correctly under any segmentation and interleaving
(proved-partial, DESIGN 5/C07).  Same structure as C06:

  codec    HSFZHeader / HSFZDiagReqHeader pack layout and unpack inverse
  framing  `_read_frame` consumes exactly 6 + Len bytes of the ghost stream for every Len; short
           frames (Len < 2) are consumed completely and carry no address header
  worker   one arbitrary iteration of `_read_worker`: alive check -> exactly the alive reply with
           the tester address, written without taking a lock; Ack/Data frames with both headers
           queued; any other control word queued as an int
  control  `_unpack_frame(int)` closes the connection and raises BrokenPipeError
  demux    one arbitrary iteration of `read_diag_request` / `_read_ack`
  write    `write_diag_request`: bytes on the wire, completes iff an ack matched within
           ack_timeout, otherwise close + BrokenPipeError
  connect  HSFZTransport.connect hands over the URI's addresses and ack_timeout / 1000
"""
from __future__ import annotations

import asyncio
from typing import Any

import z3

from pyvc import loops, models
from pyvc.engine import Explorer, Frame, Interp, PyExc
from pyvc.runner import Check, Unit, run_units
from pyvc.values import (NONE, V, VBool, VBytes, VConst, VFloat, VInt, VList, VObj, VStr, VTuple)

from . import codec_spec as cs
from . import transport_env as te
from .c06 import FID, FakeWriter, be, unit
from .c15 import Stub, coro

ALIVE, ACK, DATA = 0x12, 0x02, 0x01


def H() -> Any:
    import gallia.command  # noqa: F401
    from gallia.transports import hsfz
    return hsfz


def codec_harness(I: Interp) -> None:
    h = H()
    ln = I.fresh_int("len", 0, 0xFFFFFFFF, inp=True)
    cw = I.fresh_int("cword", 0, 0xFFFF, inp=True)
    o = I.call(h.HSFZHeader, ln, cw)
    p = I.call_v(I.getattr_v(o, "pack"), [], {})
    I.prove("G-header-layout(len32,cword16)", p.t == z3.Concat(be(I, ln.t, 4), be(I, cw.t, 2)))
    raw = I.fresh_bytes("hdr", inp=True)
    I.assume(models.seq_len(raw.t) == 6)
    o2 = I.call_v(I.getattr_v(VConst(h.HSFZHeader), "unpack"), [raw], {})
    I.prove("G-header-unpack-then-pack-is-identity",
            models.bytes_eq(I, I.call_v(I.getattr_v(o2, "pack"), [], {}).t, raw.t))
    I.prove("G-control-word-is-bytes-4..5", o2.fields["CWord"].t == raw.t[4] * 256 + raw.t[5])
    s, d = I.fresh_int("src", 0, 255, inp=True), I.fresh_int("dst", 0, 255, inp=True)
    r = I.call(h.HSFZDiagReqHeader, s, d)
    I.prove("G-address-header-layout(src8,dst8)",
            I.call_v(I.getattr_v(r, "pack"), [], {}).t == z3.Concat(unit(s.t), unit(d.t)))
    raw2 = I.fresh_bytes("req", inp=True)
    I.assume(models.seq_len(raw2.t) == 2)
    r2 = I.call_v(I.getattr_v(VConst(h.HSFZDiagReqHeader), "unpack"), [raw2], {})
    I.prove("G-address-header-unpack", z3.And(r2.fields["src_addr"].t == raw2.t[0],
                                               r2.fields["dst_addr"].t == raw2.t[1]))


def mk_conn(I: Interp, closed: bool = False) -> VObj:
    h = H()
    return VObj(h.HSFZConnection, {
        "reader": te.stub("reader"), "writer": te.stub("writer"),
        "src_addr": I.fresh_int("src_addr", 0, 255, inp=True),
        "dst_addr": I.fresh_int("dst_addr", 0, 255, inp=True),
        "ack_timeout": VFloat(z3.Real("ack_timeout")), "_read_queue": te.stub("queue"),
        "_read_task": te.stub("task"), "_closed": VBool(closed),
        "_mutex": te.stub("lock:conn._mutex")})


def framing_harness(I: Interp) -> None:
    te.install_io(I.ex)
    conn = mk_conn(I)
    stream = I.fresh_bytes("stream", inp=True)
    I.ghost.update({"stream": stream, "pos": z3.IntVal(0), "reads": 0})
    try:
        r = I.await_v(I.call_v(I.getattr_v(conn, "_read_frame"), [], {}))
    except PyExc as e:
        I.prove("F-only-end-of-stream-interrupts-a-frame", z3.And(
            z3.BoolVal(issubclass(e.exc.cls, asyncio.IncompleteReadError)),
            I.ghost["pos"] == models.seq_len(stream.t)), e.exc.cls.__name__)
        return
    s = stream.t
    ln = ((s[0] * 256 + s[1]) * 256 + s[2]) * 256 + s[3]
    I.prove("F-consumes-exactly-6+Len-bytes", I.ghost["pos"] == 6 + ln)
    hdr, req, data = r.items
    I.prove("F-header-fields", z3.And(hdr.fields["Len"].t == ln,
                                      hdr.fields["CWord"].t == s[4] * 256 + s[5]))
    if req is NONE:
        I.prove("F-short-frame-has-no-address-header", ln < 2)
        I.prove("F-short-frame-payload", z3.BoolVal(data is NONE) if data is NONE else z3.And(
            ln == 1, models.bytes_eq(I, data.t, z3.SubSeq(s, z3.IntVal(6), z3.IntVal(1)))))
    else:
        I.prove("F-address-header-and-payload", z3.And(
            ln >= 2, req.fields["src_addr"].t == s[6], req.fields["dst_addr"].t == s[7],
            models.bytes_eq(I, data.t, z3.SubSeq(s, z3.IntVal(8), ln - 2))))


def worker_harness(I: Interp) -> None:
    h = H()
    te.install_io(I.ex)
    te.install_locks()
    conn = mk_conn(I)
    puts: list[V] = []
    I.ghost.update({"written": [], "held": set(), "write_locks": []})

    def read_frame(I2: Interp, self_: V) -> V:
        def go() -> V:
            k = I2.choose([z3.BoolVal(True)] * 9)
            short = k in (7, 8)  # a frame too short for an address header (Len < 2), which
            k = {7: 0, 8: 4}.get(k, k)  # _read_frame returns as (hdr, None, data) for any word
            I2.ghost["frame_kind"] = k
            if k == 5:
                raise PyExc(VObj(asyncio.IncompleteReadError, {"args": VTuple([])}))
            if k == 6:
                raise PyExc(VObj(ValueError, {"args": VTuple([])}))
            cw = I2.fresh_int("cw", 0, 0xFFFF)
            if k == 0:
                I2.assume(cw.t == ALIVE)
            elif k in (1, 2, 3):
                I2.assume(z3.Or(cw.t == ACK, cw.t == DATA))
            else:
                I2.assume(z3.And(cw.t != ALIVE, cw.t != ACK, cw.t != DATA))
            hdr = I2.call(h.HSFZHeader, I2.fresh_int("len", 0), cw)
            req = NONE if k == 2 or short else I2.call(h.HSFZDiagReqHeader, I2.fresh_int("s"),
                                                       I2.fresh_int("d"))
            data = NONE if k in (2, 3) else I2.fresh_bytes("payload")
            I2.ghost["frame"] = (hdr, req, data)
            return VTuple([hdr, req, data])
        return coro(go)
    I.ex.contracts[h.HSFZConnection._read_frame] = read_frame
    I.ex.stubs[("queue", "put")] = lambda I2, r, a, k: (puts.append(a[0]), coro(lambda: NONE))[1]

    def check(I2: Interp, fr: Frame) -> list[tuple[str, Any]]:
        k = I2.ghost.get("frame_kind")
        if k is None:
            return []
        w = I2.ghost["written"]
        if k == 0:
            src = conn.fields["src_addr"].t
            want = z3.Concat(be(I2, z3.IntVal(2), 4), be(I2, z3.IntVal(ALIVE), 2), be(I2, src, 2))
            return [("alive-check-answered-exactly-once-with-the-tester-address",
                     z3.And(z3.BoolVal(len(w) == 1 and not puts),
                            models.bytes_eq(I2, w[0].t, want) if len(w) == 1
                            else z3.BoolVal(False))),
                    ("alive-check-answer-takes-no-lock",
                     z3.BoolVal(all(not s for s in I2.ghost["write_locks"])))]
        if k == 1:
            f = I2.ghost["frame"]
            return [("ack-or-data-frame-queued-exactly-once", z3.BoolVal(
                not w and len(puts) == 1 and isinstance(puts[0], VTuple)
                and puts[0].items[2] is f[2]))]
        if k in (2, 3):
            return [("frame-without-address-header-or-payload-is-dropped",
                     z3.BoolVal(not w and not puts))]
        f = I2.ghost["frame"]
        return [("other-control-word-queued-as-int", z3.BoolVal(
            not w and len(puts) == 1 and isinstance(puts[0], VInt)
            and puts[0].t.eq(f[0].fields["CWord"].t)))]

    def havoc(I2: Interp, fr: Frame) -> None:
        puts.clear()
        I2.ghost["written"] = []
        I2.ghost["write_locks"] = []
        I2.ghost["frame_kind"] = None
    I.ex.loop_contracts[("HSFZConnection._read_worker", 0)] = loops.LoopContract(havoc, check)
    try:
        I.await_v(I.call_v(I.getattr_v(conn, "_read_worker"), [], {}))
    except PyExc as e:
        I.fail("W-read-worker-swallows-reader-failures", e.exc.cls.__name__)


def unpack_harness(I: Interp) -> None:
    h = H()
    conn = mk_conn(I)
    I.ghost["closes"] = 0

    def close(I2: Interp, self_: V) -> V:
        I2.ghost["closes"] += 1
        return coro(lambda: NONE)
    I.ex.contracts[h.HSFZConnection.close] = close
    k = I.choose([z3.BoolVal(True)] * 2)
    if k == 0:
        members = [int(m) for m in h.HSFZStatus]
        cw = I.fresh_int("control_word", 0, 0xFFFF, inp=True)
        try:
            I.await_v(I.call_v(I.getattr_v(conn, "_unpack_frame"), [cw], {}))
            I.fail("U-control-word-surfaces-as-a-connection-error", "returned")
        except PyExc as e:
            I.prove("U-control-word-surfaces-as-a-connection-error", z3.BoolVal(
                issubclass(e.exc.cls, BrokenPipeError) and I.ghost["closes"] == 1),
                e.exc.cls.__name__)
    else:
        f = VTuple([te.stub("hdr"), te.stub("req"), I.fresh_bytes("d")])
        r = I.await_v(I.call_v(I.getattr_v(conn, "_unpack_frame"), [f], {}))
        I.prove("U-data-frames-pass-through", z3.BoolVal(r is f and I.ghost["closes"] == 0))


def demux_harness(which: str):
    def harness(I: Interp) -> None:
        h = H()
        te.install_io(I.ex)
        conn = mk_conn(I)
        prev = I.fresh_bytes("written_data", inp=True)
        I.ghost.update({"dequeued": z3.IntVal(0), "putlog": VList([]), "cancelled": False,
                        "cur": None})

        def get_frame(I2: Interp, self_: V) -> V:
            def go() -> V:
                k = I2.choose([z3.BoolVal(True)] * 2)
                if k == 1:
                    I2.ghost["cancelled"] = True
                    raise PyExc(VObj(asyncio.CancelledError, {"args": VTuple([])}))
                hdr = I2.call(h.HSFZHeader, I2.fresh_int("len", 0),
                              I2.fresh_int("cw", 0, 0xFFFF))
                req = I2.call(h.HSFZDiagReqHeader, I2.fresh_int("s", 0, 255),
                              I2.fresh_int("d", 0, 255))
                f = VTuple([hdr, req, I2.fresh_bytes("payload")])
                I2.ghost["cur"] = f
                I2.ghost["dequeued"] = I2.ghost["dequeued"] + 1
                return f
            return coro(go)
        I.ex.contracts[h.HSFZConnection.read_frame] = get_frame

        def put(I2: Interp, recv: V, args: list[V], kwargs: dict[str, V]) -> V:
            models.list_method(I2, I2.ghost["putlog"], "append", [args[0]], {})
            return coro(lambda: NONE)
        I.ex.stubs[("queue", "put")] = put
        fname = {"data": "read_diag_request", "ack": "_read_ack"}[which]

        def awaited_pred(cur: VTuple) -> Any:
            hdr, req, data = cur.items
            if which == "data":
                return z3.And(hdr.fields["CWord"].t == DATA,
                              req.fields["src_addr"].t == conn.fields["dst_addr"].t,
                              req.fields["dst_addr"].t == conn.fields["src_addr"].t)
            n = models.seq_len(prev.t)
            first5 = z3.SubSeq(prev.t, z3.IntVal(0), z3.If(n < 5, n, 5))
            return z3.And(hdr.fields["CWord"].t == ACK,
                          req.fields["src_addr"].t == conn.fields["src_addr"].t,
                          req.fields["dst_addr"].t == conn.fields["dst_addr"].t,
                          data.t == first5)

        def havoc(I2: Interp, fr: Frame) -> None:
            k = I2.fresh_int("skipped", 0)
            I2.ghost["cur"] = None
            I2.ghost["dequeued"] = k.t
            I2.ghost["skipped0"] = k.t
            fr.env[loops.list_accumulator(fr)] = VList(
                None, k.t, lambda j: VTuple([VObj(Stub, {"fid": VInt(FID(j))}, tag="skipped"),
                                             NONE, NONE]))
            for n in ("hdr", "req_hdr", "data", "item"):
                fr.env.pop(n, None)
                fr.poison.add(n)

        def inv(I2: Interp, fr: Frame) -> list[tuple[str, Any]]:
            up = fr.env[loops.list_accumulator(fr)]
            out = [("every-dequeued-frame-so-far-was-kept-aside",
                    up.length() == I2.ghost["dequeued"])]
            if I2.ghost.get("cur") is not None:
                out.append(("a-frame-that-is-kept-aside-is-not-the-awaited-one",
                            z3.Not(awaited_pred(I2.ghost["cur"]))))
            return out
        I.ex.loop_contracts[(f"HSFZConnection.{fname}", 0)] = loops.LoopContract(havoc, inv)
        raised = None
        try:
            r = I.await_v(I.call_v(I.getattr_v(conn, fname),
                                   [prev] if which == "ack" else [], {}))
        except PyExc as e:
            raised, r = e.exc, None
        k0 = I.ghost.get("skipped0")
        if I.ghost["cancelled"]:
            I.prove("Q-cancel-safe(no-dequeued-frame-is-lost-when-the-wait-is-cancelled)",
                    k0 == 0 if k0 is not None else z3.BoolVal(True))
            return
        cur = I.ghost["cur"]
        if cur is None:
            return
        if raised is not None:
            I.fail("Q-demux-loop-does-not-raise-on-a-frame", raised.cls.__name__)
            return
        I.prove("Q-wait-ends-only-on-the-awaited-frame", awaited_pred(cur))
        pll = I.ghost["putlog"]
        I.prove("Q-every-skipped-frame-is-requeued(count)", pll.length() == k0)
        sk = z3.Int(I.fresh_name("q_sk"))
        I.note_index(sk)
        if not (pll.items is not None and not pll.items):
            I.prove("Q-every-skipped-frame-is-requeued(identity)", z3.Implies(
                z3.And(sk >= 0, sk < k0), pll.at(sk).items[0].fields["fid"].t == FID(sk)))
        I.prove("Q-requeue-keeps-arrival-order(skipped-frames-precede-later-arrivals)", k0 == 0,
                "re-queued with put(): behind every frame that arrived meanwhile")
        if which == "data":
            I.prove("Q-returns-the-payload-of-the-awaited-data-frame",
                    z3.BoolVal(r is cur.items[2]))
    return harness


def write_harness(I: Interp) -> None:
    h = H()
    te.install_io(I.ex)
    te.install_locks()
    conn = mk_conn(I)
    I.ghost.update({"written": [], "closes": 0, "held": set(), "ack_waits": 0})

    def read_ack(I2: Interp, self_: V, prev: V) -> V:
        def go() -> V:
            I2.ghost["ack_waits"] += 1
            I2.ghost["ack_prev"] = prev
            return NONE
        return coro(go)
    I.ex.contracts[h.HSFZConnection._read_ack] = read_ack

    def close(I2: Interp, self_: V) -> V:
        I2.ghost["closes"] += 1
        return coro(lambda: NONE)
    I.ex.contracts[h.HSFZConnection.close] = close
    data = I.fresh_bytes("data", inp=True)
    I.assume(models.seq_len(data.t) <= 0xFFFFFFFF - 2)
    raised = None
    try:
        I.await_v(I.call_v(I.getattr_v(conn, "write_diag_request"), [data], {}))
    except PyExc as e:
        raised = e.exc
    w = I.ghost["written"]
    I.prove("X-exactly-one-write-per-request", z3.BoolVal(len(w) == 1))
    if len(w) == 1:
        want = z3.Concat(be(I, models.seq_len(data.t) + 2, 4), be(I, z3.IntVal(DATA), 2),
                         unit(conn.fields["src_addr"].t), unit(conn.fields["dst_addr"].t), data.t)
        I.prove("X-bytes-on-the-wire(len32,cword=0001,src,dst,data)",
                models.bytes_eq(I, w[0].t, want))
    I.prove("X-mutex-released", z3.BoolVal(not I.ghost["held"]))
    dl = I.ghost.get("deadlines", [])
    I.prove("X-ack-wait-has-the-configured-ack-timeout",
            z3.BoolVal(len(dl) == 1 and dl[0] is conn.fields["ack_timeout"]))
    if I.ghost.get("timed_out"):
        I.prove("X-ack-timeout-closes-and-raises-BrokenPipeError", z3.BoolVal(
            I.ghost["closes"] == 1 and raised is not None
            and issubclass(raised.cls, BrokenPipeError)))
    else:
        I.prove("X-write-completes-iff-acknowledged",
                z3.BoolVal(raised is None and I.ghost["ack_waits"] == 1
                           and I.ghost.get("ack_prev") is data))


def connect_harness(I: Interp) -> None:
    h = H()
    seen: dict[str, Any] = {}

    def conn_connect(I2: Interp, cls: V, *a: V, **k: V) -> V:
        seen["args"] = a
        return coro(lambda: te.stub("conn"))
    I.ex.contracts[h.HSFZConnection.__dict__["connect"].__func__] = conn_connect
    cfg = te.stub("cfg", src_addr=I.fresh_int("src_addr", 0, 255, inp=True),
                  dst_addr=I.fresh_int("dst_addr", 0, 255, inp=True),
                  ack_timeout=I.fresh_int("ack_timeout_ms", 0, None, inp=True))
    models.CLASS_MODELS[h.HSFZConfig] = lambda I2, cls, a, k: cfg
    port_given = I.choose([z3.BoolVal(True)] * 2) == 0
    uri = te.stub("uri", hostname=VStr("gw"), port=I.fresh_int("port", 0, 65535)
                  if port_given else NONE, qs_flat=models.VDict([]))
    models.MODELS[h.BaseTransport.__init__] = lambda I2, a, k: NONE
    t = I.await_v(I.call_v(I.getattr_v(VConst(h.HSFZTransport), "connect"), [uri], {}))
    a = seen["args"]
    I.prove("C-connection-gets-the-configured-addresses", z3.And(
        a[2].t == cfg.fields["src_addr"].t, a[3].t == cfg.fields["dst_addr"].t))
    I.prove("C-ack-timeout-is-converted-from-ms-to-s",
            models.to_real(a[4]) * 1000 == z3.ToReal(cfg.fields["ack_timeout"].t))
    I.prove("C-default-port-6801", a[1].t == (uri.fields["port"].t if port_given else 6801))


def demux_scripted_harness(which: str, k: int):
    """Bounded companion of the demux units (labelled): a *scripted* history of k frames that
    are not the awaited one (wrong control word) followed by the awaited frame; the loop is
    executed as written (no invariant, no template), so it also decides loop bodies the loop
    rules do not cover."""
    def harness(I: Interp) -> None:
        h = H()
        te.install_io(I.ex)
        conn = mk_conn(I)
        prev = VBytes(b"\x10\x01")
        state = {"i": 0}
        frames: list[VTuple] = []
        putlog: list[V] = []

        def get_frame(I2: Interp, self_: V) -> V:
            def go() -> V:
                i = state["i"]
                state["i"] += 1
                if i > k:
                    I2.fail("Q-wait-ends-on-the-awaited-frame(scripted)", "read past it")
                    raise PyExc(VObj(asyncio.CancelledError, {"args": VTuple([])}))
                good = DATA if which == "data" else ACK
                other = ACK if which == "data" else DATA
                hdr = I2.call(h.HSFZHeader, VInt(4), VInt(good if i == k else other))
                if which == "data":
                    req = I2.call(h.HSFZDiagReqHeader, conn.fields["dst_addr"],
                                  conn.fields["src_addr"])
                else:
                    req = I2.call(h.HSFZDiagReqHeader, conn.fields["src_addr"],
                                  conn.fields["dst_addr"])
                f = VTuple([hdr, req, VBytes(b"\x10\x01") if i == k else VBytes(bytes([0x50, i]))])
                frames.append(f)
                return f
            return coro(go)
        I.ex.contracts[h.HSFZConnection.read_frame] = get_frame

        def put(I2: Interp, recv: V, args: list[V], kwargs: dict[str, V]) -> V:
            putlog.append(args[0])
            return coro(lambda: NONE)
        I.ex.stubs[("queue", "put")] = put
        I.ex.stubs[("queue", "put_nowait")] = lambda I2, r, a, kw: (putlog.append(a[0]), NONE)[1]
        fname = {"data": "read_diag_request", "ack": "_read_ack"}[which]
        try:
            r = I.await_v(I.call_v(I.getattr_v(conn, fname),
                                   [prev] if which == "ack" else [], {}))
        except PyExc as e:
            I.fail("Q-demux-loop-does-not-raise-on-a-frame(scripted)", e.exc.cls.__name__)
            return
        I.prove(f"Q-wait-ends-only-on-the-awaited-frame(scripted,k={k})",
                z3.BoolVal(state["i"] == k + 1))
        same = len(putlog) == k and all(
            isinstance(a, VTuple) and all(x is y for x, y in zip(a.items, b.items))
            for a, b in zip(putlog, frames))
        I.prove(f"Q-skipped-frames-are-requeued-once-each-in-arrival-order(scripted,k={k})",
                z3.BoolVal(same), f"{len(putlog)} re-queued of {k}")
        if which == "data":
            I.prove(f"Q-returns-the-payload-of-the-awaited-data-frame(scripted,k={k})",
                    z3.BoolVal(r is frames[k].items[2]))
    return harness


def build_units(tier: str) -> list[Unit]:
    return [Unit("codec/headers", codec_harness), Unit("framing/_read_frame", framing_harness),
            Unit("worker/_read_worker", worker_harness),
            Unit("control/_unpack_frame", unpack_harness),
            Unit("demux/data", demux_harness("data"), max_paths=20000),
            Unit("demux/ack", demux_harness("ack"), max_paths=20000),
            *[Unit(f"demux-scripted/{w}/k={k}", demux_scripted_harness(w, k),
                   bounded="scripted history of k <= 3 skipped frames")
              for w in ("data", "ack") for k in range(0, 4)],
            Unit("write/write_diag_request", write_harness),
            Unit("connect/HSFZTransport.connect", connect_harness)]


def native_replay(unit: str, obligation: str, model: dict) -> tuple[bool, str]:
    import logging
    logging.disable(logging.CRITICAL)
    h = H()

    def fr(cw: int, src: int, dst: int, data: bytes) -> bytes:
        return h.HSFZHeader(len(data) + 2, cw).pack() + bytes([src, dst]) + data

    async def scripted() -> tuple[bool, str]:
        # k data frames arrive before the ack: after the ack wait they are read back in order
        for k in (1, 2, 3):
            r = asyncio.StreamReader()
            conn = h.HSFZConnection(r, FakeWriter(), 0xF4, 0x10, 0.05)  # type: ignore
            ds = [bytes([0x50, i]) for i in range(k)]
            r.feed_data(b"".join(fr(DATA, 0x10, 0xF4, d) for d in ds)
                        + fr(ACK, 0xF4, 0x10, b"\x10\x01"))
            await asyncio.sleep(0.01)
            await asyncio.wait_for(conn._read_ack(b"\x10\x01"), 0.5)
            got = []
            for _ in range(k):
                try:
                    got.append(await asyncio.wait_for(conn.read_diag_request(), 0.1))
                except TimeoutError:
                    got.append(b"<missing>")
            await conn.close()
            if got != ds:
                return True, (f"{k} data frames then the ack: reads deliver "
                              f"{[g.hex() for g in got]}, sent {[d.hex() for d in ds]}")
        return False, "skipped frames come back once each and in order for k=1..3"

    async def segmentation() -> tuple[bool, str]:
        stream = fr(DATA, 0x10, 0xF4, bytes.fromhex("62f190") + b"VIN-0123456789") + \
            fr(DATA, 0x10, 0xF4, b"\x7f\x22\x78")

        async def decode(cut: int | None) -> list[str]:
            r = asyncio.StreamReader()
            conn = h.HSFZConnection(r, FakeWriter(), 0xF4, 0x10, 0.05)  # type: ignore
            if cut is None:
                r.feed_data(stream)
            else:
                r.feed_data(stream[:cut])
                await asyncio.sleep(0.002)
                r.feed_data(stream[cut:])
            out = []
            for _ in range(2):
                try:
                    out.append((await asyncio.wait_for(conn.read_diag_request(), 0.2)).hex())
                except Exception as e:  # noqa: BLE001
                    out.append(type(e).__name__)
            await conn.close()
            return out
        want = await decode(None)
        for cut in range(1, len(stream)):
            got = await decode(cut)
            if got != want:
                return True, f"two frames split after byte {cut}: {got}, unsegmented {want}"
        return False, "all single splits decode like the unsegmented stream"
    if unit.startswith("demux-scripted/"):
        return asyncio.run(scripted())
    if unit.startswith("framing/"):
        return asyncio.run(segmentation())
    if unit.startswith("demux/") and "keeps-arrival-order" not in obligation \
            and "cancel-safe" not in obligation:
        # any other obligation of the waits: frames kept aside come back once each, in order
        return asyncio.run(scripted())
    if not (unit.startswith("demux/") or "alive" in obligation):
        return False, "no native scenario for this obligation"

    async def go() -> tuple[bool, str]:
        r = asyncio.StreamReader()
        w = FakeWriter()
        conn = h.HSFZConnection(r, w, 0xF4, 0x10, 0.05)  # type: ignore
        d1 = fr(DATA, 0x10, 0xF4, b"\x50\x01")
        d2 = fr(DATA, 0x10, 0xF4, b"\x50\x02")
        ack = fr(ACK, 0xF4, 0x10, b"\x10\x01")
        if "cancel-safe" in obligation:
            r.feed_data(d1)
            try:
                await asyncio.wait_for(conn._read_ack(b"\x10\x01"), 0.05)
            except TimeoutError:
                pass
            try:
                got = await asyncio.wait_for(conn.read_diag_request(), 0.05)
                res = (False, f"frame survived: {got.hex()}")
            except TimeoutError:
                res = (True, "a data frame dequeued while waiting for an ack is lost when that "
                             "wait times out")
        else:
            r.feed_data(d1 + ack + d2)
            await asyncio.sleep(0.01)
            await conn._read_ack(b"\x10\x01")
            a = await conn.read_diag_request()
            b = await conn.read_diag_request()
            res = (a + b != b"\x50\x01\x50\x02",
                   f"stream [D1, ACK, D2]: reads deliver {a.hex()}, {b.hex()}")
        await conn.close()
        return res
    return asyncio.run(go())


def native_search(unit: str, obligation: str, seed: int) -> dict | None:
    return {}


TRUSTED = [
    "pyvc VC generator; z3 5.1.0",
    "asyncio.StreamReader.readexactly, StreamWriter, Queue, Lock, wait_for (as in C06)",
    "HSFZ frame layout: Len(4) CWord(2) [src(1) dst(1) payload]",
]


def main(tier: str, seed: int, only: str | None = None, jobs: int = 16) -> int:
    chk = Check("C07", "contracts.c07", tier, seed)
    units = build_units(tier)
    if only:
        units = [u for u in units if only in u.uid]
    results = run_units(units, jobs)
    chk.trusted_base = TRUSTED
    chk.assumptions = [
        "proved-partial: per-function obligations; task interleavings replaced by lock "
        "obligations; timing only as 'the wait carries the configured deadline'",
    ]
    return chk.finish(results, native_replay, native_search)
