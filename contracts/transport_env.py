"""Abstract environment for the transport contracts (C06, C07, C08, C19).

Ghost state (DESIGN 3.5):
    stream / pos      the byte stream the peer sends and how much of it was consumed; the contract
                      of StreamReader.readexactly / readline speaks about the *stream*, so TCP
                      segmentation does not appear in any VC
    written           byte strings handed to StreamWriter.write, in order
    queue operations  `put` appends to a ghost log; `get` returns an arbitrary frame (the choice
                      is universal, so every queue content is covered) or is cancelled
    locks             `async with lock` = acquire/release of a permission
    deadline          set by asyncio.wait_for / asyncio.timeout with a non-None timeout
"""
from __future__ import annotations

import asyncio
from typing import Any, Callable

import z3

from pyvc import models
from pyvc.engine import Explorer, Interp, PyExc, VCoro
from pyvc.values import (NONE, V, VBool, VBytes, VConst, VFloat, VInt, VList, VObj, VStr, VTuple)

from .c15 import Stub, coro


def stub(tag: str, **fields: V) -> VObj:
    return VObj(Stub, dict(fields), lazy=True, tag=tag)


def install_io(ex: Explorer) -> None:
    """reader / writer / lock / wait_for contracts."""

    def readexactly(I: Interp, recv: V, args: list[V], kwargs: dict[str, V]) -> V:
        def go() -> V:
            n = models.as_int(I, args[0])
            stream, pos = I.ghost["stream"], I.ghost["pos"]
            I.ghost["reads"] = I.ghost.get("reads", 0) + 1
            if I.branch(n < 0):
                I.raise_py(ValueError, "readexactly size can not be less than zero")
            total = models.seq_len(stream.t)
            if not I.branch(pos + n <= total):
                I.ghost["pos"] = total
                e = VObj(asyncio.IncompleteReadError, {"args": VTuple([]), "partial": VBytes(b""),
                                                       "expected": VInt(n)})
                raise PyExc(e)
            I.ghost["pos"] = z3.simplify(pos + n)
            return models.getslice(I, stream, VInt(pos), VInt(pos + n), None)
        return coro(go)
    ex.stubs[("reader", "readexactly")] = readexactly

    def read(I: Interp, recv: V, args: list[V], kwargs: dict[str, V]) -> V:
        """StreamReader.read(n): *up to* n bytes - whatever the current segment holds (at least
        one byte unless the stream is at EOF)."""
        def go() -> V:
            n = models.as_int(I, args[0]) if args else z3.IntVal(-1)
            stream, pos = I.ghost["stream"], I.ghost["pos"]
            I.ghost["reads"] = I.ghost.get("reads", 0) + 1
            total = models.seq_len(stream.t)
            k = I.fresh_int("segment").t
            I.assume(z3.And(k >= 0, pos + k <= total, z3.Implies(pos < total, k >= 1),
                            z3.Implies(n >= 0, k <= n)))
            I.ghost["pos"] = z3.simplify(pos + k)
            return models.getslice(I, stream, VInt(pos), VInt(pos + k), None)
        return coro(go)
    ex.stubs[("reader", "read")] = read
    ex.stubs[("reader", "feed_eof")] = lambda I, r, a, k: NONE

    def write(I: Interp, recv: V, args: list[V], kwargs: dict[str, V]) -> V:
        I.ghost.setdefault("written", []).append(args[0])
        I.ghost.setdefault("write_locks", []).append(set(I.ghost.get("held", set())))
        return NONE
    ex.stubs[("writer", "write")] = write
    ex.stubs[("writer", "drain")] = lambda I, r, a, k: coro(lambda: NONE)

    def wclose(I: Interp, recv: V, args: list[V], kwargs: dict[str, V]) -> V:
        I.ghost["writer_closed"] = I.ghost.get("writer_closed", 0) + 1
        return NONE
    ex.stubs[("writer", "close")] = wclose

    def wait_closed(I: Interp, recv: V, args: list[V], kwargs: dict[str, V]) -> V:
        def go() -> V:
            # closing an already closed writer is a no-op (trusted idempotence of StreamWriter)
            if I.ghost.get("writer_closed", 0) <= 1 and I.choose([z3.BoolVal(True)] * 2) == 1:
                I.raise_py(ConnectionResetError, "peer reset while closing")
            return NONE
        return coro(go)
    ex.stubs[("writer", "wait_closed")] = wait_closed

    def is_closing(I: Interp, recv: V, args: list[V], kwargs: dict[str, V]) -> V:
        # true after close(); may also be true before it: asyncio force-closes the transport
        # when the peer resets the connection
        if I.ghost.get("writer_closed", 0) > 0:
            return VBool(True)
        return VBool(I.choose([z3.BoolVal(True)] * 2) == 1)
    ex.stubs[("writer", "is_closing")] = is_closing
    ex.stubs[("task", "cancel")] = lambda I, r, a, k: (
        I.ghost.__setitem__("task_cancelled", I.ghost.get("task_cancelled", 0) + 1), NONE)[1]

    def wait_for(I: Interp, args: list[V], kwargs: dict[str, V]) -> V:
        aw = args[0]
        timeout = args[1] if len(args) > 1 else kwargs.get("timeout", NONE)

        def go() -> V:
            I.ghost.setdefault("deadlines", []).append(timeout)
            if timeout is not NONE and I.choose([z3.BoolVal(True)] * 2) == 1:
                # the awaitable did not finish in time: it is cancelled at its first blocking
                # point (contract of wait_for) and TimeoutError is raised
                I.ghost["timed_out"] = True
                if isinstance(aw, VCoro) and aw.name.startswith("shielded"):
                    # ... unless it is shielded: the operation stays pending after the timeout
                    I.ghost["left_pending"] = I.ghost.get("left_pending", 0) + 1
                I.raise_py(TimeoutError, "wait_for")
            return I.await_v(aw)
        return coro(go)
    models.MODELS[asyncio.wait_for] = wait_for

    def timeout_cm(I: Interp, cm: V) -> Any:
        """`async with asyncio.timeout(t)`: the body runs under the deadline t; the deadline may
        also pass before the body gets anywhere (TimeoutError at its first suspension point)"""
        if isinstance(cm, VObj) and cm.tag == "timeout-cm":
            t = cm.fields.get("t", NONE)

            def enter() -> V:
                I.ghost.setdefault("deadlines", []).append(t)
                if t is not NONE and I.choose([z3.BoolVal(True)] * 2) == 1:
                    I.ghost["timed_out"] = True
                    I.raise_py(TimeoutError, "asyncio.timeout")
                return NONE
            return enter, (lambda exc: False)
        return None
    if not any(getattr(m, "__name__", "") == "timeout_cm" for m in models.WITH_MODELS):
        models.WITH_MODELS.append(timeout_cm)
    if asyncio.timeout not in models.MODELS:
        models.MODELS[asyncio.timeout] = lambda I, a, k: VObj(
            Stub, {"t": a[0] if a else k.get("delay", NONE)}, lazy=True, tag="timeout-cm")

    def shield(I: Interp, args: list[V], kwargs: dict[str, V]) -> V:
        aw = args[0]
        if isinstance(aw, VCoro):
            return VCoro(aw.thunk, "shielded:" + aw.name)
        return aw
    models.MODELS[asyncio.shield] = shield

    def create_task(I: Interp, args: list[V], kwargs: dict[str, V]) -> V:
        # the coroutine is scheduled, not run: it makes progress only at later suspension points
        I.ghost.setdefault("spawned", []).append(args[0])
        return stub("spawned-task")
    models.MODELS[asyncio.create_task] = create_task
    models.MODELS[asyncio.ensure_future] = create_task
    ex.stubs[("spawned-task", "add_done_callback")] = lambda I, r, a, k: NONE


def lock_model(I: Interp, cm: V) -> Any:
    if isinstance(cm, VObj) and cm.tag.startswith("lock"):
        name = cm.tag

        def enter() -> V:
            held = I.ghost.setdefault("held", set())
            I.prove(f"K-lock-{name}-not-re-entered", z3.BoolVal(name not in held))
            held.add(name)
            return NONE

        def exit_(exc: Any) -> bool:
            I.ghost.setdefault("held", set()).discard(name)
            return False
        return enter, exit_
    return None


def install_locks() -> None:
    if lock_model not in models.WITH_MODELS:
        models.WITH_MODELS.append(lock_model)
