"""C05 - concurrent users of one UDS client never interleave their exchanges.

Decidable part as permission contracts (DESIGN 5/C05): the client mutex is a permission;
  P1  every transport I/O call (`self.transport.request_unsafe/read/write/reconnect`) and every
      call of a function that *requires* the permission (`request_unsafe`, `_read`,
      `reconnect_unsafe`) occurs either inside a function that itself requires it or lexically
      inside `async with self.mutex:`  - one obligation per call site found by reflection over
      every method of `UDSClient` and `ECU`;
  P2  `UDSClient._request` / `reconnect` acquire the mutex once, run the whole exchange inside
      that critical section and release it on every exit (return, exception, cancellation) -
      symbolic execution of the real bodies with the lock as ghost state;
  P3  non-re-entrancy: no function that holds or requires the permission calls one that
      acquires it.
Under the trusted `asyncio.Lock` contract (at most one holder, `__aexit__` releases on every
exit) P1-P3 give: between the write of a request and the end of its exchange no other client
method touches the transport, and a cancelled or failing caller releases the client.
Not claimed: arrival orders/delays are not enumerated; starvation freedom.
"""
from __future__ import annotations

import ast
import inspect
import textwrap
from typing import Any

import z3

from pyvc import models
from pyvc.engine import Explorer, Interp, PyExc, VCoro
from pyvc.runner import Check, Unit, run_units
from pyvc.values import NONE, V, VBool, VConst, VInt, VList, VObj, VStr, VTuple

from .c15 import Stub, coro

REQUIRES = {"request_unsafe", "_read", "reconnect_unsafe"}       # requires holds(self.mutex)
ACQUIRES = {"_request", "reconnect"}                              # acquire it themselves
TRANSPORT_IO = {"request_unsafe", "read", "write", "reconnect", "close", "connect"}


def classes() -> list[type]:
    import gallia.command  # noqa: F401
    from gallia.services.uds.core.client import UDSClient
    from gallia.services.uds.ecu import ECU
    return [UDSClient, ECU]


def is_self_attr(n: ast.AST, attr: str) -> bool:
    return isinstance(n, ast.Attribute) and n.attr == attr and isinstance(n.value, ast.Name) \
        and n.value.id == "self"


class Scan(ast.NodeVisitor):
    def __init__(self) -> None:
        self.depth = 0
        self.sites: list[tuple[int, str, str, bool]] = []  # line, kind, callee, under_lock
        self.acquires = 0

    def visit_AsyncWith(self, n: ast.AsyncWith) -> None:
        locked = any(is_self_attr(it.context_expr, "mutex") for it in n.items)
        if locked:
            self.acquires += 1
            if self.depth:
                self.sites.append((n.lineno, "nested-acquire", "mutex", True))
            self.depth += 1
        for st in n.body:
            self.visit(st)
        if locked:
            self.depth -= 1

    def _visit_block(self, body: list[ast.stmt]) -> None:
        """`await self.mutex.acquire()` followed by `try: ... finally: self.mutex.release()` is
        a critical section just like `async with self.mutex` (released on every exit)."""
        pending = False
        for st in body:
            is_acq = isinstance(st, ast.Expr) and isinstance(st.value, ast.Await) and \
                isinstance(st.value.value, ast.Call) and isinstance(
                    st.value.value.func, ast.Attribute) and st.value.value.func.attr == \
                "acquire" and is_self_attr(st.value.value.func.value, "mutex")
            if is_acq:
                pending = True
                continue
            if pending and isinstance(st, ast.Try) and any(
                    isinstance(c, ast.Call) and isinstance(c.func, ast.Attribute)
                    and c.func.attr == "release" and is_self_attr(c.func.value, "mutex")
                    for f_ in st.finalbody for c in ast.walk(f_)):
                self.acquires += 1
                self.depth += 1
                for x in st.body:
                    self.visit(x)
                self.depth -= 1
                for h in st.handlers:
                    self.visit(h)
                for x in st.orelse + st.finalbody:
                    self.visit(x)
                pending = False
                continue
            pending = False
            self.visit(st)

    def visit_AsyncFunctionDef(self, n: ast.AsyncFunctionDef) -> None:
        self._visit_block(n.body)

    def visit_FunctionDef(self, n: ast.FunctionDef) -> None:
        self._visit_block(n.body)

    def visit_Call(self, n: ast.Call) -> None:
        f = n.func
        if isinstance(f, ast.Attribute):
            if is_self_attr(f.value, "transport") and f.attr in TRANSPORT_IO:
                self.sites.append((n.lineno, "transport-io", f.attr, self.depth > 0))
            elif isinstance(f.value, ast.Name) and f.value.id == "self":
                if f.attr in REQUIRES:
                    self.sites.append((n.lineno, "requires-call", f.attr, self.depth > 0))
                if f.attr in ACQUIRES | {"request"} and self.depth > 0:
                    self.sites.append((n.lineno, "acquire-under-lock", f.attr, True))
            elif isinstance(f.value, ast.Call) and isinstance(f.value.func, ast.Name) and \
                    f.value.func.id == "super" and f.attr in REQUIRES:
                self.sites.append((n.lineno, "requires-call", f.attr, self.depth > 0))
        self.generic_visit(n)


def _scan_all() -> tuple[dict, Any]:
    scans: dict[str, tuple[str, Scan, ast.AST]] = {}
    for cls in classes():
        for name, fn in vars(cls).items():
            raw = fn.__func__ if isinstance(fn, (classmethod, staticmethod)) else fn
            if inspect.isfunction(raw):
                tree = ast.parse(textwrap.dedent(inspect.getsource(raw)))
                sc = Scan()
                sc.visit(tree)
                scans[name] = (cls.__name__, sc, tree)

    def self_calls(tree: ast.AST) -> list[tuple[str, bool, int]]:
        out: list[tuple[str, bool, int]] = []

        class V2(Scan):
            def visit_Call(self, n: ast.Call) -> None:  # type: ignore[override]
                f = n.func
                if isinstance(f, ast.Attribute) and isinstance(f.value, ast.Name) and \
                        f.value.id == "self":
                    out.append((f.attr, self.depth > 0, n.lineno))
                ast.NodeVisitor.generic_visit(self, n)
        V2().visit(tree)
        return out
    return scans, self_calls


def requiring_closure() -> set[str]:
    """Declared requiring functions plus private helpers that touch the transport without taking
    the lock themselves but are only ever called with the lock held (every call site is under
    the lock or inside a requiring function, and there is at least one)."""
    scans, self_calls = _scan_all()
    R = set(REQUIRES)
    changed = True
    while changed:
        changed = False
        for name, (cn, sc, tree) in scans.items():
            if name in R or name in ACQUIRES:
                continue
            touches = any(k in ("transport-io", "requires-call") and not under
                          for _, k, _, under in sc.sites) or any(
                c in R and not under for c, under, _ in self_calls(tree))
            if not touches:
                continue
            sites = [(caller, under) for caller, (_, _, t2) in scans.items()
                     for c, under, _ in self_calls(t2) if c == name]
            if sites and all(under or caller in R for caller, under in sites):
                R.add(name)
                changed = True
    return R


def permission_harness(I: Interp) -> None:
    n_sites = 0
    held_by_contract = requiring_closure()
    for cls in classes():
        for name, fn in vars(cls).items():
            raw = fn.__func__ if isinstance(fn, (classmethod, staticmethod)) else fn
            if not inspect.isfunction(raw):
                continue
            src = textwrap.dedent(inspect.getsource(raw))
            tree = ast.parse(src)
            sc = Scan()
            sc.visit(tree)
            I.ex.functions[f"{cls.__module__}.{cls.__name__}.{name}"] = str(hash(src) & 0xFFFFFFFF)
            holder = name in held_by_contract
            for line, kind, callee, under in sc.sites:
                n_sites += 1
                oid = f"P1-{cls.__name__}.{name}:{kind}:{callee}"
                if kind in ("transport-io", "requires-call"):
                    I.prove(oid + "(holds-mutex)", z3.BoolVal(under or holder),
                            f"line +{line}")
                elif kind == "nested-acquire":
                    I.prove("P3-" + oid[3:] + "(not-re-entrant)", z3.BoolVal(False))
                elif kind == "acquire-under-lock":
                    I.prove("P3-" + oid[3:] + "(no-acquiring-call-while-holding)",
                            z3.BoolVal(False))
            if holder:
                I.prove(f"P3-{cls.__name__}.{name}(requiring-function-does-not-acquire)",
                        z3.BoolVal(sc.acquires == 0 and not any(
                            k == "acquire-under-lock" for _, k, _, _ in sc.sites)))
            if holder:
                for line, kind, callee, under in sc.sites:
                    if kind == "requires-call" or kind == "transport-io":
                        pass
    # P1 (inferred): a method with an unlocked transport access or an unlocked call of a
    # requiring function itself requires the permission, and so do its callers - every call
    # site of such a method is an obligation too (the declared REQUIRES set stays as it is).
    scans: dict[str, tuple[str, Scan, ast.AST]] = {}
    for cls in classes():
        for name, fn in vars(cls).items():
            raw = fn.__func__ if isinstance(fn, (classmethod, staticmethod)) else fn
            if inspect.isfunction(raw):
                tree = ast.parse(textwrap.dedent(inspect.getsource(raw)))
                sc = Scan()
                sc.visit(tree)
                scans[name] = (cls.__name__, sc, tree)

    def self_calls(tree: ast.AST) -> list[tuple[str, bool, int]]:
        out: list[tuple[str, bool, int]] = []

        class V2(ast.NodeVisitor):
            depth = 0

            def visit_AsyncWith(self, n: ast.AsyncWith) -> None:
                locked = any(is_self_attr(it.context_expr, "mutex") for it in n.items)
                self.depth += locked
                for st in n.body:
                    self.visit(st)
                self.depth -= locked

            def visit_Call(self, n: ast.Call) -> None:
                f = n.func
                if isinstance(f, ast.Attribute) and isinstance(f.value, ast.Name) and \
                        f.value.id == "self":
                    out.append((f.attr, self.depth > 0, n.lineno))
                self.generic_visit(n)
        V2().visit(tree)
        return out
    inferred: set[str] = set()
    changed = True
    while changed:
        changed = False
        for name, (cn, sc, tree) in scans.items():
            if name in held_by_contract or name in inferred:
                continue
            unlocked_io = any(k in ("transport-io", "requires-call") and not under
                              for _, k, _, under in sc.sites)
            unlocked_call = any(c in inferred and not under for c, under, _ in self_calls(tree))
            if unlocked_io or unlocked_call:
                inferred.add(name)
                changed = True
    for name, (cn, sc, tree) in scans.items():
        for callee, under, line in self_calls(tree):
            if callee in inferred:
                n_sites += 1
                I.prove(f"P1-{cn}.{name}:call-of-unlocked-transport-user:{callee}(holds-mutex)",
                        z3.BoolVal(under or name in held_by_contract), f"line +{line}")
    # P4: a function that requires the permission keeps it throughout: neither it nor anything
    # it calls on self releases the mutex
    def releases(tree: ast.AST) -> bool:
        return any(isinstance(n, ast.Call) and isinstance(n.func, ast.Attribute)
                   and n.func.attr == "release" and is_self_attr(n.func.value, "mutex")
                   for n in ast.walk(tree))
    for r in sorted(REQUIRES):
        if r not in scans:
            continue
        seen, todo, bad = {r}, [r], []
        while todo:
            g = todo.pop()
            if releases(scans[g][2]):
                bad.append(g)
            for callee, _, _ in self_calls(scans[g][2]):
                if callee in scans and callee not in seen:
                    seen.add(callee)
                    todo.append(callee)
        I.prove(f"P4-{r}-keeps-the-mutex-throughout(no-release-in-anything-it-calls)",
                z3.BoolVal(not bad), "released in " + ", ".join(bad))
    I.prove("P1-call-sites-found", z3.BoolVal(n_sites >= 5), f"{n_sites} sites")
    # the requires-set is closed: every REQUIRES name exists
    from gallia.services.uds.core.client import UDSClient
    for r in REQUIRES:
        I.prove(f"P1-{r}-exists", z3.BoolVal(hasattr(UDSClient, r)))


def lock_model(I: Interp, cm: V) -> Any:
    if isinstance(cm, VObj) and cm.tag == "lock":
        def enter() -> V:
            I.prove("P2-acquire-only-when-not-held(non-re-entrant)",
                    z3.BoolVal(not I.ghost["held"]))
            I.ghost["held"] = True
            I.ghost["acquired"] += 1
            return NONE

        def exit_(exc: Any) -> bool:
            I.prove("P2-no-part-of-the-exchange-is-still-running-when-the-mutex-is-released",
                    z3.BoolVal(I.ghost.get("detached", 0) == 0),
                    "a shielded operation survives the cancellation of its caller")
            I.ghost["held"] = False
            I.ghost["released"] += 1
            return False
        return enter, exit_
    return None


def section_harness(method: str):
    def harness(I: Interp) -> None:
        import asyncio
        from gallia.services.uds.core import client as C
        from gallia.services.uds.core import exception as X
        from gallia.services.uds.core import service as S
        if lock_model not in models.WITH_MODELS:
            models.WITH_MODELS.append(lock_model)
        I.ghost.update({"held": False, "acquired": 0, "released": 0, "inner_calls": 0,
                        "detached": 0})

        def shield(I2: Interp, args: list[V], kwargs: dict[str, V]) -> V:
            """asyncio.shield(aw): when the awaiting caller is cancelled, `aw` keeps running"""
            aw = args[0]

            def go() -> V:
                if I2.choose([z3.BoolVal(True)] * 2) == 1:
                    I2.ghost["detached"] += 1
                    raise PyExc(VObj(asyncio.CancelledError, {"args": VTuple([])}))
                return I2.await_v(aw)
            return coro(go)
        models.MODELS[asyncio.shield] = shield

        def inner(I2: Interp, self_: V, *a: V, **k: V) -> V:
            def go() -> V:
                I2.prove("P2-exchange-runs-inside-the-critical-section",
                         z3.BoolVal(I2.ghost["held"]))
                I2.ghost["inner_calls"] += 1
                c = I2.choose([z3.BoolVal(True)] * 4)
                I2.ghost["outcome"] = c
                if c == 1:
                    raise PyExc(VObj(X.MissingResponse, {"args": VTuple([])}))
                if c == 2:
                    raise PyExc(VObj(asyncio.CancelledError, {"args": VTuple([])}))
                if c == 3:
                    raise PyExc(VObj(RuntimeError, {"args": VTuple([])}))
                return VObj(S.RawPositiveResponse, {"_pdu": I2.fresh_bytes("r", minlen=1)})
            return coro(go)
        I.ex.contracts[C.UDSClient.request_unsafe] = inner
        I.ex.contracts[C.UDSClient.reconnect_unsafe] = inner
        # explicit lock operations (asyncio.Lock contract)
        I.ex.stubs[("lock", "locked")] = lambda I2, r, a, k: VBool(bool(I2.ghost["held"]))

        def acquire(I2: Interp, r: V, a: list[V], k: dict[str, V]) -> V:
            def go() -> V:
                I2.prove("P2-acquire-only-when-not-held(non-re-entrant)",
                         z3.BoolVal(not I2.ghost["held"]))
                I2.ghost["held"] = True
                I2.ghost["acquired"] += 1
                return VBool(True)
            return coro(go)
        I.ex.stubs[("lock", "acquire")] = acquire

        def release(I2: Interp, r: V, a: list[V], k: dict[str, V]) -> V:
            I2.prove("P2-release-only-by-the-holder", z3.BoolVal(bool(I2.ghost["held"])))
            I2.prove("P2-no-part-of-the-exchange-is-still-running-when-the-mutex-is-released",
                     z3.BoolVal(I2.ghost["detached"] == 0),
                     "a shielded operation survives the cancellation of its caller")
            I2.ghost["held"] = False
            I2.ghost["released"] += 1
            return NONE
        I.ex.stubs[("lock", "release")] = release
        client = VObj(C.UDSClient, {"mutex": VObj(Stub, {}, lazy=True, tag="lock"),
                                    "transport": VObj(Stub, {}, lazy=True, tag="transport")})
        req = VObj(S.RawRequest, {"_pdu": I.fresh_bytes("q", minlen=1)})
        args = [req, NONE] if method == "_request" else [NONE]
        try:
            I.await_v(I.call_v(I.getattr_v(client, method), args, {}))
        except PyExc:
            pass
        I.prove("P2-one-acquire-per-exchange", z3.BoolVal(I.ghost["acquired"] == 1))
        I.prove("P2-whole-exchange-is-one-call-inside-the-section",
                z3.BoolVal(I.ghost["inner_calls"] == 1))
        I.prove("P2-mutex-released-on-every-exit(return|error|cancellation)",
                z3.BoolVal(not I.ghost["held"] and I.ghost["released"] == 1))
    return harness


def build_units(tier: str) -> list[Unit]:
    return [Unit("permissions/call-sites", permission_harness),
            Unit("section/UDSClient._request", section_harness("_request")),
            Unit("section/UDSClient.reconnect", section_harness("reconnect"))]


def native_replay(unit: str, obligation: str, model: dict) -> tuple[bool, str]:
    """The one listed finding: _tester_present(suppress_resp=True) writes while another task
    holds the mutex."""
    import asyncio
    import logging
    logging.disable(logging.CRITICAL)
    from gallia.services.uds.core.client import UDSClient
    from gallia.transports.base import BaseTransport
    if "_tester_present:transport-io" not in obligation:
        return native_interleavings()
    log: list[str] = []

    class T(BaseTransport, scheme="c05"):
        def __init__(self) -> None:
            pass

        async def write(self, data, timeout=None, tags=None):  # type: ignore
            log.append("write:" + data.hex())
            return len(data)

        async def read(self, timeout=None, tags=None):  # type: ignore
            await asyncio.sleep(0.05)
            return bytes.fromhex("5001")

        async def request_unsafe(self, data, timeout=None, tags=None):  # type: ignore
            log.append("begin:" + data.hex())
            r = await self.read(timeout, tags)
            log.append("end:" + data.hex())
            return r

        async def close(self) -> None:
            pass

        @classmethod
        async def connect(cls, target, timeout=None):  # type: ignore
            return cls()

    async def go() -> None:
        from gallia.services.uds.core import service as S
        c = UDSClient(T(), timeout=1)
        t = asyncio.create_task(c.request(S.DiagnosticSessionControlRequest(1)))
        await asyncio.sleep(0.01)
        await c._tester_present(suppress_resp=True)
        await t
    asyncio.run(go())
    inter = any(e.startswith("write:") for e in log[1:-1]) if len(log) >= 3 else False
    return inter, f"transport trace {log}: a tester-present write landed inside another exchange"


def native_interleavings() -> tuple[bool, str]:
    """Three schedules on the real client over a tracing transport: (1) a caller cancelled in the
    middle of its exchange, then a second caller; (2) a second caller arriving during the retry
    backoff of the first; (3) the cyclic tester-present worker firing during a slow exchange.
    An exchange = everything between the first write of a request and its final read."""
    import asyncio
    import logging
    logging.disable(logging.CRITICAL)
    import gallia.command  # noqa: F401
    from gallia.services.uds import ecu as E
    from gallia.services.uds.core import service as S
    from gallia.services.uds.core.client import UDSClient, UDSRequestConfig
    from gallia.transports.base import BaseTransport

    def mk_transport(script: dict[str, list[Any]], trace: list[str]) -> Any:
        class T(BaseTransport, scheme="c05-trace"):
            def __init__(self) -> None:
                self.mutex = asyncio.Lock()
                self.is_closed = False
                self.pending: list[Any] = []
                self.reading = 0

            @classmethod
            async def connect(cls, target: Any, timeout: float | None = None) -> Any:
                return cls()

            async def close(self) -> None:
                pass

            async def reconnect(self, timeout: float | None = None) -> Any:
                return self

            async def write(self, data: bytes, timeout: float | None = None,
                            tags: Any = None) -> int:
                if self.reading:
                    trace.append(f"!write of {data.hex()} while the read of another exchange "
                                 "is pending")
                trace.append("W " + data.hex())
                steps = script.get(data.hex(), [(0.0, "7f" + data.hex()[:2] + "11")])
                self.pending = list(steps.pop(0) if steps and isinstance(steps[0], list)
                                    else steps)
                return len(data)

            async def read(self, timeout: float | None = None, tags: Any = None) -> bytes:
                self.reading += 1
                try:
                    if not self.pending:
                        await asyncio.sleep(timeout or 0.05)
                        raise TimeoutError
                    delay, reply = self.pending.pop(0)
                    if delay is None:
                        await asyncio.sleep(timeout or 0.05)
                        raise TimeoutError
                    await asyncio.sleep(delay)
                    trace.append("R " + reply)
                    return bytes.fromhex(reply)
                finally:
                    self.reading -= 1
        return T()

    def interleaved(trace: list[str], first: str) -> str | None:
        """a write of another request between W <first> and the last read of its exchange"""
        bang = [e for e in trace if e.startswith("!")]
        if bang:
            return bang[0][1:]
        try:
            i = trace.index("W " + first)
        except ValueError:
            return None
        ends = [k for k, e in enumerate(trace) if e.startswith("R ") and e[2:4] in (
            format(int(first[:2], 16) + 0x40, "02x"), "7f") and k > i]
        if not ends:
            return None
        j = ends[-1] if first != "1001" else ends[0]
        foreign = [e for e in trace[i + 1:j] if e.startswith("W ") and e[2:] != first]
        return foreign[0] if foreign else None

    async def s1() -> str | None:
        trace: list[str] = []
        t = mk_transport({"1001": [(None, "")], "3e00": [(0.0, "7e00")]}, trace)
        c = UDSClient(t, timeout=0.3, max_retry=0)
        a = asyncio.ensure_future(c.request(S.DiagnosticSessionControlRequest(1)))
        await asyncio.sleep(0.05)
        a.cancel()
        try:
            await a
        except BaseException:  # noqa: BLE001
            pass
        try:
            await asyncio.wait_for(c.request(S.TesterPresentRequest()), 1.0)
        except TimeoutError:
            return ("a caller cancelled in the middle of its exchange leaves the client locked: "
                    "the next request made no progress within 1 s")
        except Exception:  # noqa: BLE001
            pass
        bang = [e for e in trace if e.startswith("!")]
        if bang:
            return ("after a caller was cancelled in the middle of its exchange, the next "
                    f"caller's {bang[0][1:]}: {trace}")
        return None

    async def s2() -> str | None:
        trace: list[str] = []
        script = {"1001": [[(None, "")], [(0.0, "5001003201f4")]], "3e00": [(0.0, "7e00")]}
        t = mk_transport(script, trace)
        c = UDSClient(t, timeout=0.05, max_retry=1)
        a = asyncio.ensure_future(c.request(S.DiagnosticSessionControlRequest(1)))
        await asyncio.sleep(0.12)  # inside A's backoff
        b = asyncio.ensure_future(c.request(S.TesterPresentRequest()))
        for f in (a, b):
            try:
                await asyncio.wait_for(f, 3)
            except Exception:  # noqa: BLE001
                pass
        w = [e for e in trace if e.startswith("W ")]
        if w[:3] == ["W 1001", "W 3e00", "W 1001"]:
            return (f"a second caller transmitted inside the first caller's exchange (during "
                    f"its retry backoff): {trace}")
        return None

    async def s3() -> str | None:
        trace: list[str] = []
        script = {"1001": [(0.0, "7f1078"), (0.4, "5001003201f4")], "3e00": [(0.0, "7e00")],
                  "3e80": []}
        t = mk_transport(script, trace)
        e = E.ECU(t, timeout=1.0, max_retry=0)
        await e.start_cyclic_tester_present(0.1)
        try:
            await e.request(S.DiagnosticSessionControlRequest(1))
        except Exception:  # noqa: BLE001
            pass
        await e.stop_cyclic_tester_present()
        try:
            i = trace.index("W 1001")
            j = trace.index("R 5001003201f4")
        except ValueError:
            return None
        foreign = [x for x in trace[i + 1:j] if x.startswith("W ")]
        if foreign:
            return (f"the tester-present worker wrote {foreign[0][2:]} between a request and "
                    f"its final reply: {trace[i:j + 1]}")
        return None

    async def go() -> tuple[bool, str]:
        for sc in (s1, s2, s3):
            bad = await sc()
            if bad:
                return True, bad
        return False, "cancellation, retry backoff and cyclic tester present keep exchanges apart"
    del interleaved, UDSRequestConfig
    return asyncio.run(go())


def native_search(unit: str, obligation: str, seed: int) -> dict | None:
    return {}


TRUSTED = [
    "asyncio.Lock: at most one holder; `async with` releases on every exit incl. cancellation",
    "the call-site scan sees every transport use: methods are enumerated by reflection, "
    "attribute access through aliases (x = self.transport; x.write()) would escape it",
    "pyvc VC generator for the two critical-section bodies",
]


def main(tier: str, seed: int, only: str | None = None, jobs: int = 16) -> int:
    chk = Check("C05", "contracts.c05", tier, seed)
    units = build_units(tier)
    if only:
        units = [u for u in units if only in u.uid]
    results = run_units(units, jobs)
    chk.trusted_base = TRUSTED
    chk.assumptions = [
        "sufficient condition only: schedules are not enumerated; 'each caller gets its own "
        "reply' follows from exclusion plus C03 (the accepted reply matches the request held by "
        "the lock owner)",
        "code that bypasses the client and uses `transport` directly is outside the contract",
    ]
    return chk.finish(results, native_replay, native_search)
